"""Bounded stand-in / replay oracle for C09 (query semantics, totality) and C17 (equality
and hashing), run on the real code under /venv/bin/python.

Vocabulary: every operator of every query type over a small set of keys and comparison
values; closed under ~, &, | to depth 2 (C17: all pairs up to depth 1 + sampled depth 2).
Universe: points with every combination of missing key / None / '' / value for two tag keys
and missing / None / 0 / negative / equal-to-bound / above for two field keys, two
measurements, three times.  The oracle is the documented meaning (DESIGN 3.2) written
independently of queries.py.
"""
import argparse, itertools, json, random, re, sys
from datetime import datetime, timezone, timedelta
from tinyflux import Point, TagQuery, FieldQuery, MeasurementQuery, TimeQuery

U = timezone.utc
T0 = datetime(2020, 1, 1, tzinfo=U)
MISSING = object()


def universe():
    pts = []
    tagvals = [MISSING, None, "", "x", "xy"]
    fldvals = [MISSING, None, 0, -1, -2, 1, 2.5]
    for a, b in itertools.product(tagvals, ["x", MISSING, None]):
        for p, q in itertools.product(fldvals, [MISSING, 1]):
            tags = {k: v for k, v in (("a", a), ("b", b)) if v is not MISSING}
            fields = {k: v for k, v in (("p", p), ("q", q)) if v is not MISSING}
            pts.append(Point(time=T0 + timedelta(seconds=len(pts) % 3), measurement=["m0", "m1", ""][len(pts) % 3], tags=tags, fields=fields))
    return pts


def cmp_sem(get, op, rhs):
    """comparison: the addressed value exists and op(value, rhs) is defined and true"""
    def f(p):
        v = get(p)
        if v is MISSING:
            return False
        try:
            return bool(op(v, rhs))
        except TypeError:
            return False
    return f


import operator as O
OPS = [("==", O.eq), ("!=", O.ne), ("<", O.lt), ("<=", O.le), (">", O.gt), (">=", O.ge)]


def _arg_is_bool(value, arg):
    return type(arg) is bool


def atoms():
    A = []
    tg = lambda k: (lambda p: p.tags.get(k, MISSING))
    fl = lambda k: (lambda p: p.fields.get(k, MISSING))
    for k in ("a", "b"):
        for name, op in OPS:
            for rhs in ("x", ""):
                A.append(("T.%s%s%r" % (k, name, rhs), (lambda k=k, op=op, rhs=rhs: op(TagQuery()[k], rhs)), cmp_sem(tg(k), op, rhs), True))
        A.append(("T.%s.exists" % k, (lambda k=k: TagQuery()[k].exists()), (lambda p, k=k: k in p.tags), True))
        A.append(("T.%s.matches(x)" % k, (lambda k=k: TagQuery()[k].matches("x")), (lambda p, k=k: isinstance(p.tags.get(k, MISSING), str) and re.fullmatch("x", p.tags[k]) is not None), True))
        A.append(("T.%s.matches(X,I)" % k, (lambda k=k: TagQuery()[k].matches("X", re.I)), (lambda p, k=k: isinstance(p.tags.get(k, MISSING), str) and re.fullmatch("X", p.tags[k], re.I) is not None), True))
        A.append(("T.%s.matches(X)" % k, (lambda k=k: TagQuery()[k].matches("X")), (lambda p, k=k: isinstance(p.tags.get(k, MISSING), str) and re.fullmatch("X", p.tags[k]) is not None), True))
        A.append(("T.%s.search(x)" % k, (lambda k=k: TagQuery()[k].search("x")), (lambda p, k=k: isinstance(p.tags.get(k, MISSING), str) and re.search("x", p.tags[k]) is not None), True))
        A.append(("T.%s.test" % k, (lambda k=k: TagQuery()[k].test(_is_empty)), (lambda p, k=k: k in p.tags and _is_empty(p.tags[k])), True))
        A.append(("T.%s.map" % k, (lambda k=k: TagQuery()[k].map(_strlen).test(_eq, 1)), (lambda p, k=k: k in p.tags and p.tags[k] is not None and len(p.tags[k]) == 1), False))
    for k in ("p", "q"):
        for name, op in OPS:
            for rhs in (1, 0):
                A.append(("F.%s%s%r" % (k, name, rhs), (lambda k=k, op=op, rhs=rhs: op(FieldQuery()[k], rhs)), cmp_sem(fl(k), op, rhs), True))
        # right-hand sides that are different numbers with the same hash(): hash(-1) == hash(-2)
        for rhs in (-1, -2):
            A.append(("F.%s==%r" % (k, rhs), (lambda k=k, rhs=rhs: FieldQuery()[k] == rhs), cmp_sem(fl(k), O.eq, rhs), True))
        A.append(("F.%s.exists" % k, (lambda k=k: FieldQuery()[k].exists()), (lambda p, k=k: k in p.fields), True))
        A.append(("F.%s.test" % k, (lambda k=k: FieldQuery()[k].test(_is_zero)), (lambda p, k=k: k in p.fields and _is_zero(p.fields[k])), True))
        A.append(("F.%s.test2" % k, (lambda k=k: FieldQuery()[k].test(_ge, 1)), (lambda p, k=k: k in p.fields and _ge(p.fields[k], 1)), True))
        # extra arguments that are equal (1 == True) but of different type, handed to a test function that can tell them apart
        A.append(("F.%s.testarg(1)" % k, (lambda k=k: FieldQuery()[k].test(_arg_is_bool, 1)), (lambda p, k=k: False), True))
        A.append(("F.%s.testarg(True)" % k, (lambda k=k: FieldQuery()[k].test(_arg_is_bool, True)), (lambda p, k=k: k in p.fields), True))
    for name, op in OPS:
        A.append(("M%s'm0'" % name, (lambda op=op: op(MeasurementQuery(), "m0")), cmp_sem(lambda p: p.measurement, op, "m0"), True))
        A.append(("t%s+1" % name, (lambda op=op: op(TimeQuery(), T0 + timedelta(seconds=1))), cmp_sem(lambda p: p.time, op, T0 + timedelta(seconds=1)), True))
    A.append(("M.matches", (lambda: MeasurementQuery().matches("m")), (lambda p: re.fullmatch("m", p.measurement) is not None), True))
    A.append(("M.search", (lambda: MeasurementQuery().search("1")), (lambda p: re.search("1", p.measurement) is not None), True))
    A.append(("M.test", (lambda: MeasurementQuery().test(_is_empty)), (lambda p: _is_empty(p.measurement)), True))
    A.append(("t.test", (lambda: TimeQuery().test(_sec1)), (lambda p: _sec1(p.time)), True))
    A.append(("T.noop", (lambda: TagQuery().noop()), (lambda p: True), True))
    A.append(("F.noop", (lambda: FieldQuery().noop()), (lambda p: True), True))
    A.append(("M.map", (lambda: MeasurementQuery().map(_strlen).test(_eq, 2)), (lambda p: len(p.measurement) == 2), False))
    A.append(("T.a.b (two keys)", (lambda: TagQuery().a.b == "x"), (lambda p: False), True))
    return A


def _is_empty(v): return v == ""
def _is_zero(v): return v == 0
def _ge(v, b): return v is not None and v >= b
def _strlen(v): return len(v)
def _eq(v, b): return v == b
def _sec1(t): return t.second == 1


def build(expr, A):
    """expr: index | ('~', e) | ('&', e1, e2) | ('|', e1, e2) -> (name, query, oracle, hashable)"""
    if isinstance(expr, int):
        n, mk, sem, hashable = A[expr]
        return n, mk(), sem, hashable
    if expr[0] == "~":
        n, q, s, h = build(expr[1], A)
        return "~(%s)" % n, ~q, (lambda p: not s(p)), h
    n1, q1, s1, h1 = build(expr[1], A)
    n2, q2, s2, h2 = build(expr[2], A)
    if expr[0] == "&":
        return "(%s & %s)" % (n1, n2), q1 & q2, (lambda p: s1(p) and s2(p)), h1 and h2
    return "(%s | %s)" % (n1, n2), q1 | q2, (lambda p: s1(p) or s2(p)), h1 and h2


def truth(q, pts):
    out = []
    for p in pts:
        try:
            out.append(bool(q(p)))
        except Exception as e:
            out.append("raises %s" % type(e).__name__)
    return out


def main():
    ap = argparse.ArgumentParser()
    ap.add_argument("--mode"); ap.add_argument("--tier", default="quick"); ap.add_argument("--seed", default="0"); ap.add_argument("--prop", default="C09")
    a = ap.parse_args()
    A = atoms()
    pts = universe()
    if a.mode == "replay":
        rep = json.load(sys.stdin)
        f = rep.get("standin_failure") or rep.get("function_inputs")
        fails = []
        check_exprs([tuple_ify(e) for e in f["exprs"]], A, pts, fails, a.prop if "prop" not in f else f["prop"])
        same = [x for x in fails if x["what"] == f.get("what")] or fails
        print(json.dumps(dict(reproduced=bool(same), detail=same[:2])))
        return
    rnd = random.Random(int(a.seed))
    n = len(A)
    exprs = list(range(n)) + [("~", i) for i in range(n)]
    pairs = [(i, j) for i in range(n) for j in range(n)]
    if a.tier == "quick":
        pairs = rnd.sample(pairs, 1500)
    exprs += [(op, i, j) for (i, j) in pairs for op in "&|"]
    # depth 2 / 3 samples
    for _ in range(1500 if a.tier == "quick" else 20000):
        e = rnd.choice(exprs)
        e2 = rnd.choice(exprs)
        exprs.append(rnd.choice([("~", e), ("&", e, e2), ("|", e, e2)]))
    failures = []
    evals = 0
    if a.prop == "C09":
        for e in exprs:
            evals += len(pts)
            check_exprs([e], A, pts, failures, "C09")
    else:
        # C17: pairs of expressions
        base = list(range(n)) + [("~", i) for i in range(n)] + [(op, i, j) for (i, j) in rnd.sample([(i, j) for i in range(n) for j in range(n)], 120) for op in "&|"]
        cand = [(x, y) for x in base for y in base] if a.tier != "quick" else rnd.sample([(x, y) for x in base for y in base], 25000)
        # always include the structurally interesting pairs: same expression rebuilt, swapped operands
        cand += [(i, j) for i in range(n) for j in range(n)] + [(x, x) for x in base] + [(("&", i, j), ("&", j, i)) for i in range(0, n, 3) for j in range(1, n, 5)] + [(("|", i, ("&", j, i)), ("|", ("&", j, i), i)) for i in range(0, n, 7) for j in range(2, n, 9)]
        cand += [(("&", i, ("~", j)), ("&", ("~", j), i)) for i in range(0, n, 5) for j in range(1, n, 7)]
        # a hashable compound combined with two DIFFERENT unhashable (map) queries: the two results must never be equal
        unh = [i for i in range(n) if not A[i][3]]
        hsh = [i for i in range(n) if A[i][3]]
        comps = [("&", hsh[i % len(hsh)], hsh[(i * 7 + 3) % len(hsh)]) for i in range(0, len(hsh), 6)] + [("~", hsh[i]) for i in range(0, len(hsh), 9)] + [("|", hsh[i % len(hsh)], hsh[(i * 5 + 1) % len(hsh)]) for i in range(0, len(hsh), 8)]
        for c in comps:
            for u1 in unh:
                for u2 in unh:
                    if u1 < u2:
                        cand += [((op, c, u1), (op, c, u2)) for op in "&|"] + [((op, u1, c), (op, u2, c)) for op in "&|"]
        for x, y in cand:
            evals += 1
            check_exprs([x, y], A, pts, failures, "C17")
    seen, out = set(), []
    for f in failures:
        if f["what"] not in seen:
            seen.add(f["what"])
            out.append(f)
    print(json.dumps(dict(evaluations=evals, distinct_nontrivial=len(exprs) if a.prop == "C09" else evals,
                          bound="%d atomic queries (every operator x query type) closed under ~,&,| to depth 1 (pairs %s) plus sampled deeper expressions; %d-point universe with every combination of missing/None/''/value tags and missing/None/0/negative/bound fields" % (n, "sampled" if a.tier == "quick" else "exhaustive", len(pts)),
                          rule="each expression is built through the real constructors and evaluated on every point of the universe; compared with the documented meaning (C09) / with its pair (C17)",
                          samples=[build(exprs[5], A)[0], build(exprs[-1], A)[0]], failures=out[:60], failure_count=len(failures))))


def tuple_ify(e):
    return tuple(tuple_ify(x) if isinstance(x, list) else x for x in e) if isinstance(e, (list, tuple)) else e


def check_exprs(es, A, pts, failures, prop):
    def note(what, exprs):
        if len(failures) < 400:
            failures.append(dict(what=what, exprs=[e for e in exprs], prop=prop))
    if prop == "C09":
        (e,) = es
        name, q, sem, _ = build(e, A)
        got = truth(q, pts)
        exp = [bool(sem(p)) for p in pts]
        if any(isinstance(g, str) for g in got):
            k = next(i for i, g in enumerate(got) if isinstance(g, str))
            note("evaluating %s %s on a valid point (tags=%r fields=%r)" % (atom_kind(name), got[k], pts[k].tags, pts[k].fields), [e])
        elif got != exp:
            k = next(i for i in range(len(pts)) if got[i] != exp[i])
            note("%s is %s on tags=%r fields=%r m=%r, documented meaning %s" % (atom_kind(name), got[k], pts[k].tags, pts[k].fields, pts[k].measurement, exp[k]), [e])
        return
    x, y = es
    n1, q1, s1, h1 = build(x, A)
    n2, q2, s2, h2 = build(y, A)
    try:
        eq = (q1 == q2)
    except Exception as ex:
        note("== raises %s" % type(ex).__name__, [x, y]); return
    if eq:
        if truth(q1, pts) != truth(q2, pts):
            note("equal queries evaluate differently: %s == %s" % (atom_kind(n1), atom_kind(n2)), [x, y])
        try:
            if hash(q1) != hash(q2):
                note("equal queries with different hashes: %s, %s" % (atom_kind(n1), atom_kind(n2)), [x, y])
        except TypeError:
            note("equal queries are unhashable", [x, y])
        if not (h1 and h2):
            note("a query containing a map function / noop compares equal: %s == %s" % (atom_kind(n1), atom_kind(n2)), [x, y])
    if isinstance(x, tuple) and isinstance(y, tuple) and x[0] in "&|" and y[0] == x[0] and len(x) == 3 and x[1] == y[2] and x[2] == y[1] and h1 and not eq:
        note("commutativity: (a %s b) != (b %s a) for %s" % (x[0], x[0], shape(x, A)), [x, y])


def atom_kind(name):
    return re.sub(r"'[^']*'|\d+(\.\d+)?", "_", name)[:110]


def shape(x, A):
    k = lambda e: "compound" if isinstance(e, tuple) else "simple"
    return "%s %s %s" % (k(x[1]), x[0], k(x[2]))


if __name__ == "__main__":
    main()
