"""Bounded stand-in / replay oracle for C18, run on the real code under /venv/bin/python.

bounded: all sorted lists of length 0..7 over a 5-value domain x 11 probes
(inside, between and outside the values), exhaustive; plus seeded random
float lists.  The oracle is the C18 statement evaluated by linear scan.
"""
import argparse, itertools, json, random, sys
from tinyflux import utils

def oracle(name, a, x):
    hit = {"find_eq": lambda e: e == x, "find_lt": lambda e: e < x, "find_le": lambda e: e <= x,
           "find_gt": lambda e: e > x, "find_ge": lambda e: e >= x}[name]
    idx = [i for i, e in enumerate(a) if hit(e)]
    if not idx:
        return None
    return idx[0] if name in ("find_eq", "find_gt", "find_ge") else idx[-1]

NAMES = ["find_eq", "find_lt", "find_le", "find_gt", "find_ge"]

def one(name, a, x, failures):
    exp = oracle(name, a, x)
    try:
        got = getattr(utils, name)(list(a), x)
    except Exception as e:
        got = "raises %s" % type(e).__name__
    if got != exp:
        if len(failures) < 20:
            failures.append(dict(what="%s(%s, %s) = %s, expected %s" % (name, list(a), x, got, exp), function="tinyflux.utils." + name,
                                 input=dict(function=name, sorted_list=list(a), x=x), expected=exp, actual=got))
        return False
    return True

def main():
    ap = argparse.ArgumentParser(); ap.add_argument("--mode"); ap.add_argument("--tier", default="quick"); ap.add_argument("--seed", default="0"); ap.add_argument("--prop", default=None)
    a = ap.parse_args()
    if a.mode == "replay":
        rep = json.load(sys.stdin)
        inp = rep.get("function_inputs") or (rep.get("standin_failure") or {}).get("input")
        f = []
        xs = sorted(inp["sorted_list"])
        ok = one(inp["function"], xs, inp["x"], f)
        print(json.dumps(dict(reproduced=not ok, detail=f[:1], input=dict(inp, sorted_list=xs))))
        return
    failures = []; n = 0; distinct = set(); samples = []
    dom = [0, 1, 2, 3, 4]; probes = [-1, 0, 0.5, 1, 1.5, 2, 2.5, 3, 3.5, 4, 5]
    maxlen = 7
    for ln in range(maxlen + 1):
        for a_ in itertools.combinations_with_replacement(dom, ln):
            for x in probes:
                for name in NAMES:
                    n += 1
                    one(name, a_, x, failures)
                    if ln >= 2: distinct.add((name, a_, x))
    rnd = random.Random(int(a.seed))
    for _ in range(2000 if a.tier == "quick" else 50000):
        ln = rnd.randint(0, 30)
        xs = sorted(rnd.choice([rnd.uniform(-5, 5), float(rnd.randint(-3, 3)), 0.0, -0.0, float("inf"), -float("inf"), 5e-324]) for _ in range(ln))
        x = rnd.choice(xs) if xs and rnd.random() < 0.6 else rnd.uniform(-6, 6)
        for name in NAMES:
            n += 1
            one(name, xs, x, failures)
            distinct.add((name, tuple(xs), x))
        if len(samples) < 3: samples.append(dict(function=name, sorted_list=xs[:6], x=x))
    print(json.dumps(dict(evaluations=n, distinct_nontrivial=len(distinct), bound="lists of length 0..7 over {0..4} x 11 probes, exhaustive; random float lists of length <= 30",
                          rule="every (helper, sorted list, probe) triple compared with a linear-scan oracle of the C18 statement; non-trivial = list length >= 2",
                          samples=samples, failures=failures)))
main()
