"""Bounded stand-in / replay oracle for the CSV-storage properties, run on the real code
under /venv/bin/python:  C04 (file holds the contents), C05 (codec round trip), C08 (UTC
instants), C12 (crash at an I/O boundary), C13 (injected I/O error), C15 (reads leave no
trace), C16 (append-only insert).

I/O boundaries are observed by rebinding the names `open`, `NamedTemporaryFile`, `shutil`
and `os` inside tinyflux.storages to recording proxies (the route the properties name).
A "crash at boundary k" is the on-disk content of the database file at that boundary
(what a dying process leaves behind; unflushed Python buffers are not on disk).
"""
import argparse, builtins, copy, csv, io, itertools, json, os, random, shutil, subprocess, sys, tempfile, time
from datetime import datetime, timezone, timedelta

import tinyflux.storages as ST
from tinyflux import TinyFlux, Point, TagQuery, FieldQuery, TimeQuery, MeasurementQuery

U = timezone.utc
T0 = datetime(2020, 1, 1, tzinfo=U)


# ------------------------------------------------------------------ independent decoder
def decode_row(row):
    """documented row layout: time, measurement, (prefixed tag key, value)*, (prefixed field key, value)*"""
    t = datetime.fromisoformat(row[0]).replace(tzinfo=U)
    m = row[1]
    tags, fields = {}, {}
    i = 2
    while i < len(row):
        k, v = row[i], row[i + 1]
        if k.startswith("_tag_"):
            tags[k[5:]] = None if v == "_none" else v
        elif k.startswith("t_"):
            tags[k[2:]] = None if v == "_none" else v
        elif k.startswith("_field_") or k.startswith("f_"):
            key = k[7:] if k.startswith("_field_") else k[2:]
            fields[key] = None if v == "_none" else (int(v) if v.lstrip("-").isdigit() else float(v))
        else:
            raise ValueError("bad key %r" % k)
        i += 2
    return (t, m, tuple(sorted(tags.items(), key=lambda kv: kv[0])), tuple(sorted(fields.items(), key=lambda kv: kv[0])))


def pkey(p):
    return (p.time, p.measurement, tuple(sorted(p.tags.items(), key=lambda kv: kv[0])), tuple(sorted(p.fields.items(), key=lambda kv: kv[0])))


def read_file(path, encoding=None, **kw):
    with open(path, "r", encoding=encoding, newline="") as f:
        return [decode_row(r) for r in csv.reader(f, **kw)]


def decode_bytes(data, encoding=None, **kw):
    text = data.decode(encoding or "utf-8")
    return [decode_row(r) for r in csv.reader(io.StringIO(text, newline=""), **kw)]


# ------------------------------------------------------------------ I/O proxies
class SimCrash(BaseException):
    pass


class IOLog:
    def __init__(self, dbpath):
        self.dbpath = dbpath
        self.calls = []  # (name, target)
        self.snapshots = []  # bytes of the db file at each boundary
        self.fail_at = None  # (k, when) inject OSError at call k ('before' | 'after')
        self.record_snapshots = False
        self.active = False

    def boundary(self, name, target=""):
        if not self.active:
            return
        k = len(self.calls)
        self.calls.append((name, target))
        if self.record_snapshots:
            try:
                with builtins.open(self.dbpath, "rb") as f:
                    self.snapshots.append(f.read())
            except FileNotFoundError:
                self.snapshots.append(None)
        if self.fail_at is not None and self.fail_at[0] == k and self.fail_at[1] == "before":
            self.fail_at = None
            raise OSError(28, "injected: no space left on device (%s)" % name)

    def after(self, name):
        if not self.active:
            return
        k = len(self.calls) - 1
        if self.fail_at is not None and self.fail_at[0] == k and self.fail_at[1] == "after":
            self.fail_at = None
            raise OSError(5, "injected: I/O error after %s" % name)


class FileProxy:
    def __init__(self, f, log, label):
        self._f, self._log, self._label = f, log, label

    def __getattr__(self, n):
        return getattr(self._f, n)

    def __iter__(self):
        self._log.boundary("read", self._label)
        self._nexts = 0
        return self if self._log.active else iter(self._f)

    def _wrap(name, after=False):
        def m(self, *a, **k):
            self._log.boundary(name, self._label)
            r = getattr(self._f, name)(*a, **k)
            if after:
                self._log.after(name)
            return r
        return m

    write = _wrap("write")
    flush = _wrap("flush", after=True)
    truncate = _wrap("truncate")
    close = _wrap("close", after=True)
    seek = _wrap("seek")
    read = _wrap("read")
    readline = _wrap("readline")

    def __next__(self):
        # the file object fills its buffer on the first next() after a seek (and again every few KiB): those are the real read calls
        n = getattr(self, "_nexts", 0)
        self._nexts = n + 1
        if n % 64 == 0:
            self._log.boundary("readchunk", self._label)
        return next(self._f)

    def __enter__(self):
        return self

    def __exit__(self, *a):
        # leaving a `with` block closes the file: an I/O step like any other close
        self._log.boundary("close", self._label)
        self._f.close()
        self._log.after("close")
        return False


class OsProxy:
    def __init__(self, log):
        self._log = log

    def __getattr__(self, n):
        return getattr(os, n)

    def fsync(self, fd):
        self._log.boundary("fsync")
        r = os.fsync(fd)
        self._log.after("fsync")
        return r

    def replace(self, src, dst):
        self._log.boundary("replace", dst)
        return os.replace(src, dst)

    def remove(self, p):
        self._log.boundary("remove", p)
        return os.remove(p)


class ShutilProxy:
    def __init__(self, log):
        self._log = log

    def __getattr__(self, n):
        return getattr(shutil, n)

    def copy(self, src, dst):
        # file copy as three boundaries: destination opened (truncated), half written, done
        self._log.boundary("copy-open", dst)
        with builtins.open(src, "rb") as s:
            data = s.read()
        with builtins.open(dst, "wb") as d:
            d.flush()
            self._log.boundary("copy-mid", dst)
            d.write(data[: len(data) // 2])
            d.flush()
            self._log.boundary("copy-mid2", dst)
            d.write(data[len(data) // 2:])
        self._log.boundary("copy-done", dst)
        return dst

    def move(self, src, dst):
        # shutil.move is a rename only inside one file system; across file systems it is copy (truncating the destination first) + unlink
        same_fs = os.stat(src).st_dev == os.stat(os.path.dirname(os.path.abspath(dst)) or ".").st_dev
        if same_fs:
            self._log.boundary("rename", dst)
            os.rename(src, dst)
        else:
            self.copy(src, dst)
            self._log.boundary("remove", src)
            os.unlink(src)
        return dst


def other_filesystem_dir(base):
    """a scratch directory on a file system different from `base`'s, or None"""
    for cand in ("/dev/shm", "/run", "/var/tmp"):
        try:
            if os.path.isdir(cand) and os.access(cand, os.W_OK) and os.stat(cand).st_dev != os.stat(base).st_dev:
                return tempfile.mkdtemp(dir=cand, prefix="csvio-")
        except OSError:
            pass
    return None


def install(log):
    def _open(path, *a, **k):
        log.boundary("open", str(path))
        return FileProxy(builtins.open(path, *a, **k), log, "primary" if str(path) == str(log.dbpath) else str(path))

    def _ntf(*a, **k):
        log.boundary("mktemp")
        f = tempfile.NamedTemporaryFile(*a, **k)
        p = FileProxy(f, log, "temp")
        return p

    ST.open = _open
    ST.NamedTemporaryFile = _ntf
    ST.shutil = ShutilProxy(log)
    ST.os = OsProxy(log)


def uninstall():
    for n in ("open",):
        if n in ST.__dict__:
            del ST.__dict__[n]
    ST.NamedTemporaryFile = tempfile.NamedTemporaryFile
    ST.shutil = shutil
    ST.os = os


# ------------------------------------------------------------------ data
STRINGS = ["", "x", "a,b", 'q"uote', "line\nbreak", "cr\rlf\r\n", "_none", "_tag_k", "t_k", "f_k", "_field_k", "tk", "fk", "é€😀", " lead", "trail ", "1", "-1", "1.5", "nan", "None", "\t"]
NUMS = [0, -0.0, 1, -1, 2**53, 2**53 + 1, -(2**53) - 1, 10**30, 1.5, -2.25, 5e-324, 1.7976931348623157e308, float("inf"), -float("inf"), None, 1e16, 123456789012345678]


def mkp(i, rnd, strings=STRINGS, nums=NUMS):
    tags = {rnd.choice(strings): rnd.choice(strings + [None]) for _ in range(rnd.randint(0, 2))}
    fields = {rnd.choice(strings): rnd.choice(nums) for _ in range(rnd.randint(0, 2))}
    return Point(time=T0 + timedelta(seconds=rnd.choice([0, 1, 1, 2, 5]), microseconds=rnd.choice([0, 1, 999999])), measurement=rnd.choice(strings[:7] + ["m0", "m1"]), tags=tags, fields=fields)


SAFE = ["x", "y", "a b", "m0", "m1", "k", "c\rr\r\nn", "ut_f_k", "x_tag__field_y"]  # CR and CRLF inside a value (what newline translation would destroy); key-prefix text in the middle of a key (what stripping the prefix by replace() would destroy)


def safe_point(rnd):
    return Point(time=T0 + timedelta(seconds=rnd.choice([0, 1, 1, 2, 5])), measurement=rnd.choice(["m0", "m1"]),
                 tags={rnd.choice(SAFE): rnd.choice(SAFE + [None]) for _ in range(rnd.randint(0, 2))},
                 fields={rnd.choice(SAFE): rnd.choice([0, 1, -1, 2.5, None]) for _ in range(rnd.randint(0, 2))})


class Fails:
    def __init__(self, prop):
        self.items = []
        self.prop = prop

    def note(self, what, replay=None):
        if len(self.items) < 300:
            self.items.append(dict(what=what, prop=self.prop, replay=replay))


# ------------------------------------------------------------------ C05
def c05(tier, seed, F):
    rnd = random.Random(seed)
    n = 0
    d = tempfile.mkdtemp()
    try:
        # function level: every string in every slot, every number, both prefix styles
        cases = []
        for s in STRINGS:
            cases += [dict(measurement=s), dict(tags={s: "v"}), dict(tags={"k": s}), dict(fields={s: 1})]
        cases += [dict(tags={"k": None}), dict(tags={}), dict(fields={})]
        for v in NUMS:
            cases.append(dict(fields={"f": v}))
        for c in cases:
            for compact in (False, True):
                n += 1
                p = Point(time=T0 + timedelta(microseconds=7), measurement=c.get("measurement", "m"), tags=dict(c.get("tags", {})), fields=dict(c.get("fields", {})))
                row = [str(x) for x in p._serialize_to_list(compact_key_prefixes=compact)]
                try:
                    q = Point()._deserialize_from_list(row)
                    if not (q == p):
                        F.note("round trip changes the point: %s compact=%s -> %r / %r / %r" % (short(c), compact, q.measurement, q.tags, q.fields))
                    elif set(q.tags) != set(p.tags) or set(q.fields) != set(p.fields):
                        F.note("round trip moves keys between tags and fields: %s" % short(c))
                except Exception as e:
                    F.note("decoding raises %s for %s compact=%s" % (type(e).__name__, short(c), compact))
        # injectivity over pairs of cases
        enc = {}
        for c in cases:
            p = Point(time=T0, measurement=c.get("measurement", "m"), tags=dict(c.get("tags", {})), fields=dict(c.get("fields", {})))
            row = tuple(str(x) for x in p._serialize_to_list())
            n += 1
            if row in enc and not (enc[row] == p):
                F.note("distinct points encode to the same row: %s" % short(c))
            enc[row] = p
        # through the csv layer: dialects x random points
        for kw in ({}, {"delimiter": ";"}, {"quoting": csv.QUOTE_ALL}, {"delimiter": "\t", "quotechar": "'"}):
            for compact in (False, True):
                path = os.path.join(d, "c05_%d_%s.csv" % (n, compact))
                db = TinyFlux(path, auto_index=False, **kw)
                # values the format is known not to represent (KF-16) are exercised at function level only
                ok_s = [x for x in STRINGS if x not in ("", "_none")]
                ok_n = [x for x in NUMS if x is None or isinstance(x, float) or abs(x) <= 2**53]
                pts = [mkp(i, rnd, ok_s, ok_n) for i in range(12 if tier == "quick" else 60)]
                exp = []
                for p in pts:
                    db.insert(copy.deepcopy(p), compact_key_prefixes=compact)
                    exp.append(p)
                # two rewrites through the live object (the handle is reopened after each): what it reads back afterwards, and what ends up in the file, must still be the points
                for rw in range(2):
                    db.insert(Point(time=T0, measurement="zz sentinel", fields={"s": rw}), compact_key_prefixes=compact)
                    db.remove(MeasurementQuery() == "zz sentinel")
                    n += 1
                    try:
                        live = db.all(sorted=False)
                        badl = [(e, g) for e, g in zip(exp, live) if not (e == g)]
                        if len(live) != len(exp) or badl:
                            e, g = badl[0] if badl else (None, None)
                            F.note("after rewrite %d the live database reads the points back changed (dialect %s): %s" % (rw + 1, kw, short(dict(measurement=e.measurement, tags=e.tags)) + " -> " + repr((g.measurement, g.tags))[:80] if e is not None else "%d instead of %d points" % (len(live), len(exp))))
                            break
                    except Exception as ex:
                        F.note("after rewrite %d reading through the live database raises %s (dialect %s)" % (rw + 1, type(ex).__name__, kw))
                        break
                db.close()
                n += len(pts)
                try:
                    got = TinyFlux(path, auto_index=False, **kw).all(sorted=False)
                    bad = [(e, g) for e, g in zip(exp, got) if not (e == g)]
                    if len(got) != len(exp):
                        F.note("csv round trip: %d points written, %d read back (dialect %s)" % (len(exp), len(got), kw))
                    for e, g in bad[:3]:
                        F.note("csv round trip changes a point: %s -> m=%r tags=%r fields=%r" % (short(dict(measurement=e.measurement, tags=e.tags, fields=e.fields)), g.measurement, g.tags, g.fields))
                except Exception as ex:
                    F.note("reading the file back raises %s (dialect %s)" % (type(ex).__name__, kw))
    finally:
        shutil.rmtree(d, ignore_errors=True)
    return n


def short(c):
    s = json.dumps(c, default=str, ensure_ascii=True)
    return s[:100]


# ------------------------------------------------------------------ C08 (runs in a subprocess per TZ)
def c08_inner(F, seed):
    rnd = random.Random(seed)
    n = 0
    d = tempfile.mkdtemp()
    try:
        zones = [timezone.utc, timezone(timedelta(hours=5, minutes=45)), timezone(timedelta(hours=-8)), timezone(timedelta(hours=10, minutes=30))]
        instants = [datetime(1700, 1, 1, tzinfo=U) + timedelta(days=1), datetime(2239, 12, 31, 23, 59, 59, 999999, tzinfo=U), T0, T0 + timedelta(microseconds=1), T0 + timedelta(microseconds=2),
                    datetime(2021, 3, 14, 9, 59, 59, 999999, tzinfo=U), datetime(2021, 3, 14, 10, 0, 0, 0, tzinfo=U), datetime(2021, 11, 7, 8, 30, tzinfo=U), datetime(1969, 12, 31, 23, 59, 59, 999999, tzinfo=U)]
        naive = [datetime(2021, 3, 14, 2, 30), datetime(2021, 11, 7, 1, 30), datetime(2021, 10, 3, 2, 15), datetime(2020, 6, 1, 12, 0, 0, 1)]
        for storage in ("csv", "mem"):
            from tinyflux.storages import MemoryStorage
            mk = (lambda: TinyFlux(os.path.join(d, "c08_%d.csv" % n))) if storage == "csv" else (lambda: TinyFlux(storage=MemoryStorage))
            db = mk()
            exp = []
            for t in instants:
                for z in zones:
                    n += 1
                    db.insert(Point(time=t.astimezone(z), fields={"i": len(exp)}))
                    exp.append(t)
            for t in naive:
                n += 1
                db.insert(Point(time=t, fields={"i": len(exp)}))
                exp.append(t.astimezone(U))
            got = db.all(sorted=False)
            for e, g in zip(exp, got):
                if g.time != e or g.time.tzinfo is None or g.time.utcoffset() != timedelta(0):
                    F.note("insert: stored time %s is not the UTC instant %s (%s)" % (g.time, e, storage))
                    break
            gts = db.get_timestamps()
            if gts != exp:
                k = next(i for i in range(len(exp)) if i >= len(gts) or gts[i] != exp[i])
                F.note("get_timestamps differs from the stored instants at %s (%s)" % (exp[k], storage))
            if storage == "csv":
                # the storage-scan branch of the getter (no index): a second, non-indexing database object on the same file
                n += 1
                db.storage._handle.flush()
                db2 = TinyFlux(db.storage._path, auto_index=False)
                gts2 = db2.get_timestamps()
                db2.close()
                if gts2 != exp or any(x.utcoffset() != timedelta(0) for x in gts2):
                    k = next((i for i in range(len(exp)) if i >= len(gts2) or gts2[i] != exp[i]), 0)
                    F.note("get_timestamps without an index differs from the stored instants at %s: %s (%s)" % (exp[k], gts2[k] if k < len(gts2) else None, storage))
            # comparisons at microsecond resolution in every zone of the comparison value
            for t in instants[2:5]:
                for z in zones:
                    tv = t.astimezone(z)
                    for name, q, sem in (("<", TimeQuery() < tv, lambda x: x < t), ("<=", TimeQuery() <= tv, lambda x: x <= t), ("==", TimeQuery() == tv, lambda x: x == t),
                                         (">", TimeQuery() > tv, lambda x: x > t), (">=", TimeQuery() >= tv, lambda x: x >= t), ("!=", TimeQuery() != tv, lambda x: x != t)):
                        n += 1
                        c = db.count(q)
                        e = sum(1 for x in exp if sem(x))
                        if c != e:
                            F.note("TimeQuery %s adjacent-microsecond comparison counts %d, expected %d (%s)" % (name, c, e, storage))
            srt = db.all()
            if [p.fields["i"] for p in srt] != [i for i, _ in sorted(enumerate(exp), key=lambda kv: kv[1])]:
                F.note("time-sorted results are not the stable sort by instant (%s)" % storage)
            # update(time=...) static and callable, aware non-UTC and naive
            x = datetime(2021, 1, 1, 12, tzinfo=timezone(timedelta(hours=5)))
            db.update(FieldQuery().i == 0, time=x)
            g = db.get(FieldQuery().i == 0)
            n += 1
            if g.time != x or g.time.utcoffset() != timedelta(0):
                F.note("update(time=aware non-UTC): stored %s, expected the instant %s in UTC (%s)" % (g.time, x.astimezone(U), storage))
            db.update(FieldQuery().i == 1, time=lambda t: datetime(2021, 1, 1, 12, tzinfo=timezone(timedelta(hours=-3))))
            g = db.get(FieldQuery().i == 1)
            n += 1
            if g.time != datetime(2021, 1, 1, 15, tzinfo=U) or g.time.utcoffset() != timedelta(0):
                F.note("update(time=callable returning non-UTC): stored %s (%s)" % (g.time, storage))
            nv = datetime(2020, 6, 1, 12, 0, 0, 5)
            db.update(FieldQuery().i == 2, time=nv)
            g = db.get(FieldQuery().i == 2)
            n += 1
            if g.time != nv.astimezone(U):
                F.note("update(time=naive): stored %s, expected local time as instant %s (%s)" % (g.time, nv.astimezone(U), storage))
            # a point without a time receives the insertion time
            before = datetime.now(U)
            db.insert(Point(fields={"i": -1}))
            after = datetime.now(U)
            g = db.get(FieldQuery().i == -1)
            n += 1
            if not (before <= g.time <= after):
                F.note("point without a time did not receive the insertion time (%s)" % storage)
            if storage == "csv":
                path = db._storage._path
                db.close()
                again = TinyFlux(path).all(sorted=False)
                if [p.time for p in again] != [p.time for p in db.__class__(path).all(sorted=False)]:
                    F.note("reopen changes stored times")
    finally:
        shutil.rmtree(d, ignore_errors=True)
    return n


def c08(tier, seed, F):
    n = 0
    for tz in ("UTC", "America/Los_Angeles", "Australia/Lord_Howe", "Asia/Kathmandu"):
        env = dict(os.environ, TZ=tz)
        p = subprocess.run([sys.executable, os.path.abspath(__file__), "--mode", "c08-inner", "--seed", str(seed)], capture_output=True, text=True, env=env)
        try:
            r = json.loads(p.stdout.strip().splitlines()[-1])
        except Exception:
            F.note("C08 subprocess for TZ=%s failed: %s" % (tz, (p.stderr or p.stdout)[-300:]))
            continue
        n += r["n"]
        for f in r["failures"]:
            F.note(f["what"] + " [TZ=%s]" % tz)
    return n


# ------------------------------------------------------------------ histories for C04 C12 C13 C15 C16
def op_list(rnd, k):
    ops = []
    for _ in range(k):
        ops.append(rnd.choice(["ins", "ins", "ins", "ooo", "insm", "get", "contains", "rm", "rm0", "upd", "upd0", "rmall", "drop", "len", "search", "reindex", "getters", "updsame", "updsame_q", "rmf_twice", "upd_mixed"]))
    return ops


def apply_op(db, model, op, rnd, compact=False):
    """returns the new model (list of point keys); may raise what the db raises"""
    if op in ("ins", "ooo"):
        p = safe_point(rnd)
        if op == "ooo":
            p.time = T0 - timedelta(seconds=3)
        db.insert(copy.deepcopy(p), compact_key_prefixes=compact)
        return model + [pkey(p)]
    if op == "insm":
        ps = [safe_point(rnd) for _ in range(3)]
        db.insert_multiple(copy.deepcopy(ps), compact_key_prefixes=compact)
        return model + [pkey(p) for p in ps]
    if op == "get":
        db.get(MeasurementQuery() == "m1")
    elif op == "contains":
        db.contains(MeasurementQuery() == "m0")
    elif op == "search":
        db.search(TagQuery().x.exists())
    elif op == "len":
        len(db)
    elif op == "reindex":
        with open(os.devnull, "w") as dn:
            so = sys.stdout
            sys.stdout = dn
            try:
                db.reindex()
            finally:
                sys.stdout = so
    elif op == "getters":
        db.get_measurements(); db.get_tag_keys(); db.get_field_values("x"); db.get_timestamps("m0"); list(iter(db)); db.all()
    elif op == "rm":
        db.remove(MeasurementQuery() == "m0")
        return [k for k in model if k[1] != "m0"]
    elif op == "rmf_twice":
        # two fresh points, the first of which the remove deletes while the second (stored after it) stays
        tmax = max([k[0] for k in model], default=T0)
        for j_, xv in enumerate((1, 2)):
            q_ = Point(time=tmax + timedelta(seconds=1 + j_), measurement="m0", tags={"k": "rmf"}, fields={"x": xv})
            db.insert(copy.deepcopy(q_), compact_key_prefixes=compact)
            model = model + [pkey(q_)]
        n1 = db.remove(FieldQuery().x == 1)
        snap = open(db.storage._path, "rb").read() if hasattr(db.storage, "_path") else None
        n2 = db.remove(FieldQuery().x == 1)
        if n2 != 0 or (snap is not None and open(db.storage._path, "rb").read() != snap):
            raise AssertionError("the same remove repeated at once is not a no-op (returned %d, file %s)" % (n2, "changed" if snap is not None and open(db.storage._path, "rb").read() != snap else "unchanged"))
        return [k for k in model if dict(k[3]).get("x") != 1]
    elif op == "rm0":
        db.remove(MeasurementQuery() == "nope")
    elif op == "upd":
        db.update(MeasurementQuery() == "m1", tags={"u": "é"})
        return [(k[0], k[1], tuple(sorted(dict(k[2], u="é").items())), k[3]) if k[1] == "m1" else k for k in model]
    elif op == "upd_mixed":
        # an update whose query matches rows that already carry the new value together with rows that do not: all of them must survive
        tmax = max([k[0] for k in model], default=T0)
        a_ = Point(time=tmax + timedelta(seconds=1), measurement="m1", tags={"k": "mix"}, fields={"x": 7})
        db.insert(copy.deepcopy(a_), compact_key_prefixes=compact)
        db.update(MeasurementQuery() == "m1", tags={"u": "\u00e9"})
        b_ = Point(time=tmax + timedelta(seconds=2), measurement="m1", tags={"k": "mix2"}, fields={"x": 8})
        db.insert(copy.deepcopy(b_), compact_key_prefixes=compact)
        db.update(MeasurementQuery() == "m1", tags={"u": "\u00e9"})
        model = model + [pkey(a_), pkey(b_)]
        return [(k[0], k[1], tuple(sorted(dict(k[2], u="\u00e9").items())), k[3]) if k[1] == "m1" else k for k in model]
    elif op == "upd0":
        db.update(MeasurementQuery() == "nope", tags={"u": "w"})
    elif op == "updsame":
        # matches every point and changes none of them: a no-op write
        db.update_all(unset_tags="zz never there")
    elif op == "updsame_q":
        db.update(MeasurementQuery() == "m1", unset_fields=["zz never there"])
    elif op == "rmall":
        db.remove_all()
        return []
    elif op == "drop":
        db.drop_measurement("m1")
        return [k for k in model if k[1] != "m1"]
    return model


READS = {"get", "contains", "search", "len", "reindex", "getters", "rm0", "upd0", "updsame", "updsame_q"}
CONFIGS = [dict(), dict(flush_on_insert=False), dict(encoding="utf-8"), dict(encoding="utf-16"), dict(encoding="latin-1"), dict(delimiter=";"), dict(quoting=csv.QUOTE_ALL), dict(flush_on_insert=False, encoding="utf-8", delimiter="|")]


def reader_kw(cfg):
    return {k: v for k, v in cfg.items() if k not in ("flush_on_insert", "encoding")}


def c04(tier, seed, F):
    rnd = random.Random(seed)
    n = 0
    d = tempfile.mkdtemp()
    try:
        for ci, cfg in enumerate(CONFIGS):
            for h in range(25 if tier == "quick" else 300):
                path = os.path.join(d, "c04_%d_%d.csv" % (ci, h))
                auto = rnd.random() < 0.5
                compact = rnd.random() < 0.3
                db = TinyFlux(path, auto_index=auto, **cfg)
                model = []
                ops = op_list(rnd, rnd.randint(2, 7))
                done = []
                try:
                    for op in ops:
                        done.append(op)
                        model = apply_op(db, model, op, rnd, compact=compact)
                        n += 1
                        if cfg.get("flush_on_insert", True):
                            got = read_file(path, encoding=cfg.get("encoding"), **reader_kw(cfg))
                            if got != model:
                                F.note("file differs from contents after %s (config %s)" % (op, sorted(cfg)), dict(kind="c04", cfg=_j(cfg), ops=done, seed=seed))
                                raise StopIteration
                    db.close()
                    got = read_file(path, encoding=cfg.get("encoding"), **reader_kw(cfg))
                    if got != model:
                        F.note("file differs from contents after close (config %s; last ops %s)" % (sorted(cfg), [o for o in done if o not in READS][-2:]), dict(kind="c04", cfg=_j(cfg), ops=done))
                    re = TinyFlux(path, auto_index=False, **cfg)
                    if [pkey(p) for p in re.all(sorted=False)] != model:
                        F.note("reopened database differs from contents (config %s)" % sorted(cfg))
                    re.close()
                except StopIteration:
                    pass
                except Exception as ex:
                    F.note("%s raises %s with config %s" % (done[-1], type(ex).__name__, sorted(cfg)))
                finally:
                    try:
                        db.close()
                    except Exception:
                        pass
    finally:
        shutil.rmtree(d, ignore_errors=True)
    return n


def _j(cfg):
    return {k: (v if not isinstance(v, int) or isinstance(v, bool) else int(v)) for k, v in cfg.items()}


def c15(tier, seed, F):
    rnd = random.Random(seed)
    n = 0
    d = tempfile.mkdtemp()
    td = os.path.join(d, "tmp")
    os.mkdir(td)
    old_tmp = tempfile.tempdir
    tempfile.tempdir = td
    try:
        for h in range(60 if tier == "quick" else 600):
            dbdir = os.path.join(d, "db%d" % h)
            os.mkdir(dbdir)
            path = os.path.join(dbdir, "db.csv")
            db = TinyFlux(path, auto_index=rnd.random() < 0.5)
            model = []
            compact = h % 2 == 1  # rows written with the compact key prefixes: a needless rewrite would re-spell them
            ops = op_list(rnd, rnd.randint(2, 7))
            if h < 4:  # always covered: a few inserts, then updates that match points without changing any
                ops = ["ins", "insm", "updsame", "updsame_q", "ooo", "updsame"]
            for op in ops:
                before = open(path, "rb").read()
                tmp_before, dir_before = set(os.listdir(td)), set(os.listdir(dbdir))
                raised = None
                try:
                    model = apply_op(db, model, op, rnd, compact=compact)
                except AssertionError as ex:
                    F.note(str(ex))
                    raised = ex
                except Exception as ex:
                    raised = ex
                n += 1
                after = open(path, "rb").read()
                if op in READS and after != before:
                    F.note("%s changed the database file" % op)
                leaked = (set(os.listdir(td)) - tmp_before) | (set(os.listdir(dbdir)) - dir_before)
                if leaked:
                    F.note("%s left %d temporary file(s) behind" % (op if op in READS else "a rewrite (%s)" % op, len(leaked)))
                    for f_ in leaked:
                        try:
                            os.unlink(os.path.join(td, f_))
                        except OSError:
                            pass
            # an update whose callable raises must not leave files either
            tmp_before = set(os.listdir(td))
            try:
                db.update_all(fields=lambda f: {}["boom"])
            except KeyError:
                pass
            except Exception:
                pass
            if model and set(os.listdir(td)) - tmp_before:
                F.note("a raising update left a temporary file behind")
                for f_ in set(os.listdir(td)) - tmp_before:
                    os.unlink(os.path.join(td, f_))
            db.close()
            # read-only / append-only modes
            content = open(path, "rb").read()
            for mode, writes in (("r", ["ins", "rm", "upd", "rmall", "drop"]), ("a", ["rm", "upd", "rmall", "drop"])):
                for op in writes:
                    ro = TinyFlux(path, access_mode=mode, auto_index=False)
                    try:
                        apply_op(ro, list(model), op, rnd)
                        F.note("%s on a database opened with mode %r did not raise" % (op, mode))
                    except (IOError, AssertionError):
                        pass
                    except Exception as ex:
                        F.note("%s on mode %r raises %s" % (op, mode, type(ex).__name__))
                    finally:
                        ro.close()
                    n += 1
                    if open(path, "rb").read() != content:
                        F.note("a rejected %s on mode %r changed the file" % (op, mode))
                        content = open(path, "rb").read()
    finally:
        tempfile.tempdir = old_tmp
        shutil.rmtree(d, ignore_errors=True)
    return n


def c16(tier, seed, F):
    rnd = random.Random(seed)
    n = 0
    d = tempfile.mkdtemp()
    try:
        per_point = set()
        for h in range(40 if tier == "quick" else 400):
            path = os.path.join(d, "c16_%d.csv" % h)
            log = IOLog(path)
            install(log)
            try:
                auto = rnd.random() < 0.5
                flush = rnd.random() < 0.6  # also without flush_on_insert: rows may sit in the buffer, but what reaches the file is appended
                db = TinyFlux(path, auto_index=auto, flush_on_insert=flush)
                state = dict(model=[])
                for step in range(rnd.randint(1, 25)):
                    try:
                        n += c16_step(db, state, rnd, log, path, flush, per_point, F)
                    except Exception as ex:
                        log.active = False
                        F.note("an operation raises %s: the file no longer decodes as a database" % type(ex).__name__)
                        break
                db.close()
            finally:
                uninstall()
        if len(per_point) > 1:
            F.note("the number of I/O calls per inserted point is not constant: %s" % sorted(per_point))
    finally:
        shutil.rmtree(d, ignore_errors=True)
    return n


def c16_step(db, state, rnd, log, path, flush, per_point, F):
    model = state["model"]
    if rnd.random() < 0.3:
        apply_op(db, model, rnd.choice(["get", "contains", "search"]), rnd)
    if rnd.random() < 0.15:
        model = state["model"] = apply_op(db, model, rnd.choice(["rm", "upd"]), rnd)  # a rewrite in between: the next insert must still append
    before = builtins.open(path, "rb").read()
    log.calls, log.active = [], True
    k = rnd.choice([1, 1, 1, 3])
    ps = [safe_point(rnd) for _ in range(k)]
    if rnd.random() < 0.3:
        ps[0].time = T0 - timedelta(seconds=rnd.randint(1, 9))
    if k == 1:
        db.insert(ps[0])
    else:
        db.insert_multiple(ps)
    log.active = False
    model += [pkey(p) for p in ps]
    after = builtins.open(path, "rb").read()
    if not flush:
        # what is still buffered reaches the file at the next storage read: it must come after the old bytes and decode to the points
        list(iter(db))
        after = builtins.open(path, "rb").read()
        try:
            got = decode_bytes(after)
            if got != model:
                F.note("after an insert without flush_on_insert the file does not decode to the points (%d rows, %d expected)" % (len(got), len(model)))
        except Exception as ex:
            F.note("after an insert without flush_on_insert the file is undecodable (%s)" % type(ex).__name__)
    if not after.startswith(before):
        F.note("insert rewrote existing bytes of the file")
    reads = [c for c in log.calls if c[0] in ("read", "readline")]
    if reads:
        F.note("insert read existing data (%d read calls)" % len(reads))
    if flush:
        per_point.add(len(log.calls) / k)
    return 1


WRITES = ["ins", "insm", "rm", "upd", "rmall", "drop"]


def c12(tier, seed, F):
    rnd = random.Random(seed)
    n = 0
    d = tempfile.mkdtemp()
    # every fourth history keeps the database on another file system than the temporary files (when the machine has one)
    d2 = other_filesystem_dir(tempfile.gettempdir())
    try:
        for h in range(60 if tier == "quick" else 500):
            path = os.path.join(d2 if (d2 and h % 4 == 3) else d, "c12_%d.csv" % h)
            log = IOLog(path)
            install(log)
            try:
                db = TinyFlux(path, auto_index=rnd.random() < 0.5)
                model = []
                for _ in range(rnd.randint(1, 4)):
                    model = apply_op(db, model, "ins", rnd)
                for op in [rnd.choice(WRITES) for _ in range(2)]:
                    old = list(model)
                    log.calls, log.snapshots, log.record_snapshots, log.active = [], [], True, True
                    try:
                        model = apply_op(db, model, op, rnd)
                    except Exception as ex:
                        log.active = False
                        F.note("%s raises %s although no I/O call failed" % (op, type(ex).__name__), dict(kind="c12", op=op))
                        break
                    log.active = False
                    for k, snap in enumerate(log.snapshots):
                        n += 1
                        try:
                            got = decode_bytes(snap)
                        except Exception as ex:
                            F.note("crash at %s during %s leaves an undecodable file (%s)" % (log.calls[k][0], op, type(ex).__name__), dict(kind="c12", op=op, boundary=k))
                            continue
                        ok = got == old or got == model or (op in ("ins", "insm") and got[: len(old)] == old and got == model[: len(got)])
                        if not ok:
                            F.note("crash at boundary %s during %s leaves neither the old nor the new contents (%d rows; old %d, new %d)" % (log.calls[k][0], op, len(got), len(old), len(model)), dict(kind="c12", op=op, boundary=k))
                db.close()
            finally:
                uninstall()
        # a subset re-validated by really killing a child process
        for op in ("upd", "rm"):
            for b in ("copy-mid", "copy-open"):
                path = os.path.join(d, "kill_%s_%s.csv" % (op, b))
                p = subprocess.run([sys.executable, os.path.abspath(__file__), "--mode", "c12-child", "--file", path, "--op", op, "--boundary", b], capture_output=True, text=True)
                n += 1
                try:
                    info = json.loads(p.stdout.strip().splitlines()[-1])
                    got = read_file(path)
                    old, new = [tuple_k(x) for x in info["old"]], [tuple_k(x) for x in info["new"]]
                    if [list_k(g) for g in got] not in ([list_k(o) for o in old], [list_k(o) for o in new]):
                        F.note("really killing the process at %s during %s leaves neither the old nor the new contents (%d rows; old %d, new %d)" % (b, op, len(got), len(old), len(new)))
                except Exception as ex:
                    F.note("really killing the process at %s during %s leaves an unreadable file (%s)" % (b, op, type(ex).__name__))
    finally:
        shutil.rmtree(d, ignore_errors=True)
        if d2:
            shutil.rmtree(d2, ignore_errors=True)
    return n


def tuple_k(x):
    return x


def list_k(k):
    return json.loads(json.dumps(k, default=str))


def c12_child(path, op, boundary):
    rnd = random.Random(1)
    log = IOLog(path)
    install(log)
    db = TinyFlux(path)
    model = []
    for _ in range(4):
        model = apply_op(db, model, "ins", rnd)
    model = apply_op(db, model, "insm", rnd)
    old = list(model)

    class Kill(ShutilProxy):
        pass
    orig = log.boundary

    def b2(name, target=""):
        orig(name, target)
        if name == boundary:
            sys.stdout.flush()
            os._exit(0)
    # compute new contents first on a copy of the model
    new = [k for k in model if k[1] != "m0"] if op == "rm" else [(k[0], k[1], tuple(sorted(dict(k[2], u="é").items())), k[3]) if k[1] == "m1" else k for k in model]
    print(json.dumps(dict(old=[list_k(k) for k in old], new=[list_k(k) for k in new])))
    sys.stdout.flush()
    log.active = True
    log.boundary = b2
    apply_op(db, model, op, rnd)
    os._exit(0)


def c13(tier, seed, F):
    rnd = random.Random(seed)
    n = 0
    d = tempfile.mkdtemp()
    try:
        for h in range(40 if tier == "quick" else 400):
            base = os.path.join(d, "c13_%d" % h)
            seedh = rnd.randint(0, 10**9)
            op = rnd.choice(WRITES + C13_READS)
            # dry run to learn the number of I/O calls of the operation
            ncalls = run_c13(base + "_dry.csv", seedh, op, None, F)
            if ncalls is None:
                continue
            for k in range(ncalls):
                for when in ("before", "after"):
                    n += 1
                    run_c13(base + "_%d_%s.csv" % (k, when), seedh, op, (k, when), F)
    finally:
        shutil.rmtree(d, ignore_errors=True)
    return n


def run_c13(path, seedh, op, fail_at, F):
    rnd = random.Random(seedh)
    log = IOLog(path)
    install(log)
    try:
        db = TinyFlux(path, auto_index=rnd.random() < 0.5)
        model = c13_prelude(db, rnd)
        old = list(model)
        log.calls, log.active, log.fail_at = [], True, fail_at
        err = None
        try:
            new = apply_op(db, model, op, rnd)
        except OSError as ex:
            err = ex
            new = None
        except Exception as ex:
            err = ex
            new = None
        log.active = False
        if fail_at is None:
            return len(log.calls)
        name = log.calls[fail_at[0]][0] if fail_at[0] < len(log.calls) else "?"
        if log.fail_at is not None:
            return None  # the call index was not reached (after-only kinds)
        where = "%s of %s (%s)" % (name, op, fail_at[1])
        rnd2 = random.Random(seedh)
        if err is None:
            F.note("an injected OSError at %s did not reach the caller" % where, dict(kind="c13", seed=seedh, op=op, fail_at=list(fail_at)))
        # recompute the would-be new contents
        try:
            got = read_file(path)
        except Exception as ex:
            F.note("after an I/O error at %s the file is undecodable (%s)" % (where, type(ex).__name__), dict(kind="c13", seed=seedh, op=op, fail_at=list(fail_at)))
            got = None
        # answers that a valid index gives without reading storage: each must agree with the file as it is now, or raise
        if got is not None:
            for what, fn, exp in (("len(db)", lambda: len(db), len(got)),
                                  ("count(all)", lambda: db.count(MeasurementQuery() != "\0"), len(got)),
                                  ("get_measurements()", lambda: db.get_measurements(), sorted({g[1] for g in got}))):
                try:
                    ans = fn()
                    now = read_file(path)  # (a read may first write out rows that were still buffered: compare with the file as it is after the call)
                except Exception:
                    continue  # failing with an error is allowed
                exp = len(now) if isinstance(exp, int) else sorted({g[1] for g in now})
                if ans != exp:
                    F.note("after an I/O error at %s the live database silently answers %s = %r while its file holds %r" % (where, what, ans, exp), dict(kind="c13", seed=seedh, op=op, fail_at=list(fail_at)))
                    break
        # the live object: answers must be consistent with its own storage, or raise
        try:
            live = [pkey(p) for p in db.all(sorted=False)]
            cnt = db.count(TagQuery().noop()) if False else len(db.search(MeasurementQuery() != "\0", sorted=False))
            if cnt != len(live):
                F.note("after an I/O error at %s the live database answers inconsistently (search %d vs all %d)" % (where, cnt, len(live)), dict(kind="c13", seed=seedh, op=op, fail_at=list(fail_at)))
            # a further insert and a reopen must agree
            p = safe_point(random.Random(5))
            db.insert(copy.deepcopy(p))
            live2 = [pkey(x) for x in db.all(sorted=False)]
            c2 = db.count(MeasurementQuery() != "\0")
            if c2 != len(live2):
                F.note("after an I/O error at %s and one more insert, count (%d) disagrees with the stored points (%d)" % (where, c2, len(live2)), dict(kind="c13", seed=seedh, op=op, fail_at=list(fail_at)))
            db.close()
            re = [pkey(x) for x in TinyFlux(path, auto_index=False).all(sorted=False)]
            if re != live2:
                F.note("after an I/O error at %s the reopened file (%d rows) differs from what the live object reported (%d rows)" % (where, len(re), len(live2)), dict(kind="c13", seed=seedh, op=op, fail_at=list(fail_at)))
        except Exception:
            pass  # failing with an error is allowed
        if got is not None and new is None and op not in C13_READS:
            # file must decode to old or to the contents the operation would have produced
            full = expected_new(old, op, seedh)
            if got != old and got != full and not (op in ("ins", "insm") and got[: len(old)] == old and got == full[: len(got)]):
                F.note("after an I/O error at %s the file holds neither the old nor the new contents (%d rows; old %d)" % (where, len(got), len(old)), dict(kind="c13", seed=seedh, op=op, fail_at=list(fail_at)))
        return len(log.calls)
    finally:
        uninstall()


def expected_new(old, op, seedh):
    """contents the operation would have produced: re-run it on a memory database with the same random stream"""
    from tinyflux.storages import MemoryStorage
    rnd = random.Random(seedh)
    db = TinyFlux(storage=MemoryStorage, auto_index=rnd.random() < 0.5)
    model = c13_prelude(db, rnd)
    return apply_op(db, model, op, rnd)


C13_READS = ["search", "get", "contains", "len"]


def c13_prelude(db, rnd):
    """a few inserts; sometimes the last one is out of time order, so that the operation under test starts with an invalid index (and has to read storage to rebuild it)"""
    model = []
    for _ in range(rnd.randint(1, 4)):
        model = apply_op(db, model, "ins", rnd)
    if rnd.random() < 0.4:
        model = apply_op(db, model, "ooo", rnd)
    return model


RUN = dict(C04=c04, C05=c05, C08=c08, C12=c12, C13=c13, C15=c15, C16=c16)


def main():
    ap = argparse.ArgumentParser()
    ap.add_argument("--mode"); ap.add_argument("--tier", default="quick"); ap.add_argument("--seed", default="0"); ap.add_argument("--prop", default="C04")
    ap.add_argument("--file"); ap.add_argument("--op"); ap.add_argument("--boundary")
    a = ap.parse_args()
    if a.mode == "c08-inner":
        F = Fails("C08")
        n = c08_inner(F, int(a.seed))
        print(json.dumps(dict(n=n, failures=F.items)))
        return
    if a.mode == "c12-child":
        c12_child(a.file, a.op, a.boundary)
        return
    if a.mode == "replay":
        rep = json.load(sys.stdin)
        f = rep.get("standin_failure") or {}
        F = Fails(f.get("prop", a.prop))
        RUN[F.prop]("quick", int(f.get("seed", a.seed)), F)
        same = [x for x in F.items if x["what"] == f.get("what")]
        print(json.dumps(dict(reproduced=bool(same), detail=same[:2])))
        return
    F = Fails(a.prop)
    t0 = time.time()
    n = RUN[a.prop](a.tier, int(a.seed), F)
    seen, out, classes = set(), [], {}
    for f in F.items:
        classes[f["what"]] = classes.get(f["what"], 0) + 1
        if f["what"] not in seen:
            seen.add(f["what"])
            f["seed"] = int(a.seed)
            out.append(f)
    print(json.dumps(dict(evaluations=n, distinct_nontrivial=n, bound=RUN[a.prop].__doc__ or "see standins/csvio.py: %s" % a.prop,
                          rule="seeded histories / exhaustive case lists of standins/csvio.py for %s on a real CSV-backed TinyFlux, compared with an independent decoder and reference model" % a.prop,
                          samples=[dict(prop=a.prop, evaluations=n)], failures=out[:80], failure_classes=classes, seconds=round(time.time() - t0, 1))))


if __name__ == "__main__":
    # every temporary file the library creates (NamedTemporaryFile of a rewrite) goes into one scratch directory that is removed afterwards:
    # injected faults at the removal of such a file leave it behind on purpose
    _base = tempfile.mkdtemp(prefix="csvio-tmp-")
    tempfile.tempdir = _base
    os.environ["TMPDIR"] = _base  # child processes (the really-killed ones of C12) put their scratch under it too
    try:
        main()
    finally:
        tempfile.tempdir = None
        shutil.rmtree(_base, ignore_errors=True)
