"""Bounded stand-in / replay oracle for C14: every API entry point that accepts point data x every
slot x a battery of wrongly-typed values, static and via callables; afterwards every stored value is
type-checked.  Run on the real code under /venv/bin/python."""
import argparse, itertools, json, sys, copy
from datetime import datetime, timezone, timedelta
from tinyflux import TinyFlux, Point, TagQuery
from tinyflux.storages import MemoryStorage

T0 = datetime(2020, 1, 1, tzinfo=timezone.utc)
BAD = {"int": 5, "float": 2.5, "bool": True, "bytes": b"x", "None": None, "list": [1], "dict": {"a": 1}, "str": "s", "dt": T0}
SLOTS = {
    "time": lambda v: dict(time=v), "measurement": lambda v: dict(measurement=v), "tags": lambda v: dict(tags=v), "fields": lambda v: dict(fields=v),
    "tag_key": lambda v: dict(tags={v: "x"}), "tag_value": lambda v: dict(tags={"k": v}), "field_key": lambda v: dict(fields={v: 1}), "field_value": lambda v: dict(fields={"k": v}),
}
VALID = {"time": {"dt"}, "measurement": {"str"}, "tags": {"dict?"}, "fields": {"dict?"}, "tag_key": {"str"}, "tag_value": {"str", "None"}, "field_key": {"str"}, "field_value": {"int", "float", "None"}}


def hashable(v):
    try:
        hash(v); return True
    except TypeError:
        return False


def stored_ok(p):
    return isinstance(p.time, datetime) and isinstance(p.measurement, str) and isinstance(p.tags, dict) and isinstance(p.fields, dict) \
        and all(isinstance(k, str) and (v is None or isinstance(v, str)) for k, v in p.tags.items()) \
        and all(isinstance(k, str) and (v is None or (isinstance(v, (int, float)) and not isinstance(v, bool))) for k, v in p.fields.items())


def main():
    ap = argparse.ArgumentParser(); ap.add_argument("--mode"); ap.add_argument("--tier", default="quick"); ap.add_argument("--seed", default="0"); ap.add_argument("--prop", default="C14")
    a = ap.parse_args()
    fails, n = [], 0

    def note(what):
        if what not in [f["what"] for f in fails]:
            fails.append(dict(what=what))

    def valid(slot, name):
        if slot in ("tags", "fields"):
            return False if name != "dict" else None  # the dict {"a": 1} is valid for fields, invalid for tags
        return name in VALID[slot]

    cases = [(slot, name, v) for slot in SLOTS for name, v in BAD.items() if not (slot.endswith("_key") and not hashable(v))]
    for slot, name, v in cases:
        ok = valid(slot, name)
        if slot == "tags" and name == "dict": ok = False
        if slot == "fields" and name == "dict": ok = True
        kw = SLOTS[slot](v)
        # 1. construction
        n += 1
        try:
            Point(**kw); raised = False
        except (ValueError, TypeError):
            raised = True
        if raised == ok:
            note("Point(%s=<%s>) %s" % (slot, name, "was rejected" if raised else "was accepted"))
        # 2. attribute assignment (whole-attribute slots)
        if slot in ("time", "measurement", "tags", "fields") or True:
            n += 1
            p = Point(time=T0)
            attr, val = next(iter(kw.items()))
            try:
                setattr(p, attr, val); raised = False
            except (ValueError, TypeError):
                raised = True
            if raised == ok:
                note("point.%s = <%s in slot %s> %s" % (attr, name, slot, "was rejected" if raised else "was accepted"))
        # 3. update / update_all, static and via callable, then inspect what is stored
        for via in ("static", "callable"):
            for auto in (True, False):
                n += 1
                db = TinyFlux(storage=MemoryStorage, auto_index=auto)
                db.insert(Point(time=T0, tags={"k": "v"}, fields={"k": 1}))
                attr, val = next(iter(kw.items()))
                arg = val if via == "static" else (lambda _old, val=val: val)
                try:
                    db.update_all(**{attr: arg}); raised = False
                except (ValueError, TypeError):
                    raised = True
                except Exception as e:
                    raised = True
                    note("update_all(%s=<%s, %s>) raises %s" % (attr, name, via, type(e).__name__))
                bad = [q for q in db.all() if not stored_ok(q)]
                if bad:
                    note("update_all(%s=<%s in slot %s>, %s) stored an invalid value" % (attr, name, slot, via))
                elif ok is False and not raised and not (via == "static" and not val):
                    # falsy static arguments mean "no update"
                    if not (via == "callable" and False):
                        note("update_all(%s=<%s in slot %s>, %s) was accepted" % (attr, name, slot, via))
        # 4. insert of a non-Point
    db = TinyFlux(storage=MemoryStorage)
    for name, v in BAD.items():
        n += 1
        try:
            db.insert(v); note("insert(<%s>) was accepted" % name)
        except TypeError:
            pass
        except Exception as e:
            note("insert(<%s>) raises %s" % (name, type(e).__name__))
    if a.mode == "replay":
        rep = json.load(sys.stdin)
        f = rep.get("standin_failure") or {}
        print(json.dumps(dict(reproduced=any(x["what"] == f.get("what") for x in fails), detail=fails[:3])))
        return
    print(json.dumps(dict(evaluations=n, distinct_nontrivial=n, bound="8 slots x 9 wrongly/rightly typed values x {construction, assignment, update_all static/callable x auto_index} + insert of non-Points",
                          rule="each case must be rejected with ValueError/TypeError iff the value is invalid for the slot, and no invalid value may be found in db.all() afterwards",
                          samples=[dict(slot=cases[0][0], value=cases[0][1])], failures=fails)))


main()
