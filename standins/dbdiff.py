"""Bounded stand-in and replay oracle for the database-level properties
(C01 C02 C03 C06 C07 C10 C11), run on the real code under /venv/bin/python.

An executable reference model (a list of points + the spec functions of
DESIGN.md 3) is driven in lock step with a real TinyFlux through histories
over a small alphabet; after every step every read, getter and the index
itself (against a freshly built one) are compared.

bounded : all histories of depth <= D over the alphabet (exhaustive for the
          leading configurations), plus seeded random longer histories.
replay  : re-runs one recorded history (JSON on stdin).
Prints one JSON line.
"""
import argparse, copy, itertools, json, multiprocessing, os, random, shutil, sys, tempfile, io, contextlib
from datetime import datetime, timezone, timedelta

from tinyflux import TinyFlux, Point, TagQuery, FieldQuery, MeasurementQuery, TimeQuery
from tinyflux.storages import MemoryStorage
from tinyflux.index import Index

U = timezone.utc
T0 = datetime(2020, 1, 1, tzinfo=U)

# ------------------------------------------------------------------ alphabet
POINTS = {
    "p0": dict(s=0, m="m0", tags={"a": "x"}, fields={"p": 1}),
    "p1": dict(s=1, m="m1", tags={"a": "y", "b": None}, fields={"p": 0, "q": 2.5}),
    "p1b": dict(s=1, m="m0", tags={}, fields={"q": None}),
    "p2": dict(s=2, m="m0", tags={"b": ""}, fields={}),
    "p3": dict(s=3, m="_default", tags={"a": "x", "b": "x"}, fields={"p": -1}),
    "pe": dict(s=0, m="m1", tags={"a": None}, fields={"p": 1, "q": 0}),  # earlier than most: out of order
    "pn": dict(s=4, m="m0", tags={"a": "l1\nl2\r\nl3\rl4", "b": "q,\"r"}, fields={"p": 3}),  # LF, CRLF and CR line breaks, delimiter and quote inside values
}


def mkpoint(name):
    d = POINTS[name]
    return Point(time=T0 + timedelta(seconds=d["s"]), measurement=d["m"], tags=dict(d["tags"]), fields=dict(d["fields"]))


def _tag(k, f):
    return lambda p: k in p.tags and f(p.tags[k])


def _fld(k, f):
    return lambda p: k in p.fields and f(p.fields[k])


def _notnone(f):
    return lambda v: v is not None and f(v)


ATOMS = {
    "Ta==x": (lambda: TagQuery().a == "x", _tag("a", lambda v: v == "x")),
    "Ta!=x": (lambda: TagQuery().a != "x", _tag("a", lambda v: v != "x")),
    "Tb<y": (lambda: TagQuery().b < "y", _tag("b", _notnone(lambda v: v < "y"))),
    "Tb.exists": (lambda: TagQuery().b.exists(), lambda p: "b" in p.tags),
    "Ta.search": (lambda: TagQuery().a.search("x"), _tag("a", lambda v: isinstance(v, str) and "x" in v)),
    "Fp>0": (lambda: FieldQuery().p > 0, _fld("p", _notnone(lambda v: v > 0))),
    "Fp==1": (lambda: FieldQuery().p == 1, _fld("p", lambda v: v == 1)),
    "Fq!=2.5": (lambda: FieldQuery().q != 2.5, _fld("q", lambda v: v != 2.5)),
    "Fq.exists": (lambda: FieldQuery().q.exists(), lambda p: "q" in p.fields),
    "Fp.map": (lambda: FieldQuery().p.map(lambda v: v + 1) == 2, _fld("p", _notnone(lambda v: v + 1 == 2))),
    "Fp.test": (lambda: FieldQuery().p.test(lambda v: v is not None and v <= 0), _fld("p", _notnone(lambda v: v <= 0))),
    "M==m0": (lambda: MeasurementQuery() == "m0", lambda p: p.measurement == "m0"),
    "M!=m0": (lambda: MeasurementQuery() != "m0", lambda p: p.measurement != "m0"),
    "M.test": (lambda: MeasurementQuery().test(lambda v: v.startswith("m")), lambda p: p.measurement.startswith("m")),
    "M.map": (lambda: MeasurementQuery().map(lambda v: v[1]) == "1", lambda p: len(p.measurement) > 1 and p.measurement[1] == "1"),
    "t<1": (lambda: TimeQuery() < T0 + timedelta(seconds=1), lambda p: p.time < T0 + timedelta(seconds=1)),
    "t<=1": (lambda: TimeQuery() <= T0 + timedelta(seconds=1), lambda p: p.time <= T0 + timedelta(seconds=1)),
    "t>1": (lambda: TimeQuery() > T0 + timedelta(seconds=1), lambda p: p.time > T0 + timedelta(seconds=1)),
    "t>=2": (lambda: TimeQuery() >= T0 + timedelta(seconds=2), lambda p: p.time >= T0 + timedelta(seconds=2)),
    "t==1": (lambda: TimeQuery() == T0 + timedelta(seconds=1), lambda p: p.time == T0 + timedelta(seconds=1)),
    "t!=1": (lambda: TimeQuery() != T0 + timedelta(seconds=1), lambda p: p.time != T0 + timedelta(seconds=1)),
    "t.test": (lambda: TimeQuery().test(lambda t: t.second == 1), lambda p: p.time.second == 1),
    "T.noop": (lambda: TagQuery().noop(), lambda p: True),
    "F.noop": (lambda: FieldQuery().noop(), lambda p: True),
    "T.map": (lambda: TagQuery().map(len).test(lambda n: n == 1), lambda p: len(p.tags) == 1),
    # a key taken AFTER a map step whose function needs the whole tag set: only a scan of the points can answer it
    "T.mapkey": (lambda: TagQuery().map(_rekey).z == "xx", lambda p: ((p.tags.get("a") or "") + (p.tags.get("b") or "")) == "xx"),
}


def _rekey(tags):
    return {"z": (tags.get("a") or "") + (tags.get("b") or "")}


def parse_query(expr):
    """expr: atom name | ["~", e] | ["&", e1, e2] | ["|", e1, e2] -> (query, oracle)"""
    if isinstance(expr, str):
        mk, sem = ATOMS[expr]
        return mk(), sem
    if expr[0] == "~":
        q, s = parse_query(expr[1])
        return ~q, (lambda p: not s(p))
    q1, s1 = parse_query(expr[1])
    q2, s2 = parse_query(expr[2])
    if expr[0] == "&":
        return q1 & q2, (lambda p: s1(p) and s2(p))
    return q1 | q2, (lambda p: s1(p) or s2(p))


class Boom(Exception):
    pass


def _raise_on_second():
    state = {"n": 0}

    def f(fields):
        state["n"] += 1
        if state["n"] >= 2:
            raise Boom("callable fails on the second point")
        return {"z": 9}

    return f


# update alphabets: name -> (kwargs factory, model mutation)
UPDATES = {
    "tags_static": (lambda: dict(tags={"a": "y", "c": None}), lambda p: p.tags.update({"a": "y", "c": None})),
    "fields_callable": (lambda: dict(fields=lambda f: {"p": (f.get("p") or 0) + 1}), lambda p: p.fields.update({"p": (p.fields.get("p") or 0) + 1})),
    # a callable that edits the mapping it is handed and returns it: the library must have handed it a private copy
    "tags_callable_mutating": (lambda: dict(tags=lambda t: (t.__setitem__("chk", "yes"), t)[1]), lambda p: p.tags.update({"chk": "yes"})),
    "fields_callable_popping": (lambda: dict(fields=lambda f: (f.pop("p", None), {})[1]), lambda p: None),
    "time_callable": (lambda: dict(time=lambda t: t + timedelta(seconds=2)), lambda p: setattr(p, "time", p.time + timedelta(seconds=2))),
    "meas_static": (lambda: dict(measurement="m1"), lambda p: setattr(p, "measurement", "m1")),
    "unset_and_set": (lambda: dict(unset_tags="a", tags={"a": "q", "d": "w"}, unset_fields=["p", "nope"]),
                      lambda p: (p.tags.update({"a": "q", "d": "w"}), p.tags.pop("a", None), p.fields.pop("p", None))),
    "noop_same": (lambda: dict(measurement=lambda m: m), lambda p: None),
    "unset_field_p": (lambda: dict(unset_fields="p"), lambda p: p.fields.pop("p", None)),
    "unset_tag_a": (lambda: dict(unset_tags=["a", "zz"]), lambda p: p.tags.pop("a", None)),
}
def _raise_always(_):
    raise KeyError("callable fails")


BAD_UPDATES = {
    "raises_second": lambda: dict(fields=_raise_on_second()),
    "raises_first": lambda: dict(tags=_raise_always),
    "bad_static_tags": lambda: dict(tags={"a": 1}),
    "bad_time": lambda: dict(time="yesterday"),
    "nothing": lambda: dict(),
    "callable_bad_tags": lambda: dict(tags=lambda t: {"z": 1}),
    "callable_bad_fields": lambda: dict(fields=lambda f: {"z": "s"}),
    "callable_bad_time": lambda: dict(time=lambda t: 5),
    "callable_bad_meas": lambda: dict(measurement=lambda m: 7),
}


def pkey(p):
    return (p.time, p.measurement, tuple(sorted((k, (v is None, v or "")) for k, v in p.tags.items())),
            tuple(sorted((k, (v is None, v or 0)) for k, v in p.fields.items())))


def sel(m, sem):
    return lambda p: (not m or p.measurement == m) and sem(p)


def fspec(m):
    """Documented measurement filter: None means no filter."""
    return lambda p: m is None or p.measurement == m


# ------------------------------------------------------------------ the run
class Run:
    def __init__(self, cfg, workdir):
        self.cfg = cfg
        self.dir = workdir
        self.model = []
        self.fail = []
        self.hist = []
        self.nchecks = 0
        self.stop = False
        self.extra_props = []
        self.db = self.open()
        self.old_handles = {m: self.db.measurement(m) for m in ("m0", "m1", "zz")}  # kept across every later operation (resets, reindex)

    def open(self):
        st, auto = self.cfg
        if st == "mem":
            return TinyFlux(storage=MemoryStorage, auto_index=auto)
        return TinyFlux(os.path.join(self.dir, "db.csv"), auto_index=auto)

    def note(self, props, what, detail=None, plain=False):
        props = sorted(set(props) | (set() if plain else set(self.extra_props)))
        if len(self.fail) < 400:
            what = "%s @%s/%s" % (what, self.cfg[0], "auto" if self.cfg[1] else "noauto")
            self.fail.append(dict(props=props, what=what, detail=repr(detail)[:300], cfg=list(self.cfg), history=copy.deepcopy(self.hist)))

    # ---- one step ---------------------------------------------------------
    def step(self, op):
        self.hist.append(op)
        db, model = self.db, self.model
        kind = op[0]
        try:
            if kind == "ins":
                p = mkpoint(op[1])
                was_valid, prev_max = db.index.valid, max([q.time for q in model], default=None)
                r = db.insert(p)
                model.append(copy.deepcopy(p))
                if r != 1:
                    self.note(["C01"], "insert returns %r" % r)
                if db._auto_index and was_valid and (prev_max is None or p.time >= prev_max) and not db.index.valid:
                    self.note(["C06"], "in-order insert invalidated the index")
                if db._auto_index and not db.index.valid:
                    # C06 "any read leaves the index valid": right after an out-of-order insert, before any other read
                    for what, fn in (("len(db)", lambda: len(db)), ("iter(db)", lambda: list(iter(db))), ("len(db.measurement('m0'))", lambda: len(db.measurement("m0")))):
                        fn()
                        if not db.index.valid:
                            self.note(["C06"], "auto_index on, but the index is still invalid after the read %s" % what, plain=True)
                            break
            elif kind == "insm":
                pts = [mkpoint(n) if n != "BAD" else 5 for n in op[1]]
                good = []
                for x in pts:
                    if not isinstance(x, Point):
                        break
                    good.append(x)
                try:
                    r = db.insert_multiple(pts, *( [op[2]] if len(op) > 2 else []))
                    raised = False
                except TypeError:
                    raised = True
                for x in good:
                    x = copy.deepcopy(x)
                    if len(op) > 2 and op[2]:
                        x.measurement = op[2]
                    model.append(x)
                if raised != (len(good) != len(pts)):
                    self.note(["C11", "C14"], "insert_multiple with a non-Point: raised=%s" % raised)
                if raised:
                    self.after_raise("insert_multiple")
            elif kind == "insgen":
                # insert_multiple fed by a generator that raises after some points (C11: what was inserted stays, everything still agrees)
                names = op[1]

                def gen():
                    for n_ in names:
                        if n_ == "RAISE":
                            raise Boom("the iterable fails")
                        yield mkpoint(n_)
                try:
                    db.insert_multiple(gen())
                    raised = False
                except Boom:
                    raised = True
                for n_ in names:
                    if n_ == "RAISE":
                        break
                    model.append(mkpoint(n_))
                if raised != ("RAISE" in names):
                    self.note(["C11"], "insert_multiple from a raising generator: raised=%s" % raised)
                if raised:
                    self.after_raise("insert_multiple(generator)")
            elif kind == "rm":
                q, sem = parse_query(op[1])
                m = op[2]
                s = sel(m, sem) if (m is None or m) else (lambda p: p.measurement == m and sem(p))
                exp = [p for p in model if s(p)]
                before = [pkey(p) for p in model]
                r = db.remove(q, m) if len(op) < 4 else db.measurement(m).remove(q)
                self.model = model = [p for p in model if not s(p)]
                if r != len(exp):
                    self.note(["C02"] + (["C10"] if len(op) > 3 else []), "remove[%s,%s] returned %s, %d selected" % (json.dumps(op[1]), m, r, len(exp)))
            elif kind == "drop":
                m = op[1]
                exp = sum(1 for p in model if p.measurement == m)
                r = db.drop_measurement(m) if len(op) < 3 else db.measurement(m).remove_all()
                self.model = model = [p for p in model if p.measurement != m]
                if r != exp:
                    self.note(["C02", "C10"], "drop_measurement(%s) returned %s, expected %d" % (m, r, exp))
            elif kind == "rmall":
                db.remove_all()
                self.model = model = []
            elif kind == "upd":
                q, sem = parse_query(op[1])
                m = op[2]
                kw, mut = UPDATES[op[3]]
                s = sel(m, sem)
                before = [pkey(p) for p in model]
                for p in model:
                    if s(p):
                        mut(p)
                exp = sum(1 for b, p in zip(before, model) if b != pkey(p))
                if len(op) > 4:
                    r = db.measurement(m).update(q, **kw())
                else:
                    r = db.update(q, _measurement=m, **kw())
                if r != exp:
                    self.note(["C03"] + (["C10"] if len(op) > 4 else []), "update[%s,%s,%s] returned %s, %d changed" % (json.dumps(op[1]), m, op[3], r, exp))
            elif kind == "hupdall":
                m = op[1]
                kw, mut = UPDATES[op[2]]
                before = [pkey(p) for p in model]
                for p in model:
                    if p.measurement == m:
                        mut(p)
                exp = sum(1 for b, p in zip(before, model) if b != pkey(p))
                r = db.measurement(m).update_all(**kw())
                if r != exp:
                    self.note(["C03", "C10"], "Measurement(%s).update_all[%s] returned %s, %d changed" % (m, op[2], r, exp))
            elif kind == "updall":
                kw, mut = UPDATES[op[1]]
                before = [pkey(p) for p in model]
                for p in model:
                    mut(p)
                exp = sum(1 for b, p in zip(before, model) if b != pkey(p))
                r = db.update_all(**kw())
                if r != exp:
                    self.note(["C03"], "update_all[%s] returned %s, %d changed" % (op[1], r, exp))
            elif kind == "badupd":
                kw = BAD_UPDATES[op[1]]()
                if op[2] == "all":
                    nsel = len(model)
                else:
                    q, sem = parse_query(op[2])
                    nsel = sum(1 for p in model if sem(p))
                # static arguments are rejected up front; callables only when they run
                must_raise = not (op[1].startswith("callable_") or op[1].startswith("raises_")) or nsel >= (2 if op[1] == "raises_second" else 1)
                try:
                    if op[2] == "all":
                        db.update_all(**kw)
                    else:
                        db.update(q, **kw)
                    raised = False
                except (ValueError, TypeError, Boom, KeyError):
                    raised = True
                if raised != must_raise:
                    self.note(["C11", "C14"], "bad update %s: raised=%s, expected %s" % (op[1], raised, must_raise))
                if raised:
                    self.after_raise("update(%s)" % op[1])
                elif op[1] == "raises_second":
                    for p in model[:1] if op[2] == "all" else [p for p in model if sem(p)][:1]:
                        p.fields.update({"z": 9})
            elif kind == "badread":
                try:
                    db.select(op[1], TagQuery().noop())
                    self.note(["C01"], "select with malformed key %r did not raise" % (op[1],))
                except ValueError:
                    pass
                except Exception as e:
                    self.note(["C01"], "select with malformed key %r raises %s" % (op[1], type(e).__name__))
            elif kind == "reindex":
                with contextlib.redirect_stdout(io.StringIO()):
                    db.reindex()
            elif kind == "reopen":
                if self.cfg[0] == "csv":
                    db.close()
                    self.db = db = self.open()
                    self.old_handles = {m: db.measurement(m) for m in ("m0", "m1", "zz")}
            elif kind == "len":
                len(db)
            else:
                raise KeyError(kind)
        except Exception as e:
            self.note(["C01", "C02", "C03", "C11"], "%s raises %s" % (kind, type(e).__name__), str(e))
            return False
        if self.stop:
            return False
        # C11: after an operation that raised, every later disagreement is also a C11 (and C06) matter
        if kind in ("badupd", "badread", "insgen") or (kind == "insm" and "BAD" in op[1]):
            self.extra_props = ["C11", "C06"]
        self.compare_all()
        return True

    def after_raise(self, what):
        # C11: contents as before (the model was not advanced), index agrees, still usable
        got = [pkey(p) for p in self.db.all(sorted=False)]
        if got != [pkey(p) for p in self.model]:
            self.note(["C11"], "contents changed by a raising %s" % what, plain=True)
            self.stop = True  # later symptoms of the same history would only repeat this one

    # ---- observations -----------------------------------------------------
    def check_index(self):
        db = self.db
        if db._auto_index and not db.index.valid:
            self.note(["C06"], "auto_index on, but the index is invalid after read operations")
        if db.index.valid:
            fresh = Index()
            fresh.build(db.all(sorted=False))
            ix = db.index
            for a in ("_num_items", "_tags", "_fields", "_measurements", "_timestamps", "_storage_pos_sorted_by_ts"):
                if getattr(ix, a) != getattr(fresh, a):
                    self.note(["C06"], "valid index differs from a rebuilt one in %s" % a, (getattr(ix, a), getattr(fresh, a)))
                    break

    def compare_all(self):
        db, model = self.db, self.model
        self.nchecks += 1
        if db.index.valid:
            self.check_index()
        # contents
        try:
            allp = db.all(sorted=False)
        except Exception as e:
            self.note(["C01", "C07"], "all() raises %s" % type(e).__name__, str(e))
            return
        if [pkey(p) for p in allp] != [pkey(p) for p in model]:
            last = self.hist[-1][0]
            props = {"rm": ["C02"], "drop": ["C02"], "rmall": ["C02"], "upd": ["C03"], "updall": ["C03"], "hupdall": ["C03", "C10"], "badupd": ["C11"], "insm": ["C11"], "insgen": ["C11"]}.get(last, ["C01", "C07"])
            self.note(props, "contents differ after %s" % last, ([pkey(p) for p in allp][:3], [pkey(p) for p in model][:3]))
            # resynchronise so that later comparisons are meaningful
            self.model = model = [copy.deepcopy(p) for p in allp]
        if [pkey(p) for p in db.all()] != [pkey(p) for p in sorted(model, key=lambda p: p.time)]:
            self.note(["C01", "C07"], "all(sorted=True) is not the stable time sort")
        for p in allp:
            ok = isinstance(p.time, datetime) and p.time.tzinfo is not None and isinstance(p.measurement, str) \
                and all(isinstance(k, str) and (v is None or isinstance(v, str)) for k, v in p.tags.items()) \
                and all(isinstance(k, str) and (v is None or (isinstance(v, (int, float)) and not isinstance(v, bool))) for k, v in p.fields.items())
            if not ok:
                self.note(["C14"], "stored point with an invalid value", repr(p))
        # reads
        for qe in QUERIES:
            q, sem = parse_query(qe)
            for m in (None, "m0", "zz"):
                exp = [p for p in model if fspec(m)(p) and sem(p)]
                tag = "%s,%s" % (json.dumps(qe), m)
                try:
                    got = db.search(q, m, sorted=False)
                    if [pkey(p) for p in got] != [pkey(p) for p in exp]:
                        self.note(["C01"], "search[%s]: %d points, expected %d" % (tag, len(got), len(exp)))
                    c = db.count(q, m)
                    if c != len(exp):
                        self.note(["C01"], "count[%s] = %s, expected %d" % (tag, c, len(exp)))
                    if db.contains(q, m) != (len(exp) > 0):
                        self.note(["C01"], "contains[%s] wrong" % tag)
                    g = db.get(q, m)
                    if (g is None) != (not exp) or (g is not None and pkey(g) != pkey(exp[0])):
                        self.note(["C01"], "get[%s] wrong" % tag)
                    sl = db.select(("time", "measurement", "tags.a", "fields.p"), q, m)
                    if sl != [(p.time, p.measurement, p.tags.get("a"), p.fields.get("p")) for p in exp]:
                        self.note(["C01"], "select[%s] wrong" % tag)
                    if db.select("tags.b", q, m) != [p.tags.get("b") for p in exp]:
                        self.note(["C01"], "select single key [%s] wrong" % tag)
                    ss = db.search(q, m)
                    if [pkey(p) for p in ss] != [pkey(p) for p in sorted(exp, key=lambda p: p.time)]:
                        self.note(["C01"], "search sorted[%s] wrong" % tag)
                    if m:
                        h = db.measurement(m)
                        if h.count(q) != len(exp) or [pkey(p) for p in h.search(q, sorted=False)] != [pkey(p) for p in exp] or h.contains(q) != bool(exp):
                            self.note(["C10"], "Measurement(%s) read [%s] differs from the filtered database" % (m, tag))
                        hg = h.get(q)
                        if h.select(("time", "measurement", "tags.a", "fields.p"), q) != [(p.time, p.measurement, p.tags.get("a"), p.fields.get("p")) for p in exp] \
                                or h.select("fields.p", q) != [p.fields.get("p") for p in exp] or (hg is None) != (not exp) or (hg is not None and pkey(hg) != pkey(exp[0])):
                            self.note(["C10"], "Measurement(%s) select/get [%s] differs from the filtered database" % (m, tag))
                except Exception as e:
                    self.note(["C01", "C09"], "read[%s] raises %s" % (tag, type(e).__name__), str(e))
        # getters
        for m in (None, "m0", "m1", "zz"):
            sub = [p for p in model if fspec(m)(p)]
            try:
                if db.get_field_keys(m) != sorted({k for p in sub for k in p.fields}):
                    self.note(["C07"], "get_field_keys(%s) wrong" % m)
                if db.get_tag_keys(m) != sorted({k for p in sub for k in p.tags}):
                    self.note(["C07"], "get_tag_keys(%s) wrong" % m)
                for fk in ("p", "q", "nope"):
                    got = db.get_field_values(fk, m)
                    exp = [p.fields[fk] for p in sub if fk in p.fields]
                    if got != exp:
                        self.note(["C07"], "get_field_values(%s,%s) = %s, expected %s" % (fk, m, got, exp))
                for keys in ([], ["a"], ["b", "zz"]):
                    tv = db.get_tag_values(keys, m)
                    e = {k: set() for k in keys}
                    for p in sub:
                        for k, v in p.tags.items():
                            if not keys or k in keys:
                                e.setdefault(k, set()).add(v)
                    e = {k: sorted(v, key=lambda x: (x is None, x)) for k, v in e.items()}
                    if tv != e:
                        self.note(["C07"], "get_tag_values(%s,%s) = %s, expected %s" % (keys, m, tv, e))
                if db.get_timestamps(m) != [p.time for p in sub]:
                    self.note(["C07", "C08"], "get_timestamps(%s) wrong" % m)
                if m:
                    h = db.measurement(m)
                    if len(h) != len(sub):
                        self.note(["C07", "C10"], "len(Measurement(%s)) = %d, expected %d" % (m, len(h), len(sub)))
                    if [pkey(p) for p in h.all(sorted=False)] != [pkey(p) for p in sub] or [pkey(p) for p in h] != [pkey(p) for p in sub]:
                        self.note(["C07", "C10"], "Measurement(%s).all/iter wrong" % m)
                    if h.get_field_keys() != sorted({k for p in sub for k in p.fields}) or h.get_tag_keys() != sorted({k for p in sub for k in p.tags}) \
                            or h.get_timestamps() != [p.time for p in sub] or h.get_field_values("p") != [p.fields["p"] for p in sub if "p" in p.fields]:
                        self.note(["C10"], "Measurement(%s) getters differ from the filtered database" % m)
            except Exception as ex:
                self.note(["C07"], "getter(%s) raises %s" % (m, type(ex).__name__), str(ex))
        # handles obtained when the database was opened must keep behaving as the database restricted to their name
        for m, h in self.old_handles.items():
            sub = [p for p in model if p.measurement == m]
            try:
                if len(h) != len(sub) or [pkey(p) for p in h] != [pkey(p) for p in sub] or h.count(parse_query("M.test")[0]) != len(sub) or len(h.index) != len(db.index) or h.storage is not db.storage:
                    self.note(["C10"], "a Measurement(%s) handle obtained earlier no longer agrees with the database: len %d, expected %d" % (m, len(h), len(sub)))
            except Exception as ex:
                self.note(["C10"], "earlier Measurement(%s) handle raises %s" % (m, type(ex).__name__), str(ex))
        # the handle for the (valid) name "" must be restricted like any other
        try:
            he = db.measurement("")
            if he.count(parse_query("M.test")[0]) != 0 or len(he.search(parse_query("Tb.exists")[0])) != 0:
                if not any(p.measurement == "" for p in model):
                    self.note(["C10"], "Measurement('') reads are not restricted to the name ''", plain=True)
        except Exception as ex:
            self.note(["C10"], "Measurement('') raises %s" % type(ex).__name__)
        if db.get_measurements() != sorted({p.measurement for p in model}):
            self.note(["C07"], "get_measurements wrong")
        if len(db) != len(model):
            self.note(["C07"], "len(db) = %d, expected %d" % (len(db), len(model)))
        if [pkey(p) for p in db] != [pkey(p) for p in model]:
            self.note(["C07"], "iter(db) wrong")
        self.check_index()
    def close(self):
        try:
            self.db.close()
        except Exception:
            pass


QUERIES = ["Ta==x", "Ta!=x", "Tb<y", "Tb.exists", "Ta.search", "Fp>0", "Fp==1", "Fq!=2.5", "Fq.exists", "Fp.map", "Fp.test",
           "M==m0", "M!=m0", "M.test", "M.map", "t<1", "t<=1", "t>1", "t>=2", "t==1", "t!=1", "t.test", "T.noop", "F.noop", "T.map", "T.mapkey",
           ["~", "Ta==x"], ["~", "Fp==1"], ["~", "M==m0"], ["~", "t<=1"],
           ["&", "Ta==x", "Fp>0"], ["|", "Tb.exists", "t>1"], ["&", ["~", "Fp==1"], "M==m0"], ["|", ["~", "Ta==x"], ["~", "Fq.exists"]],
           ["~", ["&", "Ta==x", "t<=1"]], ["&", "T.noop", "Fp>0"]]

OPS = (
    [["ins", n] for n in ("p0", "p1", "p1b", "p2", "p3", "pe", "pn")]
    + [["insm", ["p2", "p3"]], ["insm", ["p0", "BAD", "p1"]], ["insm", ["p1", "p0"], "m0"], ["insgen", ["p2", "RAISE", "p3"]], ["insgen", ["p3", "p0", "RAISE"]]]
    + [["rm", "Ta==x", None], ["rm", ["~", "Fp==1"], None], ["rm", "t<=1", None], ["rm", ["&", "Ta==x", "Fp>0"], "m0"], ["rm", "Fq.exists", "m0", "handle"], ["rm", "M.test", None]]
    + [["drop", "m0"], ["drop", "m1", "handle"], ["rmall"]]
    + [["upd", "Ta==x", None, "tags_static"], ["upd", "Fp>0", "m0", "fields_callable"], ["upd", "t>=2", None, "time_callable"], ["upd", ["~", "Fp==1"], None, "meas_static"],
       ["upd", "Tb.exists", None, "unset_and_set"], ["upd", "T.noop", "m0", "noop_same", "handle"], ["updall", "fields_callable"], ["updall", "time_callable"],
       ["hupdall", "m0", "unset_field_p"], ["hupdall", "m0", "unset_tag_a"], ["upd", "Fp>0", None, "unset_field_p"], ["hupdall", "m1", "tags_static"], ["upd", "Ta==x", None, "tags_callable_mutating"], ["updall", "tags_callable_mutating"], ["upd", "Fp>0", None, "fields_callable_popping"]]
    + [["badupd", k, "all"] for k in BAD_UPDATES] + [["badupd", "raises_second", "Ta==x"]]
    + [["badread", "tags."], ["badread", 5], ["reindex"], ["reopen"], ["len"]]
)
CFGS = [("mem", True), ("mem", False), ("csv", True), ("csv", False)]


def run_history(args):
    cfg, ops = args
    d = tempfile.mkdtemp(prefix="h")
    r = Run(tuple(cfg), d)
    try:
        for op in ops:
            if not r.step(copy.deepcopy(op)):
                break
    finally:
        r.close()
        shutil.rmtree(d, ignore_errors=True)
    return r.fail, r.nchecks


def signature(f):
    return f["what"]


def main():
    ap = argparse.ArgumentParser()
    ap.add_argument("--mode")
    ap.add_argument("--tier", default="quick")
    ap.add_argument("--seed", default="0")
    ap.add_argument("--prop", default=None)
    a = ap.parse_args()
    if a.mode == "replay":
        rep = json.load(sys.stdin)
        f = rep.get("standin_failure") or rep.get("function_inputs")
        fails, _ = run_history((f["cfg"], f["history"]))
        same = [x for x in fails if x["what"] == f.get("what")] or fails
        print(json.dumps(dict(reproduced=bool(same), detail=same[:2])))
        return
    rnd = random.Random(int(a.seed))
    jobs = []
    # exhaustive: every history of depth <= 2 in every configuration; depth 3 over the core alphabet
    depth = 2
    for cfg in CFGS:
        for n in range(1, depth + 1):
            for ops in itertools.product(OPS, repeat=n):
                jobs.append((cfg, list(ops)))
    nexh = len(jobs)
    core = [o for o in OPS if o[0] in ("ins", "rm", "upd", "rmall", "drop", "insm", "insgen")]
    nrand = 1500 if a.tier == "quick" else 40000
    for _ in range(nrand):
        ln = rnd.randint(3, 9)
        ops = [rnd.choice(core if rnd.random() < 0.7 else OPS) for _ in range(ln)]
        jobs.append((rnd.choice(CFGS), ops))
    with multiprocessing.Pool(16) as pool:
        out = pool.map(run_history, jobs, chunksize=8)
    failures, seen, nchecks = [], {}, 0
    for fs, nc in out:
        nchecks += nc
        for f in fs:
            if a.prop and a.prop not in f["props"]:
                continue
            k = (f["what"], tuple(f["cfg"]))
            seen[k] = seen.get(k, 0) + 1
            if seen[k] == 1 or len(f["history"]) < len(next(x for x in failures if (x["what"], tuple(x["cfg"])) == k)["history"]):
                failures = [x for x in failures if (x["what"], tuple(x["cfg"])) != k] + [f]
    failures.sort(key=lambda f: (f["what"], f["cfg"]))
    print(json.dumps(dict(
        evaluations=len(jobs), distinct_nontrivial=len({json.dumps(j) for j in jobs if len(j[1]) >= 2}),
        bound="all histories of depth <= %d over %d operations x 4 configurations (%d, exhaustive) + %d seeded random histories of length 3-9; %d queries x 3 filters and all getters compared after every step (%d comparison rounds)" % (depth, len(OPS), nexh, nrand, len(QUERIES), nchecks),
        rule="a history is a sequence of operations over the alphabet of standins/dbdiff.py run against a real TinyFlux and the reference model; non-trivial = at least 2 operations",
        samples=[jobs[nexh // 2], jobs[-1]], failures=failures[:60], failure_classes={"%s %s" % k: v for k, v in sorted(seen.items())})))


if __name__ == "__main__":
    main()
