"""Deliberate edits for the mutation self-test (applied to scratch copies only).

Each entry: id, file, old, new, properties expected to raise VIOLATION.  `harmless`
entries must NOT raise a VIOLATION.
"""
M = []


def m(id, file, old, new, props, harmless=False):
    M.append(dict(id=id, file=file, old=old, new=new, props=props, harmless=harmless))


IX = "tinyflux/index.py"
m("ix_reset_forgets_fields", IX, "        self._fields = {}\n        self._measurements = {}\n        self._timestamps = []\n        self._storage_pos", "        self._measurements = {}\n        self._timestamps = []\n        self._storage_pos", ["C06"])
m("ix_insert_meas_offbyone", IX, "            self._measurements[measurement].append(idx)", "            self._measurements[measurement].append(idx + 1)", ["C06"])
m("ix_insert_tags_overwrite", IX, "                self._tags[tag_key][tag_value].append(idx)", "                self._tags[tag_key][tag_value] = [idx]", ["C06"])
m("ix_insert_time_pos", IX, "        self._storage_pos_sorted_by_ts.append(len(self._timestamps))", "        self._storage_pos_sorted_by_ts.append(len(self._timestamps) + 1)", ["C06"])
m("ix_insert_num_items", IX, "            new_idx = start_idx + idx\n\n            self._num_items += 1", "            new_idx = start_idx + idx\n\n            self._num_items += 2", ["C06"])
m("ix_build_sort_by_pos", IX, "timestamp_buffer.sort(key=lambda x: x[0])", "timestamp_buffer.sort(key=lambda x: x[1])", ["C06"])
m("ix_remove_keeps_empty_meas", IX, "            new_items = [i for i in self._measurements[m] if i not in r_items]\n            if new_items:\n                new_measurements[m] = new_items", "            new_items = [i for i in self._measurements[m] if i not in r_items]\n            new_measurements[m] = new_items", ["C06"])
m("ix_remove_fields_inverted", IX, "new_items = [i for i in old_items if i[0] not in r_items]", "new_items = [i for i in old_items if i[0] in r_items]", ["C06"])
m("ix_remove_tags_break", IX, "                if not new_items:\n                    continue", "                if not new_items:\n                    break", ["C06"])
m("ix_remove_ts_by_rank", IX, "            if pos not in r_items:\n                new_timestamps.append(ts)", "            if len(new_timestamps) not in r_items:\n                new_timestamps.append(ts)", ["C06"])
m("ix_remove_num_items", IX, "        self._num_items -= len(r_items)", "        self._num_items -= 1", ["C06"])
m("ix_update_meas_identity", IX, "                u_items[i] if i in u_items else i for i in old_items\n            ]\n\n        return\n\n    def _update_tags", "                i for i in old_items\n            ]\n\n        return\n\n    def _update_tags", ["C06"])
m("ix_update_skips_fields", IX, "        self._update_tags(u_items)\n        self._update_fields(u_items)", "        self._update_tags(u_items)", ["C06"])
m("ix_invalidate_keeps_valid", IX, "        # Set 'valid' to False.\n        self._valid = False", "        # Set 'valid' to False.\n        self._valid = self._valid", ["C06"])
# harmless
m("h_ix_rename_local", IX, "        start_idx = len(self._timestamps)\n\n        for idx, point in enumerate(points):\n            new_idx = start_idx + idx", "        start_idx = len(self._timestamps)\n\n        for idx, point in enumerate(points):\n            new_idx = idx + start_idx", [], harmless=True)
m("h_ix_reset_order", IX, "        self._num_items = 0\n        self._tags = {}\n        self._fields = {}\n        self._measurements = {}\n        self._timestamps = []\n        self._storage_pos", "        self._tags = {}\n        self._num_items = 0\n        self._fields = {}\n        self._measurements = {}\n        self._timestamps = []\n        self._storage_pos", [], harmless=True)

DB = "tinyflux/database.py"
m("db_count_scan_drops_filter", DB, "                and not self._storage._deserialize_measurement(item)\n                == measurement\n            ):\n                continue\n\n            if query(self._storage._deserialize_storage_item(item)):\n                count += 1", "                and False\n            ):\n                continue\n\n            if query(self._storage._deserialize_storage_item(item)):\n                count += 1", ["C01"])
m("db_contains_ge", DB, "            return len(index_rst._items) > 0", "            return len(index_rst._items) >= 0", ["C01"])
m("db_exact_always", DB, '    return bool(getattr(query, "_hash", None))', "    return True", ["C01"])
m("db_search_sort_inverted", DB, "        if sorted:\n            found_points.sort(key=lambda x: (x.time is None, x.time))", "        if not sorted:\n            found_points.sort(key=lambda x: (x.time is None, x.time))", ["C01"])
m("db_search_break_early", DB, "                # If we are out of items, break.\n                if j == len(index_rst._items):\n                    break\n\n        # Search without index.", "                # If we are out of items, break.\n                if j == len(index_rst._items) - 1:\n                    break\n\n        # Search without index.", ["C01"])
m("db_get_candidate_inverted", DB, "                # Not a candidate.\n                if i not in index_rst._items:\n                    continue", "                # Not a candidate.\n                if i in index_rst._items:\n                    continue", ["C01"])
m("db_get_scan_no_filter", DB, "                    and self._storage._deserialize_measurement(item)\n                    != measurement\n                ):\n                    continue\n\n                # Evaluate query against storage item.\n                _point = self._storage._deserialize_storage_item(item)\n                if query(_point):\n                    got_point = _point", "                    and self._storage._deserialize_measurement(item)\n                    == measurement\n                ):\n                    continue\n\n                # Evaluate query against storage item.\n                _point = self._storage._deserialize_storage_item(item)\n                if query(_point):\n                    got_point = _point", ["C01"])
m("db_remove_map_off_by_one", DB, "                        updated_items[i] = new_position", "                        updated_items[i] = new_position + 1", ["C02"])
m("db_remove_no_swap", DB, "        # Items were updated. Swap storages and clean up.\n        self._storage._swap_temp_with_primary()\n\n        # The index was used", "        # The index was used", ["C02"])
m("db_remove_scan_keeps_match", DB, "                if query(self._storage._deserialize_storage_item(item)):\n                    removed_items.add(i)\n\n                # Not a match, keep.\n                else:", "                if query(self._storage._deserialize_storage_item(item)):\n                    removed_items.add(i)\n                    self._storage.append([item], temporary=True)\n\n                # Not a match, keep.\n                else:", ["C02"])
m("db_remove_counts_kept", DB, "        # Return number of updated items.\n        return len(removed_items)", "        # Return number of updated items.\n        return keep_count", ["C02"])
m("db_remove_index_not_invalidated", DB, "            self._index.update(updated_items)\n        else:\n            self._index.invalidate()", "            self._index.update(updated_items)\n        else:\n            pass", ["C02"])
m("db_reset_keeps_index", DB, "        if self._auto_index:\n            self._index._reset()\n        else:\n            self._index.invalidate()", "        if self._auto_index:\n            pass\n        else:\n            self._index.invalidate()", ["C02"])
m("db_drop_wrong_filter", DB, "        return self._remove_helper(MeasurementQuery() == name, name)", "        return self._remove_helper(MeasurementQuery() != name, name)", ["C02"])
m("h_db_count_rename", DB, "        # Return value.\n        count = 0\n\n        # Search without help of the index.\n        for item in self._storage:\n            # Filter by measurement.\n            if (\n                measurement\n                and not self._storage._deserialize_measurement(item)\n                == measurement\n            ):\n                continue", "        # Return value.\n        count = 0\n\n        # Search without help of the index.\n        for item in self._storage:\n            # Filter by measurement.\n            if (\n                measurement\n                and self._storage._deserialize_measurement(item)\n                != measurement\n            ):\n                continue", [], harmless=True)
