"""Deliberate edits for the mutation self-test (applied to scratch copies only).

Each entry: id, file, old, new, properties expected to raise VIOLATION.  `harmless`
entries must NOT raise a VIOLATION.
"""
M = []


def m(id, file, old, new, props, harmless=False):
    M.append(dict(id=id, file=file, old=old, new=new, props=props, harmless=harmless))


IX = "tinyflux/index.py"
m("ix_reset_forgets_fields", IX, "        self._fields = {}\n        self._measurements = {}\n        self._timestamps = []\n        self._storage_pos", "        self._measurements = {}\n        self._timestamps = []\n        self._storage_pos", ["C06"])
m("ix_insert_meas_offbyone", IX, "            self._measurements[measurement].append(idx)", "            self._measurements[measurement].append(idx + 1)", ["C06"])
m("ix_insert_tags_overwrite", IX, "                self._tags[tag_key][tag_value].append(idx)", "                self._tags[tag_key][tag_value] = [idx]", ["C06"])
m("ix_insert_time_pos", IX, "        self._storage_pos_sorted_by_ts.append(len(self._timestamps))", "        self._storage_pos_sorted_by_ts.append(len(self._timestamps) + 1)", ["C06"])
m("ix_insert_num_items", IX, "            new_idx = start_idx + idx\n\n            self._num_items += 1", "            new_idx = start_idx + idx\n\n            self._num_items += 2", ["C06"])
m("ix_build_sort_by_pos", IX, "timestamp_buffer.sort(key=lambda x: x[0])", "timestamp_buffer.sort(key=lambda x: x[1])", ["C06"])
m("ix_remove_keeps_empty_meas", IX, "            new_items = [i for i in self._measurements[m] if i not in r_items]\n            if new_items:\n                new_measurements[m] = new_items", "            new_items = [i for i in self._measurements[m] if i not in r_items]\n            new_measurements[m] = new_items", ["C06"])
m("ix_remove_fields_inverted", IX, "new_items = [i for i in old_items if i[0] not in r_items]", "new_items = [i for i in old_items if i[0] in r_items]", ["C06"])
m("ix_remove_tags_break", IX, "                if not new_items:\n                    continue", "                if not new_items:\n                    break", ["C06"])
m("ix_remove_ts_by_rank", IX, "            if pos not in r_items:\n                new_timestamps.append(ts)", "            if len(new_timestamps) not in r_items:\n                new_timestamps.append(ts)", ["C06"])
m("ix_remove_num_items", IX, "        self._num_items -= len(r_items)", "        self._num_items -= 1", ["C06"])
m("ix_update_meas_identity", IX, "                u_items[i] if i in u_items else i for i in old_items\n            ]\n\n        return\n\n    def _update_tags", "                i for i in old_items\n            ]\n\n        return\n\n    def _update_tags", ["C06"])
m("ix_update_skips_fields", IX, "        self._update_tags(u_items)\n        self._update_fields(u_items)", "        self._update_tags(u_items)", ["C06"])
m("ix_invalidate_keeps_valid", IX, "        # Set 'valid' to False.\n        self._valid = False", "        # Set 'valid' to False.\n        self._valid = self._valid", ["C06"])
# harmless
m("h_ix_rename_local", IX, "        start_idx = len(self._timestamps)\n\n        for idx, point in enumerate(points):\n            new_idx = start_idx + idx", "        start_idx = len(self._timestamps)\n\n        for idx, point in enumerate(points):\n            new_idx = idx + start_idx", [], harmless=True)
m("h_ix_reset_order", IX, "        self._num_items = 0\n        self._tags = {}\n        self._fields = {}\n        self._measurements = {}\n        self._timestamps = []\n        self._storage_pos", "        self._tags = {}\n        self._num_items = 0\n        self._fields = {}\n        self._measurements = {}\n        self._timestamps = []\n        self._storage_pos", [], harmless=True)
