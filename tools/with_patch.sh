#!/bin/sh
# tools/with_patch.sh <patch.diff> <check args...>: run a check against a scratch copy of /repo with the patch applied.
# The copy lives outside /repo and /verif and is removed afterwards.
patch="$(realpath "$1")"; shift
d="$(mktemp -d /tmp/pyvc-mut-XXXXXX)"
cp -r /repo/tinyflux "$d/tinyflux"
( cd "$d" && patch -p1 -s < "$patch" ) || { rm -rf "$d"; echo "patch failed"; exit 3; }
PYVC_REPO="$d" "$(dirname "$0")/../check" "$@"; rc=$?
rm -rf "$d"
exit $rc
