#!/bin/bash
# fourth round of sub-agent changes (outputs expected in /tmp/wt4-<ID>-out)
cd "$(dirname "$0")/.."
t() { tools/try_seed.sh "$@"; }
t /tmp/wt4-C18-out 1 R4-C18-find-le-first-element-fastpath C18
t /tmp/wt4-C18-out 2 R4-C18-find-eq-rounds-probe C18
t /tmp/wt4-C17-out 1 R4-C17-key-after-map-restores-hash C17
t /tmp/wt4-C17-out 2 R4-C17-equality-by-hash-value C17
t /tmp/wt4-C09-out 1 R4-C09-path-failures-only-lookuperror C09
t /tmp/wt4-C09-out 2 R4-C09-regex-cache-ignores-flags C09
t /tmp/wt4-C15-out 1 R4-C15-drop-measurement-leaks-temp C15
t /tmp/wt4-C15-out 2 R4-C15-remove-fields-tuple-filter C15 C06
t /tmp/wt4-C04-out 1 R4-C04-index-update-drops-unchanged-rows C04 C03
t /tmp/wt4-C04-out 2 R4-C04-newline-or-none C04 C05
t /tmp/wt4-C08-out 1 R4-C08-latest-time-replace-tz C08
t /tmp/wt4-C08-out 2 R4-C08-get-timestamps-scan-astimezone C08 C07
