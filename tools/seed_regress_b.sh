#!/bin/bash
cd "$(dirname "$0")/.."
tools/reseed.sh C01-update-fields-falsy-zero
tools/reseed.sh C02-update-renumbers-positions
tools/reseed.sh C03-update-keeps-stale-index
tools/reseed.sh C04-reopen-drops-newline
tools/reseed.sh C05-reopen-drops-newline
tools/reseed.sh C06-update-tags-falsy-zero
tools/reseed.sh C07-timestamps-sorted-by-time
tools/reseed.sh C08-index-rhs-replace-tz
tools/reseed.sh C09-regex-empty-string
tools/reseed.sh C10-update-all-swapped-unset
tools/reseed.sh C11-stale-temp-memory
tools/reseed.sh C12-shutil-move-cross-fs
tools/reseed.sh C13-stale-index-after-failed-insert
tools/reseed.sh C14-merge-before-validate
tools/reseed.sh C15-temp-leak-non-oserror
tools/reseed.sh C16-insert-reindexes
tools/reseed.sh C17-or-is-hashable-uncalled
tools/reseed.sh C18-find-lt-falsy-probe
tools/reseed.sh R2-C03-callable-time-not-normalised
tools/reseed.sh R2-C05-reopen-drops-newline
tools/reseed.sh R2-C07-trailing-survivors-not-renumbered
tools/reseed.sh R2-C10-update-measurements-falsy-zero
tools/reseed.sh R2-C13-reset-index-before-storage
tools/reseed.sh R2-C14-merge-before-validate
