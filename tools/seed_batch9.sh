#!/bin/bash
cd "$(dirname "$0")/.."
tools/try_seed.sh /tmp/wt3-C11-out 2 R3-C11-build-valid-reset-after-clear C11 C13
