#!/usr/bin/env python3
"""Mutation self-test: apply each edit of selftest/mutations.py to a scratch copy of
/repo/tinyflux (outside /repo and /verif), run the named checks against it, report."""
import os, shutil, subprocess, sys, tempfile, json
ROOT = os.path.dirname(os.path.dirname(os.path.abspath(__file__)))
sys.path.insert(0, ROOT)
from selftest.mutations import M
only = sys.argv[1:] 
res = []
for mu in M:
    if only and not any(o in mu["id"] or o in mu["props"] for o in only):
        continue
    d = tempfile.mkdtemp(prefix="pyvc-mut-")
    try:
        shutil.copytree("/repo/tinyflux", os.path.join(d, "tinyflux"))
        p = os.path.join(d, mu["file"])
        s = open(p).read()
        if s.count(mu["old"]) != 1:
            res.append((mu["id"], "PATTERN-NOT-UNIQUE(%d)" % s.count(mu["old"]))); print(res[-1]); continue
        open(p, "w").write(s.replace(mu["old"], mu["new"]))
        props = mu["props"] or [o for o in only if o.startswith("C")] or ["C06"]
        for pid in props:
            env = dict(os.environ, PYVC_REPO=d)
            r = subprocess.run([os.path.join(ROOT, "check"), pid] + (["--no-standin"] if "--no-standin" in os.environ.get("SELFTEST_FLAGS", "") else []), capture_output=True, text=True, env=env)
            vio = [l for l in r.stdout.splitlines() if l.startswith("VIOLATION")]
            ok = (r.returncode != 1 and not vio) if mu["harmless"] else (r.returncode == 1 and bool(vio))
            res.append((mu["id"], pid, "rc=%d" % r.returncode, "OK" if ok else "MISSED" if not mu["harmless"] else "FALSE-ALARM", (vio[:1] or [""])[0][:120]))
            print(res[-1], flush=True)
            if not ok:
                print(r.stdout[-1500:])
    finally:
        shutil.rmtree(d, ignore_errors=True)
bad = [r for r in res if "OK" not in r]
print("%d runs, %d not ok" % (len(res), len(bad)))
sys.exit(1 if bad else 0)
