NOTES = "Contract-based deductive verification of the real code with a self-built verifier (pyvc); see DESIGN.md. Properties not yet under contract are listed under not_applicable with the reason 'not built yet' until their cone is verified."
WIP = "not built yet in this round: the contracts for this property's cone are still being written (DESIGN.md 11); no claim is made"
CHECKS = {
    "C18": dict(
        category="proof",
        technique="contract-based deductive verification (pyvc: VCs from the real AST, z3/cvc5), bounded exhaustive stand-in alongside",
        text="Postconditions taken from the C18 statement are proved for the five real functions in tinyflux/utils.py for all list lengths, all duplicates and all probes (no bound), relative to the assumed partition-point contract of bisect; the property's own small-scope enumeration runs alongside as a labelled bounded stand-in and replay oracle.",
        note="Trusted: pyvc's encoding of Python semantics, z3/cvc5, and the assumed contract of CPython's bisect_left/bisect_right (validated by the bounded stand-in on every run). Elements are NaN-free totally ordered numbers.",
        design_ref="DESIGN.md 5 (C18)",
    ),
    "C06": dict(
        category="proof",
        technique="contract-based deductive verification (pyvc): representation invariant Repr(index, view) proved preserved by every Index mutator; database-level clauses by a labelled bounded stand-in",
        text="The data-structure invariant Repr (DESIGN 3.4: every answer the index can give is a function of the storage view alone, i.e. equals that of a rebuilt index) is proved established by Index.__init__/_reset/build and preserved by insert, remove+update and their 15 helpers, for all index states, all points and all removal sets, with loop invariants (no bound). The database-level clauses (validity flag handling in TinyFlux) are not yet under contract and are served by the bounded differential stand-in, which also compares the live index with a rebuilt one after every step.",
        note="Trusted: pyvc's encoding of Python semantics, z3/cvc5, the assumed contract of list.sort (stable permutation), two assumed pigeonhole lemma instances in Index.update, ownership of the index containers (A-alias). TinyFlux-level code (database.py) is covered only by the bounded stand-in in this round.",
        design_ref="DESIGN.md 3.4, 5 (C06), 12",
    ),
}
NOT_APPLICABLE = {p: WIP for p in ["C%02d" % i for i in range(1, 18)] if p not in CHECKS}
