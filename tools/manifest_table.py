NOTES = "Contract-based deductive verification of the real code with a self-built verifier (pyvc); see DESIGN.md. Properties not yet under contract are listed under not_applicable with the reason 'not built yet' until their cone is verified."
WIP = "not built yet in this round: the contracts for this property's cone are still being written (DESIGN.md 11); no claim is made"
CHECKS = {
    "C18": dict(
        category="proof",
        technique="contract-based deductive verification (pyvc: VCs from the real AST, z3/cvc5), bounded exhaustive stand-in alongside",
        text="Postconditions taken from the C18 statement are proved for the five real functions in tinyflux/utils.py for all list lengths, all duplicates and all probes (no bound), relative to the assumed partition-point contract of bisect; the property's own small-scope enumeration runs alongside as a labelled bounded stand-in and replay oracle.",
        note="Trusted: pyvc's encoding of Python semantics, z3/cvc5, and the assumed contract of CPython's bisect_left/bisect_right (validated by the bounded stand-in on every run). Elements are NaN-free totally ordered numbers.",
        design_ref="DESIGN.md 5 (C18)",
    ),
}
NOT_APPLICABLE = {p: WIP for p in ["C%02d" % i for i in range(1, 18)]}
