NOTES = "Contract-based deductive verification of the real code with a self-built verifier (pyvc); see DESIGN.md. Properties not yet under contract are listed under not_applicable with the reason 'not built yet' until their cone is verified."
WIP = "not built yet in this round: the contracts for this property's cone are still being written (DESIGN.md 11); no claim is made"
CHECKS = {
    "C18": dict(
        category="proof",
        technique="contract-based deductive verification (pyvc: VCs from the real AST, z3/cvc5), bounded exhaustive stand-in alongside",
        text="Postconditions taken from the C18 statement are proved for the five real functions in tinyflux/utils.py for all list lengths, all duplicates and all probes (no bound), relative to the assumed partition-point contract of bisect; the property's own small-scope enumeration runs alongside as a labelled bounded stand-in and replay oracle.",
        note="Trusted: pyvc's encoding of Python semantics, z3/cvc5, and the assumed contract of CPython's bisect_left/bisect_right (validated by the bounded stand-in on every run). Elements are NaN-free totally ordered numbers.",
        design_ref="DESIGN.md 5 (C18)",
    ),
    "C01": dict(
        category="proof",
        technique="contract-based deductive verification (pyvc): exactness postconditions on Index.search and on TinyFlux.count/contains/get/search/all for both the index and the scan branch, loop invariants with ghost counting functions; bounded differential stand-in alongside",
        text="For every index state satisfying the representation invariant and every well-formed query, Index._search_helper and its four leaves are proved to return exactly {i | query true on stored point i}; TinyFlux.count/contains/get/search/all are proved to return the number / existence / first / exact enumeration (once each, insertion order or stable time order) of the selected points on the index path, the scan path and the all-rows-matched fallback, with the read_op wrapper inlined from the real decorator. Six counting lemmas are proved by explicit induction. select() and the Measurement forwarders are served only by the bounded stand-in.",
        note="Relative to: the abstract Storage contract (assumed; refinement by CSV/Memory storage not proved), the query-object axioms of contracts/model.py (q(point) total and equal to sem; path/test behaviour of index-eligible queries), datetime/timestamp order axioms, bisect contract, set-cardinality facts, pyvc's encoding, z3/cvc5. Termination of the _search_helper recursion is not proved.",
        design_ref="DESIGN.md 5 (C01), 12",
    ),
    "C02": dict(
        category="proof",
        technique="contract-based deductive verification (pyvc): whole-view postcondition of _remove_helper/remove/drop_measurement/remove_all with rank/count lemmas proved by induction; bounded differential stand-in alongside",
        text="_remove_helper is proved, on the index path (with the position-renumbering bookkeeping) and on the scan path, to leave storage equal to the old contents without exactly the selected positions, every survivor unmodified and in order (items'[i - cnt(A,i)] = items[i]), to return |A|, to change nothing when nothing is selected, and to re-establish the database invariant through Index.remove/Index.update whose preconditions (renumbering in range, strictly monotone, onto) are discharged from the loop invariant; remove/drop_measurement/remove_all are proved with their real decorator wrappers inlined.",
        note="Relative to: the abstract Storage contract (assumed), query meaning axioms, set-cardinality facts, two pigeonhole lemma instances in Index.update, pyvc's encoding, z3/cvc5. I/O failures are out of scope here (C13).",
        design_ref="DESIGN.md 5 (C02), 12",
    ),
    "C03": dict(
        category="proof",
        technique="contract-based deductive verification (pyvc): whole-view postcondition of _update_helper/update/update_all over an abstract per-point update function; merge semantics of perform_update by the bounded stand-in",
        text="_update_helper, update and update_all (real decorator wrappers inlined) are proved, on the index path and the scan path, to rewrite exactly the selected points that actually change (items'[i] decodes to upd(point i) for those, every other item untouched, length and order kept), to return their number, to leave storage untouched when nothing changes, and on a raising callable / late validation error to leave primary storage untouched with temporary storage discarded (after fix f45b108). The per-point function (perform_update: replace time/measurement, merge tags/fields key-by-key, unset last) is an interface contract here; its documented merge semantics are checked only by the bounded differential stand-in.",
        note="Relative to: the interface contract of _generate_updater/perform_update (not proved against their bodies), the abstract Storage contract, query meaning axioms, counting lemmas (proved by induction), pyvc's encoding, z3/cvc5. MemoryStorage's in-place update (KF-18) is outside the Storage contract.",
        design_ref="DESIGN.md 5 (C03), 12",
    ),
    "C06": dict(
        category="proof",
        technique="contract-based deductive verification (pyvc): representation invariant Repr(index, view) proved preserved by every Index mutator; database-level clauses by a labelled bounded stand-in",
        text="The data-structure invariant Repr (DESIGN 3.4: every answer the index can give is a function of the storage view alone, i.e. equals that of a rebuilt index) is proved established by Index.__init__/_reset/build and preserved by insert, remove+update and their 15 helpers, for all index states, all points and all removal sets, with loop invariants (no bound). The database-level clauses (validity flag handling in TinyFlux) are not yet under contract and are served by the bounded differential stand-in, which also compares the live index with a rebuilt one after every step.",
        note="Trusted: pyvc's encoding of Python semantics, z3/cvc5, the assumed contract of list.sort (stable permutation), two assumed pigeonhole lemma instances in Index.update, ownership of the index containers (A-alias). TinyFlux-level code (database.py) is covered only by the bounded stand-in in this round.",
        design_ref="DESIGN.md 3.4, 5 (C06), 12",
    ),
    "C07": dict(
        category="other",
        technique="contract-based deductive verification (pyvc) of len(db) and all() on both branches; the twelve getters only by a labelled bounded differential stand-in",
        text="Proved: TinyFlux.__len__ equals the number of stored points whether answered by a valid index or by storage; TinyFlux.all returns every stored point once, in insertion order or stably time-sorted. The getters (get_measurements, get_tag_keys, get_tag_values, get_field_keys, get_field_values, get_timestamps, their index counterparts and the per-measurement versions) are NOT yet under contract: they are compared with a reference model after every step of every history of the bounded stand-in (labelled bounded). Level 'other' because most of the cone is bounded.",
        note="Relative to the abstract Storage contract (CSVStorage.__len__ counting physical lines is design-time defect #13, not yet triaged by this check). Stand-in bound: see evidence.coverage.bounded.",
        design_ref="DESIGN.md 5 (C07), 12.4",
    ),
    "C08": dict(
        category="proof",
        technique="contract-based deductive verification (pyvc): normalisation postcondition of the insert path, timestamp-comparison exactness of the time index, two LRA lemmas for float timestamps; bounded stand-in under four process time zones alongside",
        text="Proved: every point stored by insert/insert_multiple carries time = astimezone(utc) of the given datetime (same instant) or the call's single insertion time when absent; the time index appends exactly timestamp() of that time; Index._search_timestamps answers the six comparisons exactly by comparing POSIX timestamps (with the bisect helpers of C18); and, from the IEEE-754 rounding bound for the supported range, that float timestamps of distinct microsecond instants are strictly ordered and that rounding back returns the instant (linear real arithmetic). update(time=...) normalisation (fix e67c567), the isoformat round trip of the codec and get_timestamps are covered only by the bounded stand-in (instants at range edges, adjacent microseconds, DST gaps/folds, four TZ values).",
        note="Relative to the datetime model (astimezone keeps the instant; aware datetimes compare by instant; timestamp() correctly rounded), the abstract Storage contract, pyvc's encoding, z3/cvc5.",
        design_ref="DESIGN.md 5 (C08), 4.3, 12",
    ),
    "C09": dict(
        category="proof",
        technique="contract-based deductive verification (pyvc): every constructor of the query DSL and both __call__ methods against the documented meaning, closures verified over their captured variables, path walk by loop invariant + induction lemma; exhaustive bounded stand-in alongside",
        text="For every constructor of BaseQuery/TagQuery/FieldQuery/MeasurementQuery/TimeQuery (six comparisons, test, matches, search, exists, noop, map, key access) the resulting query is proved to evaluate, on every point, to the documented meaning: the path resolves on the addressed attribute (a missing key or an unsubscriptable value makes it False, not an error), the comparison is defined and true (operator exceptions swallowed), regex tests are False on non-strings and match the whole value (matches) or a substring (search); SimpleQuery.__call__ and CompoundQuery.__call__ are proved to compute that meaning and exactly boolean NOT/AND/OR; evaluation never raises unless a user test/map function does. All nesting depths by structural induction (a callee's contract is used for operands).",
        note="Relative to the model of Python values and operators in contracts/query_model.py (uninterpreted operators that may raise, dict/str/None subscripting rules, re.* as uninterpreted predicates), structural equality of tuples, pyvc's encoding, z3/cvc5.",
        design_ref="DESIGN.md 5 (C09), 12",
    ),
    "C10": dict(
        category="proof",
        technique="contract-based deductive verification (pyvc): each Measurement forwarder is verified against the callee's contract with measurement = self._name (arguments bound to the callee's real signature); remaining forwarders by bounded stand-in",
        text="Measurement.count/contains/get/search/remove/remove_all are proved to have exactly the postcondition of the database operation with the filter set to the handle's name - a forwarder that drops the filter, swaps arguments or forwards to the wrong operation fails its obligation; the callee contracts (count, contains, remove, drop_measurement, insert with its name override) are in the cone. select/update/update_all/insert forwarders and the per-measurement getters are served by the bounded stand-in.",
        note="Relative to the trusted base of C01/C02. KF-19 (name '' treated as no filter) is a recorded finding witnessed by the stand-in.",
        design_ref="DESIGN.md 5 (C10), 12",
    ),
    "C11": dict(
        category="proof",
        technique="contract-based deductive verification (pyvc): exceptional postconditions (raises clauses) on insert/insert_multiple/_insert_helper and update/update_all/_update_helper, with exception edges at every raising site; bounded stand-in alongside",
        text="For the insert path: a non-Point at any position raises TypeError with storage = old contents + the normalised points before it and the database invariant intact (index extended, invalidated, or - after fix aeabb02 - invalidated on the abort). For the update path: ill-typed static arguments are rejected before any effect (interface contract), and an exception from the per-point update at any selected position leaves primary storage and index untouched with the temporary storage discarded (after fix f45b108). Proved for all positions of the offending element (arbitrary loop iteration), both index and scan branches.",
        note="Relative to: interface contract of _generate_updater/perform_update, abstract Storage contract (non-aliasing: KF-18 records MemoryStorage's in-place mutation as a known finding, witnessed by the stand-in), pyvc's encoding, z3/cvc5. remove()/select() raising paths: only can_read/can_write gates are modelled.",
        design_ref="DESIGN.md 5 (C11), 12",
    ),
    "C17": dict(
        category="proof",
        technique="contract-based deductive verification (pyvc): hash-determines-meaning invariant (`hash_faithful`) established by every constructor and preserved by &, |, ~; __eq__/__hash__ against it; exhaustive pairwise bounded stand-in alongside",
        text="Each constructor is proved to return a query whose (truthy) hash value determines its meaning on every point (a spec function of the hash alone equals the query's meaning); &, | and ~ of both query classes are proved to build the same hash for either operand order and class (unordered pair under one tag) and to preserve the invariant; __eq__ is proved true only for equal truthy hashes, hence equal queries evaluate identically and hash equal; map() is proved to clear the hash for good and unhashable queries to equal nothing.",
        note="Relative to structural equality/hashing of Python tuples and frozensets (injective constructors, symmetric unordered pair), the value model of C09, pyvc's encoding, z3/cvc5.",
        design_ref="DESIGN.md 5 (C17), 12",
    ),
}
NOT_APPLICABLE = {p: WIP for p in ["C%02d" % i for i in range(1, 18)] if p not in CHECKS}
