#!/bin/bash
cd "$(dirname "$0")/.."
tools/reseed.sh C02-scan-remove-updates-index
tools/reseed.sh C03-update-keeps-stale-index
tools/reseed.sh R2-C13-reset-index-before-storage
