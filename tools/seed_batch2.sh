#!/bin/bash
cd "$(dirname "$0")/.."
tools/try_seed.sh /tmp/wt-C01-out 2 C01-latest-time-read-once C01 C06
tools/try_seed.sh /tmp/wt-C02-out 1 C02-update-renumbers-positions C02 C06
tools/try_seed.sh /tmp/wt-C11-out 1 C11-batched-index-insert C11 C06
tools/try_seed.sh /tmp/wt-C11-out 2 C11-stale-temp-memory C11
tools/try_seed.sh /tmp/wt-C10-out 1 C10-update-all-swapped-unset C10 C03
tools/try_seed.sh /tmp/wt-C03-out 1 C03-unset-before-merge C03
