#!/bin/bash
# second group of sub-agent changes (properties C04..C18); outputs of the agents are expected in /tmp/wt-<ID>-out
cd "$(dirname "$0")/.."
t() { tools/try_seed.sh "$@"; }
t /tmp/wt-C18-out 2 C18-find-lt-falsy-probe C18 C08
t /tmp/wt-C05-out 1 C05-reopen-drops-newline C05 C04
t /tmp/wt-C04-out 2 C04-reopen-drops-newline C04
t /tmp/wt-C07-out 2 C07-timestamps-sorted-by-time C07
t /tmp/wt-C08-out 2 C08-index-rhs-replace-tz C08 C01
t /tmp/wt-C09-out 2 C09-regex-empty-string C09
t /tmp/wt-C12-out 2 C12-shutil-move-cross-fs C12
t /tmp/wt-C13-out 2 C13-fsync-error-swallowed C13
t /tmp/wt-C14-out 2 C14-kwargs-checked-by-truthiness C14
t /tmp/wt-C15-out 2 C15-temp-leak-non-oserror C15 C11
t /tmp/wt-C16-out 2 C16-insert-reindexes C16
t /tmp/wt-C17-out 2 C17-invert-hash-normalised C17 C09
