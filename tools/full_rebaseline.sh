#!/bin/bash
# every check once on /repo with --rebaseline (after an engine / contract change); prints one summary line per property
cd "$(dirname "$0")/.."
for p in C18 C09 C17 C04 C12 C16 C05 C07 C08 C14 C15 C03 C02 C11 C13 C06 C10 C01; do
  out=$(./check $p --rebaseline 2>&1 | grep -v WARNING); rc=$?
  echo "$out" | grep -E "^$p tier|bounded|VIOLATION|UNDECIDED|CHECKER" | cut -c1-220
  echo "== $p done"
done
