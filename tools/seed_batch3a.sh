#!/bin/bash
# second group of sub-agent changes (properties C04..C18); outputs of the agents are expected in /tmp/wt-<ID>-out
cd "$(dirname "$0")/.."
t() { tools/try_seed.sh "$@"; }
t /tmp/wt-C18-out 1 C18-find-le-head-fastpath C18 C08
t /tmp/wt-C05-out 2 C05-float-needs-dot C05
t /tmp/wt-C04-out 1 C04-append-without-seek-end C04 C16
t /tmp/wt-C07-out 1 C07-stale-tag-key-after-remove C07 C06
t /tmp/wt-C08-out 1 C08-callable-time-not-normalised C08 C03
t /tmp/wt-C09-out 1 C09-ne-on-none-value C09
t /tmp/wt-C12-out 1 C12-replace-before-flush C12
t /tmp/wt-C13-out 1 C13-stale-index-after-failed-insert C13 C06
t /tmp/wt-C14-out 1 C14-merge-before-validate C14 C11
t /tmp/wt-C15-out 1 C15-noop-update-rewrites C15 C03
t /tmp/wt-C16-out 1 C16-append-without-seek-end C16 C04
t /tmp/wt-C17-out 1 C17-or-is-hashable-uncalled C17
t /tmp/wt-C11-out 2 C11-stale-temp-memory C11 C15
