#!/usr/bin/env python3
"""tools/loops.py <qualname>: list loop ordinals / headers of a function as pyvc numbers them."""
import ast, sys
sys.path.insert(0, "/verif")
from pyvc import front
m, fn = front.find_function(sys.argv[1])
k = 0
for n in ast.walk(fn):
    if isinstance(n, (ast.For, ast.While)):
        head = "for %s in %s" % (ast.unparse(n.target).strip("()"), ast.unparse(n.iter)) if isinstance(n, ast.For) else "while " + ast.unparse(n.test)
        print(k, n.lineno, head)
        k += 1
