#!/bin/bash
# run every seeded change prepared by the sub-agents (outputs under /tmp/wt-*-out) through tools/try_seed.sh
cd "$(dirname "$0")/.."
tools/try_seed.sh /tmp/wt-C06-out 1 C06-update-tags-falsy-zero C06 C02
tools/try_seed.sh /tmp/wt-C06-out 2 C06-reset-keeps-positions C06 C01
tools/try_seed.sh /tmp/wt-C01-out 1 C01-update-fields-falsy-zero C01 C06
tools/try_seed.sh /tmp/wt-C01-out 2 C01-latest-time-read-once C01 C06
tools/try_seed.sh /tmp/wt-C02-out 1 C02-update-renumbers-positions C02 C06
tools/try_seed.sh /tmp/wt-C02-out 2 C02-scan-remove-updates-index C02 C06
tools/try_seed.sh /tmp/wt-C03-out 1 C03-unset-before-merge C03
tools/try_seed.sh /tmp/wt-C03-out 2 C03-update-keeps-stale-index C03 C06
tools/try_seed.sh /tmp/wt-C11-out 1 C11-batched-index-insert C11 C06
tools/try_seed.sh /tmp/wt-C11-out 2 C11-stale-temp-memory C11
tools/try_seed.sh /tmp/wt-C10-out 1 C10-update-all-swapped-unset C10 C03
tools/try_seed.sh /tmp/wt-C10-out 2 C10-get-timestamps-by-rank C10 C07
