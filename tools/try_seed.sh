#!/bin/bash
# tools/try_seed.sh <outdir> <i> <name> <prop> [more props]: confirm a seeded change in a scratch worktree, run checks against it, store under seeded/<name>/
ROOT="$(cd "$(dirname "$0")/.." && pwd)"
out="$1"; i="$2"; name="$3"; shift 3
patch="$out/patch_$i.diff"; demo="$out/demo_$i.py"; meta="$out/meta_$i.json"
wt=$(mktemp -d /tmp/seedwt-XXXX); rmdir "$wt"
git -C /repo worktree add -q --detach "$wt" HEAD || exit 3
log=""
dtmp=$(mktemp -d /tmp/seedtmp-XXXX)
( cd "$wt" && PYTHONPATH="$wt" TMPDIR="$dtmp" /venv/bin/python "$demo" >/dev/null 2>&1 ); clean_rc=$?
( cd "$wt" && git apply "$patch" ) || { echo "patch does not apply"; git -C /repo worktree remove --force "$wt"; exit 3; }
tests=$(cd "$wt" && /venv/bin/python -m pytest -q -p no:cacheprovider 2>&1 | tail -1)
( cd "$wt" && PYTHONPATH="$wt" TMPDIR="$dtmp" /venv/bin/python "$demo" >/dev/null 2>&1 ); mut_rc=$?
rm -rf "$dtmp"
git -C /repo worktree remove --force "$wt"
echo "confirm: demo clean rc=$clean_rc, with change rc=$mut_rc, tests: $tests"
mkdir -p "$ROOT/seeded/$name"
cp "$patch" "$ROOT/seeded/$name/patch.diff"; cp "$demo" "$ROOT/seeded/$name/demo.py"
results=""
sc=$(mktemp -d /tmp/seedsc-XXXX); cp -r /repo/tinyflux "$sc/tinyflux"; ( cd "$sc" && patch -p1 -s < "$patch" ) || { echo "cannot apply to scratch copy"; exit 3; }
for p in "$@"; do
  full=$(cd "$ROOT" && PYVC_REPO="$sc" ./check $p 2>&1 | grep -v WARNING)
  rc=$(echo "$full" | grep -c "^VIOLATION")
  r=$(echo "$full" | grep -E "^(VIOLATION|UNDECIDED|CHECKER|C[0-9]+ tier|  failed obligation|  bounded)" | head -12)
  echo "== $p: violations=$rc"; echo "$r" | cut -c1-220
  nfail=$(echo "$full" | grep -E "^C[0-9]+ tier" | sed -E 's/.* ([0-9]+) failing.*/\1/')
  nund=$(echo "$full" | grep -E "^C[0-9]+ tier" | sed -E 's/.* ([0-9]+) undecided.*/\1/')
  nsi=$(echo "$full" | grep -E "bounded stand-in" | sed -E 's/.*\(([0-9]+) unexplained\).*/\1/')
  results="$results $p:$rc:${nfail:-0}:${nund:-0}:${nsi:-0}"
done
rm -rf "$sc"
python3 - "$meta" "$name" "$clean_rc" "$mut_rc" "$tests" "$results" "$ROOT" <<'PY'
import json, sys
meta=json.load(open(sys.argv[1])); name=sys.argv[2]
meta.update(confirmed=dict(demo_rc_clean=int(sys.argv[3]), demo_rc_with_change=int(sys.argv[4]), test_suite=sys.argv[5], how="demo and test suite in a scratch git worktree of /repo HEAD under /tmp; checks run against a scratch copy of /repo/tinyflux with the patch (PYVC_REPO); both removed afterwards (tools/try_seed.sh)"),
            checks={kv.split(':')[0]: ('VIOLATION reported' if int(kv.split(':')[1]) else 'not reported') for kv in sys.argv[6].split()},
            checks_detail={kv.split(':')[0]: dict(violation_lines=int(kv.split(':')[1]), failing_proof_obligations=int(kv.split(':')[2] or 0), undecided=int(kv.split(':')[3] or 0), standin_failures=int(kv.split(':')[4] or 0)) for kv in sys.argv[6].split()})
json.dump(meta, open('%s/seeded/%s/meta.json'%(sys.argv[7],name),'w'), indent=1)
PY
