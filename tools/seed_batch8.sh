#!/bin/bash
# round-3 changes whose primary check did not report them in batch 7, after strengthening
cd "$(dirname "$0")/.."
t() { tools/try_seed.sh "$@"; }
t /tmp/wt3-C16-out 2 R3-C16-cached-end-offset-stale-after-swap C16 C04
t /tmp/wt3-C01-out 1 R3-C01-map-then-key-hashable C01 C17
t /tmp/wt3-C11-out 2 R3-C11-build-valid-reset-after-clear C11 C13
