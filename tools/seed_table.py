#!/usr/bin/env python3
"""seeded/README.md from the meta.json files (what each sub-agent change needs, which check reported it)."""
import json, glob, os
ROOT = os.path.dirname(os.path.dirname(os.path.abspath(__file__)))
rows = []
for p in sorted(glob.glob(os.path.join(ROOT, "seeded", "*", "meta.json"))):
    d = json.load(open(p))
    name = os.path.basename(os.path.dirname(p))
    det = []
    for pid, v in d.get("checks", {}).items():
        dd = d.get("checks_detail", {}).get(pid)
        how = ""
        if dd:
            parts = []
            if dd["failing_proof_obligations"]:
                parts.append("%d proof obligations fail" % dd["failing_proof_obligations"])
            if dd["undecided"]:
                parts.append("%d undecided/unsupported" % dd["undecided"])
            if dd["standin_failures"]:
                parts.append("stand-in: %d failing inputs" % dd["standin_failures"])
            how = " (" + "; ".join(parts) + ")" if parts else ""
        det.append("%s: %s%s" % (pid, "**reported**" if v.startswith("VIOLATION") else "not reported", how))
    c = d.get("confirmed", {})
    rows.append("| `%s` | %s | %s | %s | %s | %s |" % (name, d.get("property"), ", ".join(os.path.basename(f) for f in d.get("files", [])), d.get("summary", "").replace("|", "/")[:260], d.get("needs", "").replace("|", "/").replace("\n", " ")[:300], "<br>".join(det)))
print("""# Seeded changes

Property-breaking changes to citrusvanilla/tinyflux written by independent sub-agents. Each agent was given only the text of one
property and its own scratch git worktree of /repo (nothing from /verif); it had to keep the 149 existing tests passing and to
write a demonstration script that exits 1 with the change and 0 on the clean tree. I confirmed each in a fresh scratch worktree
(`tools/try_seed.sh`: demo on the clean tree, apply the patch, full test suite, demo again), then ran the listed checks against a
scratch copy of the package carrying the patch (`PYVC_REPO=<copy> ./check <ID>`); worktrees and copies are removed afterwards and
nothing was ever committed to /repo. Per directory: `patch.diff`, `demo.py`, `meta.json` (property, what it needs to manifest,
what was run, which checks reported a VIOLATION).

To re-run one by hand: `git -C /repo apply seeded/<name>/patch.diff && ./check <ID>; git -C /repo checkout -- .`

| change | written for | files | what it does | what it needs to manifest | checks run against it |
|---|---|---|---|---|---|""")
print("\n".join(rows))
n = len(rows)
missed = [r for r in rows if "**reported**" not in r]
print("\n%d changes; %d reported by at least one check." % (n, n - len(missed)))
