#!/bin/bash
cd "$(dirname "$0")/.."
tools/reseed.sh C01-latest-time-read-once
tools/reseed.sh C02-scan-remove-updates-index
tools/reseed.sh C03-unset-before-merge
tools/reseed.sh C04-append-without-seek-end
tools/reseed.sh C05-float-needs-dot
tools/reseed.sh C06-reset-keeps-positions
tools/reseed.sh C07-stale-tag-key-after-remove
tools/reseed.sh C08-callable-time-not-normalised
tools/reseed.sh C09-ne-on-none-value
tools/reseed.sh C10-get-timestamps-by-rank
tools/reseed.sh C11-batched-index-insert
tools/reseed.sh C12-replace-before-flush
tools/reseed.sh C13-fsync-error-swallowed
tools/reseed.sh C14-kwargs-checked-by-truthiness
tools/reseed.sh C15-noop-update-rewrites
tools/reseed.sh C16-append-without-seek-end
tools/reseed.sh C17-invert-hash-normalised
tools/reseed.sh C18-find-le-head-fastpath
tools/reseed.sh R2-C03-callable-gets-snapshot-dicts
tools/reseed.sh R2-C05-float-needs-dot-else-int
tools/reseed.sh R2-C07-reopen-drops-newline
tools/reseed.sh R2-C10-timestamps-time-sorted
tools/reseed.sh R2-C13-empty-index-not-invalidated
tools/reseed.sh R2-C14-kwargs-checked-by-truthiness
