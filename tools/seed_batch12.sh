#!/bin/bash
# round-5 changes (select, handle creation, close/reopen, storage iteration); primary check first, cheap secondary checks only
cd "$(dirname "$0")/.."
t() { tools/try_seed.sh "$@"; }
t /tmp/wt5-C04-out 1 R5-C04-close-truncates-at-read-position C04 C15
t /tmp/wt5-C04-out 2 R5-C04-prefix-replace-all C04 C05
t /tmp/wt5-C07-out 1 R5-C07-memory-read-returns-internal-list C07
t /tmp/wt5-C07-out 2 R5-C07-reopen-without-newline C07 C04
t /tmp/wt5-C10-out 1 R5-C10-select-filter-only-known-names C10
t /tmp/wt5-C10-out 2 R5-C10-handle-caches-index-object C10
t /tmp/wt5-C01-out 1 R5-C01-select-index-field-truthiness C01
t /tmp/wt5-C01-out 2 R5-C01-select-scan-raw-timestamp C01
