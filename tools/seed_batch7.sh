#!/bin/bash
# third round of sub-agent changes (outputs expected in /tmp/wt3-<ID>-out)
cd "$(dirname "$0")/.."
t() { tools/try_seed.sh "$@"; }
t /tmp/wt3-C16-out 2 R3-C16-cached-end-offset-stale-after-swap C16 C04
t /tmp/wt3-C16-out 1 R3-C16-insert-reindexes C16
t /tmp/wt3-C01-out 1 R3-C01-map-then-key-hashable C01 C17
t /tmp/wt3-C11-out 2 R3-C11-build-valid-reset-after-clear C11 C13
t /tmp/wt3-C02-out 2 R3-C02-exactness-checks-left-twice C02 C01
t /tmp/wt3-C06-out 1 R3-C06-update-tags-falsy-zero C06
t /tmp/wt3-C12-out 1 R3-C12-temp-file-ignores-encoding C12 C04
t /tmp/wt3-C02-out 1 R3-C02-remove-timestamps-by-rank C02 C06
t /tmp/wt3-C01-out 2 R3-C01-latest-time-read-once C01 C06
t /tmp/wt3-C11-out 1 R3-C11-merge-before-validate C11 C14
t /tmp/wt3-C12-out 2 R3-C12-reopen-drops-newline C12 C04
t /tmp/wt3-C06-out 2 R3-C06-latest-time-read-once C06
