#!/usr/bin/env python3
"""Rewrite the table of DESIGN.md 12.6 (between the seeds-table markers) from seeded/*/meta.json."""
import json, glob, os, re
ROOT = os.path.dirname(os.path.dirname(os.path.abspath(__file__)))
rows = []
for p in sorted(glob.glob(os.path.join(ROOT, "seeded", "*", "meta.json"))):
    d = json.load(open(p)); name = os.path.basename(os.path.dirname(p))
    det = []
    for pid, v in d.get("checks", {}).items():
        dd = d.get("checks_detail", {}).get(pid)
        how = ""
        if dd:
            how = " (proof %d%s, stand-in %d)" % (dd["failing_proof_obligations"], ", undecided %d" % dd["undecided"] if dd["undecided"] else "", dd["standin_failures"])
        det.append("%s %s%s" % (pid, "✔" if v.startswith("VIOL") else "–", how))
    rows.append("| `%s` | %s |" % (name, "; ".join(det)))
table = "| change | checks run against it |\n|---|---|\n" + "\n".join(rows) + "\n"
p = os.path.join(ROOT, "DESIGN.md")
s = open(p).read()
b, e = "<!-- seeds-table-begin -->\n", "<!-- seeds-table-end -->\n"
if b in s:
    i, j = s.index(b) + len(b), s.index(e)
    s = s[:i] + table + s[j:]
else:
    i = s.index("| change | checks run against it |")
    j = s.index("\n\n", i) + 1
    s = s[:i] + b + table + e + s[j:]
open(p, "w").write(s)
print(len(rows), "rows")
