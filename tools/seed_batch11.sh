#!/bin/bash
# round-4 changes whose primary check did not report them in batch 10, after strengthening
cd "$(dirname "$0")/.."
t() { tools/try_seed.sh "$@"; }
t /tmp/wt4-C17-out 2 R4-C17-equality-by-hash-value C17
t /tmp/wt4-C15-out 2 R4-C15-remove-fields-tuple-filter C15 C06
t /tmp/wt4-C04-out 1 R4-C04-index-update-drops-unchanged-rows C04 C03
t /tmp/wt4-C04-out 2 R4-C04-newline-or-none C04 C05
t /tmp/wt4-C08-out 2 R4-C08-get-timestamps-scan-astimezone C08 C07
