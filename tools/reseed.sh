#!/bin/bash
# tools/reseed.sh <name> : re-run an archived seeded change (seeded/<name>/) against the current /repo HEAD and the current machinery
ROOT="$(cd "$(dirname "$0")/.." && pwd)"
name="$1"
d="$ROOT/seeded/$name"
tmp=$(mktemp -d /tmp/reseed-XXXX)
cp "$d/patch.diff" "$tmp/patch_1.diff"; cp "$d/demo.py" "$tmp/demo_1.py"
python3 - "$d/meta.json" "$tmp/meta_1.json" <<'PY'
import json, sys
m = json.load(open(sys.argv[1]))
for k in ("confirmed", "checks", "checks_detail"):
    if k in m:
        m.setdefault("earlier_runs", []).append({k: m.pop(k)})
json.dump(m, open(sys.argv[2], "w"), indent=1)
PY
props=$(python3 -c "import json; print(' '.join(json.load(open('$d/meta.json')).get('checks', {}).keys()))")
"$ROOT/tools/try_seed.sh" "$tmp" 1 "$name" $props
rm -rf "$tmp"
