#!/usr/bin/env python3
"""Markdown coverage table from the evidence files of the last runs (for DESIGN.md 12.4)."""
import json, glob, os
ROOT = os.path.dirname(os.path.dirname(os.path.abspath(__file__)))
rows = []
for p in sorted(glob.glob(os.path.join(ROOT, "evidence", "C*.json"))):
    d = json.load(open(p))
    c = d["coverage"]
    fns = c.get("functions_under_contract", [])
    nob = sum((f.get("obligations") or 0) for f in fns)
    names = [f["function"].replace("tinyflux.", "") for f in fns]
    st = c.get("bounded_standin") or {}
    rows.append("| %s | %d | %d | %s | %s | %.0f |" % (d["property_id"], len(fns), nob, ", ".join("`%s`" % n for n in names), st.get("evaluations", "-"), d.get("wall_s", 0)))
print("| id | functions / lemmas | obligations | under contract | stand-in evaluations | wall s |\n|---|---|---|---|---|---|")
print("\n".join(rows))
