#!/bin/bash
# round-2 changes missed in batch 5, after strengthening (write-fault edges, astimezone on Any values, stand-in alphabets)
cd "$(dirname "$0")/.."
t() { tools/try_seed.sh "$@"; }
t /tmp/wt2-C13-out 1 R2-C13-empty-index-not-invalidated C13 C06
t /tmp/wt2-C03-out 1 R2-C03-callable-gets-snapshot-dicts C03
t /tmp/wt2-C03-out 2 R2-C03-callable-time-not-normalised C03 C08
t /tmp/wt2-C07-out 2 R2-C07-reopen-drops-newline C07 C04
