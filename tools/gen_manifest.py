#!/usr/bin/env python3
"""Regenerate MANIFEST.json from the table below (keeps it valid at all times)."""
import json, os, sys
ROOT = os.path.dirname(os.path.dirname(os.path.abspath(__file__)))
sys.path.insert(0, ROOT)
from tools.manifest_table import CHECKS, NOT_APPLICABLE, NOTES

ids = [json.loads(l)["id"] for l in open(os.path.join(ROOT, "properties.jsonl"))]
checks = []
for pid in ids:
    if pid not in CHECKS:
        continue
    c = CHECKS[pid]
    checks.append(dict(
        property_id=pid,
        quick_cmd="./check %s --tier quick" % pid,
        thorough_cmd="./check %s --tier thorough" % pid,
        evidence_file="evidence/%s.json" % pid,
        replay_cmd_template="./check %s --replay {path}" % pid,
        engine="pyvc",
        level_claimed=dict(category=c["category"], text=c["text"], design_ref=c.get("design_ref", "DESIGN.md 5")),
        level_note=c["note"],
        technique=c["technique"],
    ))
na = [dict(property_id=p, reason=NOT_APPLICABLE[p]) for p in ids if p not in CHECKS]
missing = [p for p in ids if p not in CHECKS and p not in NOT_APPLICABLE]
assert not missing, missing
m = dict(
    version=1,
    setup_cmd="python3-vt -c \"import z3, cvc5; print('z3', z3.get_version_string())\" && /venv/bin/python -c \"import sys; sys.path.insert(0, '/repo'); import tinyflux; print('tinyflux ok')\" && mkdir -p evidence replays",
    hooks=dict(guard="TINYFLUX_VERIF", enable="none needed: contracts are sidecars under /verif/contracts; the checks read /repo's sources with ast on every run and run the real code unmodified",
               baseline_off_cmd="cd /repo && /venv/bin/python -m pytest -q -p no:cacheprovider", source_commits=[], add_only=True),
    engines=[dict(name="pyvc", path="pyvc/", serves_properties=sorted(CHECKS), kind_free_text="self-built deductive verifier: symbolic execution of the real Python AST of /repo against sidecar contracts (requires/ensures/raises/frames/loop invariants), modular calls, obligations discharged by z3 5.1 with cvc5 fallback; bounded stand-ins run the real code under /venv/bin/python")],
    checks=checks,
    notes=NOTES,
    not_applicable=na,
)
json.dump(m, open(os.path.join(ROOT, "MANIFEST.json"), "w"), indent=1)
print("MANIFEST.json: %d checks, %d not_applicable" % (len(checks), len(na)))
