#!/bin/bash
# seeds that were missed (or miscounted) in batch 3, after strengthening
cd "$(dirname "$0")/.."
t() { tools/try_seed.sh "$@"; }
t /tmp/wt-C08-out 2 C08-index-rhs-replace-tz C08 C01
t /tmp/wt-C12-out 1 C12-replace-before-flush C12
t /tmp/wt-C12-out 2 C12-shutil-move-cross-fs C12
t /tmp/wt-C15-out 1 C15-noop-update-rewrites C15 C03
t /tmp/wt-C17-out 1 C17-or-is-hashable-uncalled C17
t /tmp/wt-C11-out 2 C11-stale-temp-memory C11 C15
