#!/bin/bash
# second round of sub-agent changes (outputs expected in /tmp/wt2-<ID>-out)
cd "$(dirname "$0")/.."
t() { tools/try_seed.sh "$@"; }
t /tmp/wt2-C13-out 1 R2-C13-empty-index-not-invalidated C13 C06
t /tmp/wt2-C13-out 2 R2-C13-reset-index-before-storage C13
t /tmp/wt2-C07-out 1 R2-C07-trailing-survivors-not-renumbered C07 C02
t /tmp/wt2-C03-out 1 R2-C03-callable-gets-snapshot-dicts C03
t /tmp/wt2-C03-out 2 R2-C03-callable-time-not-normalised C03 C08
t /tmp/wt2-C05-out 2 R2-C05-float-needs-dot-else-int C05
t /tmp/wt2-C05-out 1 R2-C05-reopen-drops-newline C05
t /tmp/wt2-C07-out 2 R2-C07-reopen-drops-newline C07 C04
t /tmp/wt2-C14-out 1 R2-C14-merge-before-validate C14
t /tmp/wt2-C14-out 2 R2-C14-kwargs-checked-by-truthiness C14
t /tmp/wt2-C10-out 1 R2-C10-timestamps-time-sorted C10 C07
t /tmp/wt2-C10-out 2 R2-C10-update-measurements-falsy-zero C10 C06
