"""Discharging obligations: z3 (python API) first, cvc5 for what z3 leaves open."""

import os
import subprocess
import tempfile
import time
import z3

CVC5 = "/usr/bin/cvc5"


def _z3_check(hyps, goal, timeout_ms, mbqi, seed=0):
    s = z3.Solver()
    s.set("timeout", int(timeout_ms))
    if not mbqi:
        s.set("smt.mbqi", False)
        s.set("smt.auto_config", False)
    if seed:
        s.set("random_seed", int(seed) % 1000)
    for h in hyps:
        s.add(h)
    s.add(z3.Not(goal))
    t0 = time.time()
    r = s.check()
    dt = time.time() - t0
    return s, r, dt


def _cvc5_check(smt2, timeout_ms, strings=False):
    with tempfile.NamedTemporaryFile("w", suffix=".smt2", delete=False, dir=os.environ.get("PYVC_TMP")) as f:
        f.write("(set-logic ALL)\n" + smt2 + "\n")
        path = f.name
    try:
        args = [CVC5, "--tlimit=%d" % timeout_ms, "--lang=smt2"]
        if strings:
            args += ["--strings-exp"]
        args += ["--enum-inst", path] if not strings else [path]
        t0 = time.time()
        p = subprocess.run(args, capture_output=True, text=True, timeout=timeout_ms / 1000 + 5)
        out = (p.stdout or "").strip().splitlines()
        res = out[0] if out else "unknown"
        return res, time.time() - t0, (p.stderr or "")[:300]
    except subprocess.TimeoutExpired:
        return "unknown", timeout_ms / 1000, "timeout"
    finally:
        try:
            os.unlink(path)
        except OSError:
            pass


def discharge(ob, timeout_ms=10000, seed=0, use_cvc5=True, strings=False, on_model=None):
    """-> dict(name, result in {unsat, sat, unknown}, backend, seconds, model?)"""
    rec = dict(name=ob.name, kind=ob.kind)
    total = 0.0
    # attempt 1: z3, E-matching only (fast refutations of the negated goal)
    s, r, dt = _z3_check(ob.hyps, ob.goal, min(timeout_ms, 3000), mbqi=False, seed=seed)
    total += dt
    if r == z3.unsat:
        rec.update(result="unsat", backend="z3", seconds=round(total, 3))
        return rec
    reason = ""
    smt2 = None
    # attempt 2: cvc5 (enumerative instantiation) with a short budget
    if use_cvc5 and os.path.exists(CVC5):
        try:
            smt2 = s.to_smt2()
            res, dt, err = _cvc5_check(smt2, min(timeout_ms, 5000), strings=strings)
            total += dt
            if res == "unsat":
                rec.update(result="unsat", backend="cvc5", seconds=round(total, 3))
                return rec
            reason += "cvc5: %s %s" % (res, err)
        except Exception as e:
            reason += "cvc5 error: %s" % e
    # attempt 3: z3 default configuration (mbqi on), full budget; models come from here
    s, r, dt = _z3_check(ob.hyps, ob.goal, timeout_ms, mbqi=True, seed=seed)
    total += dt
    if r == z3.unsat:
        rec.update(result="unsat", backend="z3", seconds=round(total, 3))
        return rec
    if r == z3.sat:
        try:
            rec["model"] = model_to_dict(s.model())
            if on_model is not None:
                rec["inputs"] = on_model(s.model())
        except Exception as e:  # pragma: no cover
            rec["model"] = {"error": str(e)}
        rec.update(result="sat", backend="z3", seconds=round(total, 3))
        return rec
    reason = "z3: " + s.reason_unknown() + " | " + reason
    # attempt 4: cvc5 with the full budget
    if use_cvc5 and smt2 is not None and timeout_ms > 5000:
        res, dt, err = _cvc5_check(smt2, timeout_ms, strings=strings)
        total += dt
        if res == "unsat":
            rec.update(result="unsat", backend="cvc5", seconds=round(total, 3))
            return rec
        if res == "sat":
            rec.update(result="sat", backend="cvc5", seconds=round(total, 3), model={})
            return rec
    rec.update(result="unknown", backend="z3+cvc5" if use_cvc5 else "z3", seconds=round(total, 3), reason=reason)
    return rec


def model_to_dict(m):
    out = {}
    for d in m.decls():
        try:
            out[d.name()] = str(m[d])[:400]
        except Exception:
            pass
    return out


def canary(pc, timeout_ms=1500):
    """Is the path condition refutable?  unsat => the path is unreachable."""
    s = z3.Solver()
    s.set("timeout", int(timeout_ms))
    s.set("smt.mbqi", False)
    s.set("smt.auto_config", False)
    for h in pc:
        s.add(h)
    r = s.check()
    return "unreachable" if r == z3.unsat else "open"
