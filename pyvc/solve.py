"""Discharging obligations: z3 (python API) first, cvc5 for what z3 leaves open."""

import os
import subprocess
import tempfile
import time
import z3

CVC5 = "/usr/bin/cvc5"


def _z3_check(hyps, goal, timeout_ms, mbqi, seed=0):
    s = z3.Solver()
    s.set("timeout", int(timeout_ms))
    if not mbqi:
        s.set("smt.mbqi", False)
        s.set("smt.auto_config", False)
    if seed:
        s.set("random_seed", int(seed) % 1000)
    for h in hyps:
        s.add(h)
    s.add(z3.Not(goal))
    t0 = time.time()
    r = s.check()
    dt = time.time() - t0
    return s, r, dt


def _cvc5_check(smt2, timeout_ms, strings=False):
    with tempfile.NamedTemporaryFile("w", suffix=".smt2", delete=False, dir=os.environ.get("PYVC_TMP")) as f:
        f.write("(set-logic ALL)\n" + smt2 + "\n")
        path = f.name
    try:
        args = [CVC5, "--tlimit=%d" % timeout_ms, "--lang=smt2"]
        if strings:
            args += ["--strings-exp"]
        args += ["--enum-inst", path] if not strings else [path]
        t0 = time.time()
        p = subprocess.run(args, capture_output=True, text=True, timeout=timeout_ms / 1000 + 5)
        out = (p.stdout or "").strip().splitlines()
        res = out[0] if out else "unknown"
        return res, time.time() - t0, (p.stderr or "")[:300]
    except subprocess.TimeoutExpired:
        return "unknown", timeout_ms / 1000, "timeout"
    finally:
        try:
            os.unlink(path)
        except OSError:
            pass


def isolated(fn, fallback):
    """Run fn() in a forked child and return its (picklable) result; if the child dies (solver segfault) return fallback()."""
    import pickle

    r, w = os.pipe()
    pid = os.fork()
    if pid == 0:
        code = 1
        try:
            os.close(r)
            data = pickle.dumps(fn())
            with os.fdopen(w, "wb") as f:
                f.write(data)
            code = 0
        finally:
            os._exit(code)
    os.close(w)
    with os.fdopen(r, "rb") as f:
        data = f.read()
    _, status = os.waitpid(pid, 0)
    if status == 0 and data:
        try:
            return pickle.loads(data)
        except Exception:
            pass
    return fallback()


def discharge(ob, timeout_ms=10000, seed=0, use_cvc5=True, strings=False, on_model=None, _inner=False):
    """-> dict(name, result in {unsat, sat, unknown}, backend, seconds, model?)

    Portfolio (quantified VCs are sensitive to the solver's search order, so several
    short attempts are more stable than one long one):
      1 z3 E-matching only   2 z3 mbqi (seed a)   3 cvc5 short
      4 z3 mbqi (seeds b, c)   5 cvc5 full budget
    Only `unsat` discharges; `sat` is accepted from the mbqi attempts (models).
    """
    if strings and not _inner:
        # z3 5.1's sequence solver occasionally segfaults: string obligations are decided in a child process; if it dies, cvc5 alone decides
        def crashed():
            rec = dict(name=ob.name, kind=ob.kind, result="unknown", backend="cvc5", seconds=0.0, reason="z3 process crashed on this obligation")
            try:
                sv = z3.Solver()
                for h in ob.hyps:
                    sv.add(h)
                sv.add(z3.Not(ob.goal))
                res, dt, err = _cvc5_check(sv.to_smt2(), timeout_ms, strings=True)
                rec.update(result=res if res in ("unsat", "sat") else "unknown", seconds=round(dt, 3))
                if rec["result"] == "unknown":
                    rec["reason"] += " | cvc5: %s %s" % (res, err.strip()[:120])
            except Exception as e:
                rec["reason"] += " | cvc5 error: %s" % e
            return rec

        return isolated(lambda: discharge(ob, timeout_ms, seed, use_cvc5, strings, on_model, _inner=True), crashed)
    rec = dict(name=ob.name, kind=ob.kind)
    total = 0.0
    reasons = []
    state = {"smt2": None}

    def done(result, backend, **kw):
        rec.update(result=result, backend=backend, seconds=round(total, 3), **kw)
        return rec

    def z3_try(ms, mbqi, sd):
        nonlocal total
        s, r, dt = _z3_check(ob.hyps, ob.goal, ms, mbqi=mbqi, seed=sd)
        total += dt
        if state["smt2"] is None:
            try:
                state["smt2"] = s.to_smt2()
            except Exception:
                state["smt2"] = ""
        if r == z3.sat and mbqi:
            try:
                rec["model"] = model_to_dict(s.model())
                if on_model is not None:
                    rec["inputs"] = on_model(s.model())
            except Exception as e:  # pragma: no cover
                rec["model"] = {"error": str(e)}
        if r == z3.unknown:
            reasons.append("z3(%s,seed=%d): %s" % ("mbqi" if mbqi else "ematch", sd, s.reason_unknown()))
        return r

    def cvc5_try(ms):
        nonlocal total
        if not (use_cvc5 and os.path.exists(CVC5) and state["smt2"]):
            return "unknown"
        try:
            res, dt, err = _cvc5_check(state["smt2"], ms, strings=strings)
        except Exception as e:
            reasons.append("cvc5 error: %s" % e)
            return "unknown"
        total += dt
        if res not in ("unsat", "sat"):
            reasons.append("cvc5: %s %s" % (res, err.strip()[:120]))
        return res

    slice_ms = max(2000, timeout_ms // 3)
    if z3_try(min(timeout_ms, 3000), False, seed) == z3.unsat:
        return done("unsat", "z3")
    r = z3_try(slice_ms, True, seed)
    if r == z3.unsat:
        return done("unsat", "z3")
    if r == z3.sat:
        return done("sat", "z3")
    if cvc5_try(min(timeout_ms, 5000)) == "unsat":
        return done("unsat", "cvc5")
    for sd in (seed + 17, seed + 4242):
        r = z3_try(slice_ms, True, sd)
        if r == z3.unsat:
            return done("unsat", "z3")
        if r == z3.sat:
            return done("sat", "z3")
    if timeout_ms > 5000:
        res = cvc5_try(timeout_ms)
        if res == "unsat":
            return done("unsat", "cvc5")
        if res == "sat":
            return done("sat", "cvc5", model={})
    # last resort for a goal of the form  forall x. A(x) == B(x)  over Booleans: the two implications separately (their conjunction is the goal)
    halves = _split_iff(ob.goal)
    if halves is not None:
        ok = True
        for half in halves:
            s, r, dt = _z3_check(ob.hyps, half, timeout_ms, mbqi=True, seed=seed)
            total += dt
            if r != z3.unsat:
                ok = False
                reasons.append("split half: %s" % (s.reason_unknown() if r == z3.unknown else "sat"))
                break
        if ok:
            return done("unsat", "z3", split=True)
    return done("unknown", "z3+cvc5" if use_cvc5 else "z3", reason=" | ".join(reasons)[:600])


def _split_iff(goal):
    """forall xs. A == B (Bool)  ->  [forall xs. A => B, forall xs. B => A]; None for any other shape"""
    try:
        if not (z3.is_quantifier(goal) and goal.is_forall()):
            return None
        body = goal.body()
        if not (z3.is_eq(body) and z3.is_bool(body.arg(0))):
            return None
        n = goal.num_vars()
        vs = [z3.Const("split_%s_%d" % (goal.var_name(i), i), goal.var_sort(i)) for i in range(n)]
        inst = z3.substitute_vars(body, *reversed(vs))
        a, b = inst.arg(0), inst.arg(1)
        # the bound variables become fresh constants: proving the instance for arbitrary constants proves the universal statement
        return [z3.Implies(a, b), z3.Implies(b, a)]
    except Exception:
        return None


def model_to_dict(m):
    out = {}
    for d in m.decls():
        try:
            out[d.name()] = str(m[d])[:400]
        except Exception:
            pass
    return out


def canary(pc, timeout_ms=1500, strings=False):
    """Is the path condition refutable?  unsat => the path is unreachable."""
    if strings:
        return isolated(lambda: canary(pc, timeout_ms), lambda: "open")
    s = z3.Solver()
    s.set("timeout", int(timeout_ms))
    s.set("smt.mbqi", False)
    s.set("smt.auto_config", False)
    for h in pc:
        s.add(h)
    r = s.check()
    return "unreachable" if r == z3.unsat else "open"
