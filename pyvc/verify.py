"""Function-level driver: one function against its contract -> obligations."""

import ast
import time
import traceback
import z3
from .core import *  # noqa
from .state import State, Outcome, Obligation
from . import spec as S
from . import front
from .expr import ExprMixin
from .calls import CallMixin
from .stmt import StmtMixin


class Exec(ExprMixin, CallMixin, StmtMixin):
    # extension points filled by the prelude / sidecar models
    truthy_handlers = {}
    coercions = {}
    attr_handlers = {}
    cmp_handlers = {}
    eq_handlers = {}
    isnone_handlers = {}
    contains_handlers = {}
    binop_handlers = {}
    index_handlers = {}
    slice_handlers = {}
    call_handlers = {}
    method_handlers = {}
    len_handlers = {}
    setof_handlers = {}
    listof_handlers = {}
    isinstance_handlers = {}
    iter_handlers = {}
    sortedof_handlers = {}
    sortkey_handlers = {}
    delitem_handlers = {}
    getattr_dyn_handlers = {}
    hash_handlers = {}
    hasattr_handlers = {}
    tupleof_handlers = {}
    fstring_handler = None
    conv_handlers = {}
    empty_handlers = {}
    global_values = {}
    global_calls = {}
    type_aliases = {}

    def __init__(self, con, mod, fn):
        self.con = con
        self.mod = mod
        self.fn = fn
        self.obligations = []
        self.pruned = []
        self.used_contracts = set()
        self.str_literals = set()
        self.string_mode = getattr(con, "string_mode", False)
        self.type_aliases = dict(Exec.type_aliases, **getattr(con, "type_aliases", {}))
        self.closures = {}
        self.local_names = {a.arg for a in fn.args.args} | {n.id for n in ast.walk(fn) if isinstance(n, ast.Name) and isinstance(n.ctx, ast.Store)}
        self.param_objs = set()
        self.root_call = None
        self.pending_effect = None
        self.effect_pre_state = None
        self.stmt_count = 0
        self.last_filter = None
        self.lemma_instances = set()
        self.inlined = []
        self.ghost_hooks = {}
        self.join_hooks = {}
        self.loop_text_seen = {}
        self.last_sort = None
        self._ctx_init()
        self.number_nodes(fn)

    def emit(self, ob):
        self.obligations.append(ob)

    def run_function(self):
        con = self.con
        st = State()
        cf = self.classes_fields()
        argnames = [a.arg for a in self.fn.args.args] + [a.arg for a in self.fn.args.kwonlyargs]
        if self.fn.args.vararg is not None and self.fn.args.vararg.arg in con.params:
            argnames.append(self.fn.args.vararg.arg)  # *args modelled as one opaque tuple value
        if self.fn.args.kwarg is not None and self.fn.args.kwarg.arg in con.params:
            argnames.append(self.fn.args.kwarg.arg)  # **kwargs modelled as a dict value
        for n in con.params:
            if n not in argnames and not n.startswith("_ghost"):
                raise Unsupported("contract parameter %s is not a parameter of %s" % (n, con.qualname), self.fn)
        for n in argnames:
            if n not in con.params:
                raise Unsupported("parameter %s of %s has no sort in the contract" % (n, con.qualname), self.fn)
        if self.fn.args.kwarg is not None and self.fn.args.kwarg.arg in con.params:
            st.owned.add(self.fn.args.kwarg.arg)  # the **kwargs dict is created for this call: nobody else can reach it
        for n, ty in con.params.items():
            st.env[n] = fresh(ty, n, cf)
            for f in wf(st.env[n]):
                st.assume(f)
            if isinstance(ty, TObj):
                self.param_objs.add(n)
        for n, ty in getattr(con, "free_vars", {}).items():
            # variables a closure captures from its defining scope
            st.env[n] = fresh(ty, n, cf)
            for f in wf(st.env[n]):
                st.assume(f)
            if isinstance(ty, TObj):
                self.param_objs.add(n)
        if (self.fn.args.vararg and self.fn.args.vararg.arg not in con.params) or (self.fn.args.kwarg and self.fn.args.kwarg.arg not in con.params):
            if not getattr(con, "ignore_varargs", False):
                raise Unsupported("*args/**kwargs", self.fn)
        pre_env = dict(st.env)
        self.old_ctx = S.Ctx(pre_env)
        self.req_labels = []
        for label, f in con.requires(self.old_ctx):
            st.assume(f)
            self.req_labels.append(label)
        # ghost definitions: fresh constants with definitional facts (conservative extensions)
        if hasattr(con, "ghost_defs"):
            for name, (val, facts) in con.ghost_defs(self.old_ctx).items():
                st.env[name] = val
                pre_env[name] = val
                for f in facts:
                    st.assume(f)
        self.pre_pc = list(st.pc)
        body = self.inline_decorators(front.strip_docstring(self.fn.body))
        self.install_ghost_hooks(body)
        if getattr(con, "ghost_init", None):
            ginit = ast.parse(con.ghost_init).body
            body = ginit + body
        self.is_generator = any(isinstance(n_, (ast.Yield, ast.YieldFrom)) for n_ in ast.walk(ast.Module(body=body, type_ignores=[])))
        if self.is_generator:
            # a generator function is read as the list of what it yields, in order (A-gen: its consumer does not interleave other effects);
            # `yield x` appends to the ghost list _yielded, falling off the end returns it
            if not isinstance(con.ret, TList):
                raise Unsupported("generator function: the contract must give the list type of the yielded values", self.fn)
            st.env["_yielded"] = self.empty_of(con.ret)
            st.owned.add("_yielded")
        self.number_nodes(ast.Module(body=body, type_ignores=[]))
        outs = self.exec_block(body, st)
        self.exits = []
        for o in outs:
            if self.is_generator and o.kind in ("normal", "return"):
                o = Outcome("return", o.st, val=o.st.env["_yielded"])
            self.finish(o, pre_env)
        extra = list(S.GLOBAL_AXIOMS)
        for th in self.con.theories:
            extra += S.THEORIES[th]
        for ob in self.obligations:
            ob.hyps.extend(extra)
        # abstract string literals met in this function are pairwise distinct
        lits = sorted(self.str_literals)
        if len(lits) > 1 or (lits and "" not in lits):
            terms = [str_const(x) for x in lits]
            if "" not in lits:
                terms.append(EMPTY_STR)
            d = z3.Distinct(*terms)
            for ob in self.obligations:
                ob.hyps.append(d)
        return self.obligations

    WRAPPERS = ("read_op", "write_op", "append_op", "temp_storage_op")

    def inline_decorators(self, body):
        """Splice the real `op` wrapper bodies of the repository's decorators around the method body."""
        from .stmt import Inline
        import copy

        decs = [d for d in front.decorators(self.fn) if d in self.WRAPPERS]
        for d in reversed(decs):  # innermost decorator first
            wrapper = self.mod.functions.get("%s.<locals>.op" % d)
            if wrapper is None:
                raise Unsupported("decorator %s: wrapper `op` not found" % d, self.fn)
            wbody = copy.deepcopy(front.strip_docstring(wrapper.body))
            self.inlined.append("%s.%s.<locals>.op (wrapper of @%s, fingerprint %s)" % (self.mod.name, d, d, front.fingerprint(wrapper)))
            inner = body
            hit = [0]

            def is_method_call(v):
                return isinstance(v, ast.Call) and isinstance(v.func, ast.Name) and v.func.id == "method"

            def splice(stmts):
                out = []
                for s_ in stmts:
                    if isinstance(s_, ast.Return) and is_method_call(s_.value):
                        hit[0] += 1
                        out.extend(inner)
                    elif isinstance(s_, ast.Assign) and is_method_call(s_.value) and isinstance(s_.targets[0], ast.Name):
                        hit[0] += 1
                        out.append(Inline(inner, s_.targets[0].id))
                    else:
                        for fld in ("body", "orelse", "finalbody"):
                            if getattr(s_, fld, None):
                                setattr(s_, fld, splice(getattr(s_, fld)))
                        for h in getattr(s_, "handlers", []) or []:
                            h.body = splice(h.body)
                        out.append(s_)
                return out

            body = splice(wbody)
            if hit[0] != 1:
                raise Unsupported("decorator %s: expected exactly one call of the wrapped method, found %d" % (d, hit[0]), wrapper)
        return body

    def finish(self, o, pre_env):
        con = self.con
        st = o.st
        q = con.qualname
        if o.kind in ("break", "continue"):
            raise Unsupported("break/continue outside loop", self.fn)
        if o.kind in ("normal", "return"):
            val = o.val if o.kind == "return" and o.val is not None else NONE
            self.hz = []
            try:
                if isinstance(con.ret, TObj) or isinstance(val.ty, TObj):
                    res = val
                else:
                    res = self.coerce(val, con.ret, self.fn, "return value") if con.ret != TNone or val.ty != TNone else NONE
            except Unsupported as e:
                raise
            pc = list(st.pc)
            for h in self.hz:
                self.emit(Obligation("%s/%s/return-type[%s]" % (q, st.pathname(), h.what), pc, h.safe, kind="safety"))
                pc.append(h.safe)
            if hasattr(con, "ghost_exit"):
                # ghost (model) fields are assigned by the sidecar at normal exit
                gctx = S.Ctx(st.env, old=self.old_ctx, result=res, loops=st.loops)
                recv = next(iter(con.params))
                rec = dict(st.env[recv].t)
                for a, v in con.ghost_exit(gctx).items():
                    rec[a] = v
                st.env[recv] = Val(st.env[recv].ty, rec)
            ctx = S.Ctx(st.env, old=self.old_ctx, result=res, loops=st.loops, extra={"ex": self, "path": st.path, "ghost": st.ghost})
            if hasattr(con, "witness"):
                ctx._extra["wit"] = con.witness(ctx)
            if hasattr(con, "lemmas"):
                for label, f in con.lemmas(ctx):
                    pc.append(f)
                    self.lemma_instances.add(label)
            for label, f in con.ensures(ctx):
                self.emit(Obligation("%s/%s/ensures[%s]" % (q, st.pathname(), label), pc, f, kind="ensures"))
            for kind, fn in con.raises.items():
                spec = fn(self.old_ctx)
                if spec is not None and spec.get("exact", True):
                    self.emit(Obligation("%s/%s/ensures[returns-only-when-not-raising:%s]" % (q, st.pathname(), kind), pc, z3.Not(spec["when"]), kind="ensures"))
            self.frame(st, pre_env, pc, "ensures")
            self.exits.append(("return", st.pathname(), pc))
            return
        # raise
        kind = o.exc
        h = o.val
        what = getattr(h, "what", "") or ""
        if kind in con.raises and con.raises[kind](self.old_ctx) is not None:
            spec = con.raises[kind](self.old_ctx)
            self.emit(Obligation("%s/%s/raises[%s]:allowed" % (q, st.pathname(), kind), st.pc, spec["when"], kind="raises"))
            if "ensures" in spec:
                ctx = S.Ctx(st.env, old=self.old_ctx, result=None, loops=st.loops)
                for label, f in spec["ensures"](ctx):
                    self.emit(Obligation("%s/%s/raises[%s]:ensures[%s]" % (q, st.pathname(), kind, label), st.pc, f, kind="raises"))
            self.exits.append(("raise:" + kind, st.pathname(), st.pc))
            return
        label = {"Requires": "requires", "LoopInv": "loopinv"}.get(kind, "no-raise")
        self.emit(Obligation("%s/%s/%s[%s%s]" % (q, st.pathname(), label, kind if label == "no-raise" else "", (":" + what) if what else ""),
                             st.pc, z3.BoolVal(False), kind="safety" if label == "no-raise" else "requires"))

    def frame(self, st, pre_env, pc, when):
        con = self.con
        for n, ty in con.params.items():
            if not isinstance(ty, TObj) or n not in st.env:
                continue
            old, new = pre_env[n], st.env[n]
            for a in old.t:
                if a in con.modifies:
                    continue
                self.frame_attr("%s.%s" % (n, a), old.t[a], new.t[a], st, pc)

    def frame_attr(self, name, old, new, st, pc):
        if old is new:
            return
        if isinstance(old.ty, TObj):
            for a in old.t:
                self.frame_attr(name + "." + a, old.t[a], new.t[a], st, pc)
            return
        if old.t is new.t or old.t.eq(new.t):
            return
        self.emit(Obligation("%s/%s/frame[%s]" % (self.con.qualname, st.pathname(), name), pc, old.t == new.t, kind="frame"))


def verify_function(qualname):
    """Symbolically execute one function; returns (exec, obligations) or raises Unsupported."""
    con = S.REGISTRY[qualname]
    mod, fn = front.find_function(getattr(con, "source", qualname))
    ex = Exec(con, mod, fn)
    obs = ex.run_function()
    return ex, obs
