"""Statement execution: paths, exception edges, loops cut at invariants."""

import ast
import z3
from .core import *  # noqa
from .state import State, Outcome, Hazard, Obligation
from . import spec as S
from .expr import MUTATORS

UNCATCHABLE = {"Requires", "LoopInv", "Decreases", "Unsupported", "InvalidValueStored"}

EXC_PARENTS = {
    "KeyError": ["LookupError", "Exception"],
    "IndexError": ["LookupError", "Exception"],
    "ValueError": ["Exception"],
    "UnicodeError": ["ValueError", "Exception"],
    "TypeError": ["Exception"],
    "AttributeError": ["Exception"],
    "AssertionError": ["Exception"],
    "RuntimeError": ["Exception"],
    "OSError": ["IOError", "Exception"],
    "IOError": ["OSError", "Exception"],
    "OverflowError": ["ArithmeticError", "Exception"],
    "UserError": ["Exception"],
}


def exc_matches(kind, handler_names):
    if kind in UNCATCHABLE:
        return False
    if handler_names is None:
        return True
    return any(h == kind or h in EXC_PARENTS.get(kind, ["Exception"]) for h in handler_names)


class Inline(ast.stmt):
    """Synthetic statement: run `body` (a spliced callee body); its `return v`
    outcomes become normal completion with `target` bound to v."""
    _fields = ("body",)

    def __init__(self, body, target):
        self.body = body
        self.target = target
        self.lineno = getattr(body[0], "lineno", 0) if body else 0
        self.col_offset = 0


class StmtMixin:
    # ----------------------------------------------------------- plumbing
    def run(self, st, fn, node):
        """Evaluate fn(st); turn the hazards it met into raise outcomes."""
        self.hz = []
        self.pending_effect = None
        self.cur_state = st
        v = fn(st)
        self.cur_state = None
        outs = []
        prior = []
        so = self.ordinal(node)
        for i, h in enumerate(self.hz):
            rs = (h.state if h.state is not None else st).fork()
            if h.state is None and h.pc_len is not None:
                # facts learnt after the hazard point (e.g. the postcondition of the very call whose
                # precondition is in question) must not be assumed on the failing edge
                rs.pc = rs.pc[: h.pc_len]
            for p in prior:
                rs.assume(p)
            rs.assume(z3.Not(h.safe))
            rs.tag("%s@%s.%d" % (h.kind, so, i))
            outs.append(Outcome("raise", rs, exc=h.kind, val=h))
            if not h.may:
                prior.append(h.safe)
        for p in prior:
            st.assume(p)
        self.hz = []
        return v, outs

    def ordinal(self, node):
        return self.ordinals.get(id(node), "s?")

    def number_nodes(self, fn):
        counts = {}
        self.ordinals = {}
        for n in ast.walk(fn):
            if isinstance(n, ast.stmt):
                k = type(n).__name__.lower()
                counts[k] = counts.get(k, 0) + 1
                self.ordinals[id(n)] = "%s%d" % (k, counts[k] - 1)
        self.loop_ordinals = {}
        k = 0
        for n in ast.walk(fn):
            if isinstance(n, (ast.For, ast.While)):
                self.loop_ordinals[id(n)] = k
                k += 1

    def feasible(self, st, ms=300):
        s = z3.Solver()
        s.set("timeout", ms)
        s.add(*st.pc)
        r = s.check()
        return r != z3.unsat

    # ------------------------------------------------------------- blocks
    def exec_block(self, stmts, st):
        live = [st]
        done = []
        for s in stmts:
            nxt = []
            for cur in live:
                for o in self.exec_stmt(s, cur):
                    if o.kind == "normal":
                        nxt.append(o.st)
                    else:
                        done.append(o)
            live = nxt
            if not live:
                break
        return done + [Outcome("normal", s_) for s_ in live]

    def exec_stmt(self, s, st):
        m = getattr(self, "s_" + type(s).__name__, None)
        if m is None:
            raise Unsupported("statement %s" % type(s).__name__, s)
        self.stmt_count += 1
        join = self.join_hooks.get(id(s))
        if join is not None:
            return self.exec_joined(s, st, m, join)
        outs = m(s, st)
        ghost = self.ghost_hooks.get(id(s))
        if ghost:
            res = []
            for o in outs:
                if o.kind != "normal":
                    res.append(o)
                    continue
                for g in self.exec_block(ghost, o.st):
                    if g.kind != "normal":
                        raise Unsupported("ghost code must complete normally", s)
                    res.append(g)
            return res
        return outs

    def exec_joined(self, s, st, m, cutname):
        """Block contract: every normal exit of statement `s` must establish the named cut formula; execution
        continues from ONE state in which only what `s` may modify is forgotten and the formula is assumed."""
        before = st.fork()
        outs = m(s, st)
        ghost = self.ghost_hooks.get(id(s)) or []
        res, n_normal = [], 0
        for o in outs:
            if o.kind != "normal":
                res.append(o)
                continue
            cur = o.st
            for g in (self.exec_block(ghost, cur) if ghost else [Outcome("normal", cur)]):
                n_normal += 1
                ctx = S.Ctx(g.st.env, old=self.old_ctx, loops=g.st.loops)
                for label, f in self.con.cuts[cutname](ctx):
                    self.emit(Obligation("%s/%s/join[%s:%s]" % (self.con.qualname, g.st.pathname(), cutname, label), g.st.pc, f, kind="cut"))
        if n_normal == 0:
            return res
        merged = before
        paths = self.mutated_paths([s] + list(ghost), before)
        self.havoc_paths(merged, paths)
        merged.tag("join:%s" % cutname)
        ctx = S.Ctx(merged.env, old=self.old_ctx, loops=merged.loops)
        for label, f in self.con.cuts[cutname](ctx):
            merged.assume(f)
        res.append(Outcome("normal", merged))
        return res

    def install_ghost_hooks(self, body):
        """Sidecar ghost statements attached after real statements, matched by source prefix."""
        self.ghost_hooks = {}
        self.join_hooks = {}
        for prefix, cutname in (getattr(self.con, "joins", None) or []):
            hits = 0
            for n in ast.walk(ast.Module(body=body, type_ignores=[])):
                if isinstance(n, ast.stmt) and not isinstance(n, Inline):
                    try:
                        src = ast.unparse(n)
                    except Exception:
                        continue
                    if src.startswith(prefix):
                        self.join_hooks[id(n)] = cutname
                        hits += 1
            if hits != 1:
                raise Unsupported("annotation mismatch: %d statements start with %r (join)" % (hits, prefix))
        spec = getattr(self.con, "ghost_after", None) or []
        ghost_names = set(getattr(self.con, "ghost_vars", ()))
        for prefix, code in spec:
            gstmts = ast.parse(code).body
            for g in ast.walk(ast.Module(body=gstmts, type_ignores=[])):
                if isinstance(g, ast.Name) and isinstance(g.ctx, ast.Store) and g.id not in ghost_names:
                    raise Unsupported("ghost code assigns the program variable %s" % g.id)
                if isinstance(g, ast.Call) and isinstance(g.func, ast.Attribute) and g.func.attr in MUTATORS:
                    if self.root_name(g.func.value) not in ghost_names:
                        raise Unsupported("ghost code mutates the program variable %s" % self.root_name(g.func.value))
            hits = 0
            for n in ast.walk(ast.Module(body=body, type_ignores=[])):
                if isinstance(n, ast.stmt) and not isinstance(n, Inline):
                    try:
                        src = ast.unparse(n)
                    except Exception:
                        continue
                    if src.startswith(prefix):
                        self.ghost_hooks[id(n)] = gstmts
                        hits += 1
            if hits == 0:
                raise Unsupported("annotation mismatch: no statement starts with %r (ghost hook)" % prefix)

    def s_Inline(self, s, st):
        res = []
        for o in self.exec_block(s.body, st):
            if o.kind in ("return", "normal"):
                if s.target:
                    o.st.env[s.target] = o.val if (o.kind == "return" and o.val is not None) else NONE
                    o.st.owned.add(s.target)
                res.append(Outcome("normal", o.st))
            else:
                res.append(o)
        return res

    # ----------------------------------------------------- simple statements
    def s_Pass(self, s, st):
        return [Outcome("normal", st)]

    def s_Expr(self, s, st):
        if isinstance(s.value, ast.Constant):
            return [Outcome("normal", st)]
        if isinstance(s.value, ast.Call) and isinstance(s.value.func, ast.Name) and s.value.func.id == "print":
            return [Outcome("normal", st)]  # dropped by extraction (DESIGN 2.1)
        if isinstance(s.value, ast.Call) and isinstance(s.value.func, ast.Name) and s.value.func.id == "__cut__":
            # sidecar proof cut: prove the named formula here, then use it
            name = s.value.args[0].value
            ctx = S.Ctx(st.env, old=self.old_ctx, loops=st.loops)
            for label, f in self.con.cuts[name](ctx):
                self.emit(Obligation("%s/%s/cut[%s:%s]" % (self.con.qualname, st.pathname(), name, label), st.pc, f, kind="cut"))
                st.assume(f)
            return [Outcome("normal", st)]
        if isinstance(s.value, ast.Yield):
            if s.value.value is None:
                raise Unsupported("bare yield", s)

            def cont(v, st2):
                y = st2.env["_yielded"]
                v = self.as_value(v, s) if isinstance(v.ty, TObj) else v
                v = self.coerce(v, y.ty.elem, s, "yielded value")
                one = z3.Const(fresh_name("yielded"), sort_of(y.ty))
                st2.assume(z3.And(l_len(one) == 1, l_at(one, 0) == v.t))
                st2.env["_yielded"] = self.list_concat(y, Val(y.ty, one), st2)
                return [Outcome("normal", st2)]

            return self.root_eval(s.value.value, st, s, cont)
        return self.root_eval(s.value, st, s, lambda v, st2: [Outcome("normal", st2)])

    def root_eval(self, valnode, st, s, cont, hint=None):
        """Evaluate a statement's root expression, allowing one effectful call."""
        self.root_call = valnode if isinstance(valnode, ast.Call) else None
        try:
            v, outs = self.run(st, lambda st_: self.eval_hint(valnode, st_, hint), s)
        finally:
            self.root_call = None
        pe = self.pending_effect
        self.pending_effect = None
        if pe is not None:
            outs = outs + self.effect_raises(pe, st, s)
        return outs + cont(v, st)

    def effect_raises(self, pe, st_after, s):
        """Exceptional exits of an effectful callee (its `raises` clauses)."""
        con, pre, post, post_env, recv_node, node = pe
        outs = []
        for kind, fn in con.raises.items():
            spec = fn(pre)
            if spec is None:
                continue
            rs = self.effect_pre_state.fork()
            rs.assume(spec["when"])
            rs.tag("%s-raises-%s@%s" % (con.qualname.rsplit(".", 1)[-1], kind, self.ordinal(s)))
            if "ensures" in spec:
                # exceptional post-state: the callee's frame is havocked, exceptional ensures assumed
                recv_name = next(iter(con.params))
                recv = pre._env[recv_name]
                rec = dict(recv.t)
                for a in con.modifies:
                    if a in rec:
                        rec[a] = fresh(rec[a].ty, "%s.%s_exc" % (recv_name, a), self.classes_fields())
                        for f in wf(rec[a]):
                            rs.assume(f)
                env2 = dict(pre._env)
                env2[recv_name] = Val(recv.ty, rec)
                for label, f in spec["ensures"](S.Ctx(env2, old=pre, result=None)):
                    rs.assume(f)
                if recv_node is not None and isinstance(recv_node, (ast.Name, ast.Attribute, ast.Subscript)):
                    hz = self.hz
                    self.hz = []
                    self.assign_to(recv_node, env2[recv_name], rs, check_owned=False)
                    self.hz = hz
            outs.append(Outcome("raise", rs, exc=kind))
        return outs

    def eval_hint(self, node, st, hint):
        if hint is not None and isinstance(node, ast.IfExp) and (hint.key in self.coercions or (isinstance(hint, TList) and any(isinstance(b_, ast.List) for b_ in (node.body, node.orelse)))):
            # `x if c else None` assigned to a slot of an abstract sort, or `[x] if c else list(y)` assigned to a typed list slot: coerce each branch
            c = self.truthy(self.eval(node.test, st), node)
            self.guards.append(c)
            try:
                a = self.coerce(self.eval_hint(node.body, st, hint), hint, node)
            finally:
                self.guards.pop()
            self.guards.append(z3.Not(c))
            try:
                b = self.coerce(self.eval_hint(node.orelse, st, hint), hint, node)
            finally:
                self.guards.pop()
            if isinstance(hint, TList):
                # name the chosen list: terms containing `ite` are rejected as E-matching patterns
                R = z3.Const(fresh_name("chosen"), sort_of(hint))
                self.fact(st, R == z3.If(c, a.t, b.t))
                return Val(hint, R)
            return Val(hint, z3.If(c, a.t, b.t))
        if hint is not None:
            if isinstance(node, ast.List) and not node.elts:
                return self.empty_of(hint)
            if isinstance(node, ast.Dict) and not node.keys:
                return self.empty_of(hint)
            if isinstance(node, ast.Call) and isinstance(node.func, ast.Name) and node.func.id == "set" and node.func.id not in st.env:
                return self.b_set(node, st, hint=hint)
            if isinstance(node, ast.List):
                return self.e_List(node, st, hint=hint if isinstance(hint, TList) else None)
            if isinstance(node, ast.Dict):
                return self.e_Dict(node, st, hint=hint if isinstance(hint, TDict) else None)
            if isinstance(node, ast.DictComp):
                return self.e_DictComp(node, st, hint=hint if isinstance(hint, TDict) else None)
        return self.eval(node, st)

    def target_hint(self, target, st):
        if isinstance(target, ast.Name):
            if target.id in self.con.locals:
                return self.con.locals[target.id]
            if target.id in st.env:
                return st.env[target.id].ty
            return None
        if isinstance(target, ast.Attribute):
            try:
                hz = self.hz
                base = self.eval(target.value, st)
                self.hz = hz
            except Unsupported:
                return None
            if isinstance(base.ty, TObj) and target.attr in base.t:
                return base.t[target.attr].ty
        if isinstance(target, ast.Subscript):
            try:
                hz = list(self.hz)
                base = self.eval(target.value, st)
                self.hz = hz
            except Unsupported:
                return None
            if isinstance(base.ty, TDict):
                return base.ty.v
            if isinstance(base.ty, TList):
                return base.ty.elem
        return None

    def s_Assign(self, s, st):
        if len(s.targets) != 1:
            raise Unsupported("chained assignment", s)
        tgt = s.targets[0]
        hint = self.target_hint(tgt, st)

        def cont(v, st2):
            if isinstance(tgt, ast.Name) and tgt.id in self.con.locals and not isinstance(v.ty, TObj) and v.ty != self.con.locals[tgt.id]:
                lt = self.con.locals[tgt.id]
                if isinstance(lt, TOpt) and (v.ty == TNone or v.ty == lt.elem):
                    v = self.coerce(v, lt, s)
            _, outs = self.run(st2, lambda st_: self.assign_to(tgt, v, st_, value_node=s.value), s)
            return outs + [Outcome("normal", st2)]

        return self.root_eval(s.value, st, s, cont, hint=hint)

    def s_AnnAssign(self, s, st):
        if s.value is None:
            return [Outcome("normal", st)]
        hint = self.target_hint(s.target, st) or self.ann_type(s.annotation)

        def cont(v, st2):
            _, outs = self.run(st2, lambda st_: self.assign_to(s.target, v, st_, value_node=s.value), s)
            return outs + [Outcome("normal", st2)]

        return self.root_eval(s.value, st, s, cont, hint=hint)

    def ann_type(self, ann):
        try:
            return self.type_from_annotation(ann)
        except Unsupported:
            return None

    def type_from_annotation(self, ann):
        if isinstance(ann, ast.Name):
            t = {"int": TInt, "bool": TBool, "float": TReal, "str": TStr}.get(ann.id)
            if t is not None:
                return t
            if ann.id in self.type_aliases:
                return self.type_aliases[ann.id]
        if isinstance(ann, ast.Subscript) and isinstance(ann.value, ast.Name):
            n = ann.value.id
            args = ann.slice.elts if isinstance(ann.slice, ast.Tuple) else [ann.slice]
            if n == "List":
                return TList(self.type_from_annotation(args[0]))
            if n == "Set":
                return TSet(self.type_from_annotation(args[0]))
            if n == "Dict":
                return TDict(self.type_from_annotation(args[0]), self.type_from_annotation(args[1]))
            if n == "Tuple":
                return TTuple([self.type_from_annotation(a) for a in args])
            if n == "Optional":
                return TOpt(self.type_from_annotation(args[0]))
        raise Unsupported("annotation", ann)

    def s_AugAssign(self, s, st):
        def ev(st_):
            cur = self.eval(s.target, st_)
            rhs = self.eval(s.value, st_)
            return self.binop(s.op, cur, rhs, s, st_)

        v, outs = self.run(st, ev, s)
        _, outs2 = self.run(st, lambda st_: self.assign_to(s.target, v, st_, check_owned=False), s)
        return outs + outs2 + [Outcome("normal", st)]

    def s_Delete(self, s, st):
        for t in s.targets:
            if isinstance(t, ast.Name):
                st.env.pop(t.id, None)
            elif isinstance(t, ast.Attribute):
                pass  # `del self.x` immediately followed by re-assignment in the subset
            elif isinstance(t, ast.Subscript):
                hz = self.hz
                self.hz = []
                base = self.eval(t.value, st)
                self.hz = hz
                h = self.delitem_handlers.get(base.ty.key)
                if h is None:
                    raise Unsupported("del on %s" % base.ty, s)
                h(self, t, base, st)
            else:
                raise Unsupported("del target", s)
        return [Outcome("normal", st)]

    def s_Return(self, s, st):
        if s.value is None:
            return [Outcome("return", st, val=NONE)]
        hint = self.con.ret if isinstance(self.con.ret, (TList, TSet, TDict)) else None
        return self.root_eval(s.value, st, s, lambda v, st2: [Outcome("return", st2, val=v)], hint=hint)

    def s_Raise(self, s, st):
        e = s.exc
        if e is None:
            # bare `raise` inside a handler: the exception being handled propagates again
            cur = st.env.get("__handled_exc__")
            if cur is None:
                raise Unsupported("bare raise outside a handler", s)
            st.tag("reraise:%s@%s" % (cur.t, self.ordinal(s)))
            return [Outcome("raise", st, exc=cur.t)]
        if isinstance(e, ast.Call):
            e = e.func
        if isinstance(e, ast.Name):
            if e.id in st.env and st.env[e.id].ty.key == "Exc":
                kind = st.env[e.id].t
            else:
                kind = e.id
        else:
            raise Unsupported("raise expression", s)
        st.tag("raise:%s@%s" % (kind, self.ordinal(s)))
        return [Outcome("raise", st, exc=kind)]

    def s_Assert(self, s, st):
        c, outs = self.run(st, lambda st_: self.truthy(self.eval(s.test, st_), s), s)
        bad = st.fork()
        bad.assume(z3.Not(c))
        bad.tag("assert-fails@%s" % self.ordinal(s))
        st.assume(c)
        return outs + [Outcome("raise", bad, exc="AssertionError"), Outcome("normal", st)]

    def s_Break(self, s, st):
        return [Outcome("break", st)]

    def s_Continue(self, s, st):
        return [Outcome("continue", st)]

    def s_FunctionDef(self, s, st):
        h = self.con.closure_defs.get(s.name) if hasattr(self.con, "closure_defs") else None
        if h is None:
            raise Unsupported("nested def %s" % s.name, s)
        h(self, s, st)
        return [Outcome("normal", st)]

    # ------------------------------------------------------------ assignment
    def assign_to(self, target, val, st, check_owned=False, value_node=None):
        if isinstance(target, ast.Name):
            if check_owned and target.id not in st.owned:
                raise Unsupported("mutation through alias `%s` (value may be shared)" % target.id, target)
            st.env[target.id] = val
            if not check_owned:
                if value_node is not None and self.is_fresh_expr(value_node):
                    st.owned.add(target.id)
                elif value_node is not None:
                    st.owned.discard(target.id)
            return
        if isinstance(target, ast.Tuple):
            if isinstance(val.ty, TTuple) and len(val.ty.elems) == len(target.elts):
                for i, e in enumerate(target.elts):
                    self.assign_to(e, Val(val.ty.elems[i], t_get(val.t, i)), st)
                return
            raise Unsupported("tuple assignment of %s" % val.ty, target)
        if isinstance(target, ast.Attribute):
            base = self.eval(target.value, st)
            if not isinstance(base.ty, TObj):
                raise Unsupported("attribute assignment on %s" % base.ty, target)
            info = S.CLASSES[base.ty.cls]
            setter = "%s.%s.%s.setter" % (info["module"], info.get("source_class", base.ty.cls), target.attr)
            alias = info.get("alias", {}).get(target.attr)
            if target.attr not in base.t and alias and check_owned:
                # in-place mutation of the object behind a read-only view property (e.g. point.tags.update(...))
                rec = dict(base.t)
                rec[alias] = self.coerce(val, rec[alias].ty, target)
                self.assign_to(target.value, Val(base.ty, rec), st, check_owned=False)
                return
            if target.attr not in base.t:
                if setter in S.REGISTRY:
                    # property setter: apply its contract (pure on the record: frame = modifies)
                    con = S.REGISTRY[setter]
                    self.used_contracts.add(setter)
                    pname = list(con.params)[1]
                    bound = {list(con.params)[0]: base, pname: self.coerce(val, con.params[pname], target, "value assigned to .%s" % target.attr)}
                    pre = S.Ctx(bound)
                    for label, f in con.requires(pre):
                        self.hazard("Requires", f, target, "%s requires[%s]" % (setter, label))
                    for kind, fn in con.raises.items():
                        spec = fn(pre)
                        if spec is not None:
                            self.hazard(kind, z3.Not(spec["when"]), target, "%s raises %s" % (setter, kind))
                    rec = dict(base.t)
                    for a in con.modifies:
                        rec[a] = fresh(rec[a].ty, "%s_set" % a, self.classes_fields())
                    newobj = Val(base.ty, rec)
                    post = S.Ctx(dict(bound, **{list(con.params)[0]: newobj}), old=pre, result=NONE)
                    for label, f in con.ensures(post):
                        self.fact(st, f)
                    self.assign_to(target.value, newobj, st, check_owned=False)
                    return
                raise Unsupported("assignment to unknown attribute %s.%s" % (base.ty.cls, target.attr), target)
            rec = dict(base.t)
            rec[target.attr] = self.coerce(val, rec[target.attr].ty, target, "attribute %s" % target.attr) if not isinstance(val.ty, TObj) else val
            self.assign_to(target.value, Val(base.ty, rec), st, check_owned=False)
            return
        if isinstance(target, ast.Subscript):
            base = self.eval(target.value, st)
            idx = self.eval(target.slice, st)
            ty = base.ty
            if isinstance(ty, TDict):
                k = self.coerce(idx, ty.k, target)
                v = self.coerce(val, ty.v, target, "dict value")
                new = Val(ty, d_mk(ty, z3.Store(d_dom(base.t), k.t, True), z3.Store(d_val(base.t), k.t, v.t)))
            elif isinstance(ty, TList):
                i = self.coerce(idx, TInt, target).t
                n = l_len(base.t)
                self.hazard("IndexError", z3.And(-n <= i, i < n), target, "list store")
                v = self.coerce(val, ty.elem, target)
                new = Val(ty, l_mk(ty, n, z3.Store(l_arr(base.t), z3.If(i < 0, i + n, i), v.t)))
            else:
                raise Unsupported("subscript store on %s" % ty, target)
            self.assign_to(target.value, new, st, check_owned=True)
            return
        raise Unsupported("assignment target", target)

    def is_fresh_expr(self, node):
        if isinstance(node, (ast.List, ast.Dict, ast.Set, ast.ListComp, ast.DictComp, ast.SetComp, ast.Tuple, ast.BinOp, ast.Constant, ast.Compare, ast.BoolOp, ast.UnaryOp)):
            return True
        if isinstance(node, ast.Call):
            return True
        if isinstance(node, ast.Subscript) and isinstance(node.slice, ast.Slice):
            return True
        return False

    # ------------------------------------------------------------------- if
    def s_If(self, s, st):
        c, outs = self.run(st, lambda st_: self.truthy(self.eval(s.test, st_), s), s)
        k = self.ordinal(s)
        res = list(outs)
        a = st.fork()
        a.assume(c)
        a.tag("%s:T" % k)
        b = st
        b.assume(z3.Not(c))
        b.tag("%s:F" % k)
        if self.feasible(a):
            res += self.exec_block(s.body, a)
        else:
            self.pruned.append(a.pathname())
        if self.feasible(b):
            res += self.exec_block(s.orelse, b) if s.orelse else [Outcome("normal", b)]
        else:
            self.pruned.append(b.pathname())
        return res

    # ------------------------------------------------------------------ try
    def s_Try(self, s, st):
        if s.orelse:
            raise Unsupported("try/else", s)
        if s.finalbody:
            inner = ast.Try(body=s.body, handlers=s.handlers, orelse=[], finalbody=[]) if s.handlers else None
            outs = self.s_Try(inner, st) if inner is not None else self.exec_block(s.body, st)
            res = []
            for o in outs:
                o.st.tag("finally@%s" % self.ordinal(s))
                for f in self.exec_block(s.finalbody, o.st):
                    if f.kind == "normal":
                        res.append(Outcome(o.kind, f.st, val=o.val, exc=o.exc))
                    else:
                        res.append(f)  # the finally block's own exit wins
            return res
        res = []
        for o in self.exec_block(s.body, st):
            if o.kind != "raise":
                res.append(o)
                continue
            handled = False
            for h in s.handlers:
                names = None
                if h.type is not None:
                    names = [self.class_name(e) for e in (h.type.elts if isinstance(h.type, ast.Tuple) else [h.type])]
                if exc_matches(o.exc, names):
                    handled = True
                    if not self.feasible(o.st):
                        self.pruned.append(o.st.pathname())
                        break
                    hs = o.st
                    hs.tag("except@%s" % self.ordinal(s))
                    hs.env["__handled_exc__"] = Val(TU("Exc"), o.exc)
                    if h.name:
                        hs.env[h.name] = Val(TU("Exc"), o.exc)
                    res += self.exec_block(h.body, hs)
                    break
            if not handled:
                res.append(o)
        return res

    # ---------------------------------------------------------------- loops
    def mutated_paths(self, body, st):
        """Attribute paths (root, attr, ...) that the loop body may modify."""
        paths = set()

        def lv_path(node):
            chain = []
            while isinstance(node, (ast.Attribute, ast.Subscript)):
                if isinstance(node, ast.Attribute):
                    chain.append(node.attr)
                else:
                    chain = []  # a subscript store modifies the container below it
                node = node.value
            if not isinstance(node, ast.Name):
                return None
            chain = list(reversed(chain))
            # keep only the leading attributes that are object fields
            out = [node.id]
            v = st.env.get(node.id)
            for a in chain:
                if v is not None and isinstance(v.ty, TObj) and a in v.t:
                    out.append(a)
                    v = v.t[a]
                else:
                    break
            return tuple(out)

        def add_target(t):
            if isinstance(t, ast.Tuple):
                for e in t.elts:
                    add_target(e)
                return
            p = lv_path(t)
            if p is None:
                raise Unsupported("assignment target in loop", t)
            paths.add(p)

        nodes = list(ast.walk(ast.Module(body=body, type_ignores=[])))
        # ghost statements hooked after real statements of the body mutate ghost variables
        for n in list(nodes):
            g = self.ghost_hooks.get(id(n))
            if g:
                nodes += list(ast.walk(ast.Module(body=g, type_ignores=[])))
        for n in nodes:
            if isinstance(n, ast.Yield):
                paths.add(("_yielded",))
            if isinstance(n, ast.Assign):
                for t in n.targets:
                    add_target(t)
            elif isinstance(n, (ast.AugAssign, ast.AnnAssign)):
                add_target(n.target)
            elif isinstance(n, (ast.For, ast.comprehension)):
                if isinstance(n, ast.For):
                    add_target(n.target)
            elif isinstance(n, ast.ExceptHandler) and n.name:
                paths.add((n.name,))
            elif isinstance(n, ast.Call) and isinstance(n.func, ast.Attribute):
                recv = n.func.value
                p = lv_path(recv)
                if p is None:
                    continue
                if n.func.attr in MUTATORS:
                    # only if the receiver is a container (not an object method named alike)
                    paths.add(p)
                    continue
                # contract with modifies?
                try:
                    hz, gd = self.hz, self.guards
                    self.hz, self.guards = [], []
                    tmp = st.fork()
                    rv = self.eval(recv, tmp)
                    self.hz, self.guards = hz, gd
                except Exception:
                    self.hz, self.guards = hz, gd
                    continue
                if isinstance(rv.ty, TObj):
                    for cls in [rv.ty.cls] + list(S.CLASSES[rv.ty.cls].get("bases", ())):
                        q = "%s.%s.%s" % (S.CLASSES[cls]["module"], cls, n.func.attr)
                        if q in S.REGISTRY:
                            for a in S.REGISTRY[q].modifies:
                                if a in rv.t:
                                    paths.add(p + (a,))
                            break
        return paths

    def havoc_paths(self, st, paths):
        for p in sorted(paths):
            root = p[0]
            if root not in st.env:
                continue
            if len(p) == 1:
                v = st.env[root]
                st.env[root] = fresh(v.ty, root, self.classes_fields())
                for f in wf(st.env[root]):
                    st.assume(f)
                continue

            def upd(v, rest):
                rec = dict(v.t)
                if len(rest) == 1:
                    rec[rest[0]] = fresh(rec[rest[0]].ty, ".".join(p), self.classes_fields())
                    for f in wf(rec[rest[0]]):
                        st.assume(f)
                else:
                    rec[rest[0]] = upd(rec[rest[0]], rest[1:])
                return Val(v.ty, rec)

            st.env[root] = upd(st.env[root], p[1:])

    def iter_spec(self, it, st, s):
        """-> (n, seq Val or None, elem(j)->Val, extra dict)"""
        if isinstance(it, ast.Call) and isinstance(it.func, ast.Name) and it.func.id == "enumerate" and "enumerate" not in st.env:
            n, seq, elem, extra = self.iter_spec(it.args[0], st, s)
            ety = None

            def e2(j):
                v = elem(j)
                ty = TTuple([TInt, v.ty])
                return Val(ty, t_mk(ty, j, v.t))

            return n, seq, e2, extra
        if isinstance(it, ast.Call) and isinstance(it.func, ast.Name) and it.func.id == "zip" and "zip" not in st.env:
            specs = [self.iter_spec(a, st, s) for a in it.args]
            if len(specs) != 2:
                raise Unsupported("zip arity", s)
            (n1, s1, e1, x1), (n2, s2, e2_, x2) = specs
            n = z3.If(n1 <= n2, n1, n2)

            def ez(j):
                a, b = e1(j), e2_(j)
                ty = TTuple([a.ty, b.ty])
                return Val(ty, t_mk(ty, a.t, b.t))

            return n, None, ez, {"zip": (s1, s2)}
        if isinstance(it, ast.Call) and isinstance(it.func, ast.Name) and it.func.id == "range" and "range" not in st.env:
            (nv,) = [self.coerce(self.eval(a, st), TInt, s).t for a in it.args]
            n = z3.If(nv < 0, 0, nv)
            return n, None, (lambda j: Val(TInt, j)), {}
        kind = None
        if isinstance(it, ast.Call) and isinstance(it.func, ast.Attribute) and it.func.attr in ("items", "keys", "values") and not it.args:
            base = self.eval(it.func.value, st)
            if isinstance(base.ty, TDict):
                kind = it.func.attr
                v = base
        if kind is None:
            v = self.eval(it, st)
            if isinstance(v.ty, TDict):
                kind = "keys"
        if kind is not None:
            kty = v.ty.k
            lty = TList(kty)
            ks = Val(lty, z3.Const(fresh_name("keys"), sort_of(lty)))
            idx = z3.Function(fresh_name("kidx"), sort_of(kty), z3.IntSort())
            n = l_len(ks.t)
            k = z3.Const(fresh_name("k"), sort_of(kty))
            j = z3.Int(fresh_name("j"))
            st.assume(n >= 0)
            st.assume(forall([k], z3.Implies(z3.Select(d_dom(v.t), k), z3.And(0 <= idx(k), idx(k) < n, l_at(ks.t, idx(k)) == k)),
                                patterns=[idx(k)]))
            st.assume(forall([k], z3.Implies(z3.Select(d_dom(v.t), k), z3.And(0 <= idx(k), idx(k) < n, l_at(ks.t, idx(k)) == k)),
                                patterns=[z3.Select(d_dom(v.t), k)]))
            st.assume(forall([j], z3.Implies(z3.And(0 <= j, j < n), z3.And(z3.Select(d_dom(v.t), l_at(ks.t, j)), idx(l_at(ks.t, j)) == j)),
                                patterns=[l_at(ks.t, j)]))

            def ed(j):
                key = l_at(ks.t, j)
                if kind == "keys":
                    return Val(kty, key)
                val = z3.Select(d_val(v.t), key)
                if kind == "values":
                    return Val(v.ty.v, val)
                ty = TTuple([kty, v.ty.v])
                return Val(ty, t_mk(ty, key, val))

            return n, ks, ed, {"idx": idx, "dict": v}
        h = self.iter_handlers.get(v.ty.key)
        if h:
            return h(self, v, s, st)
        if isinstance(v.ty, TList):
            return l_len(v.t), v, (lambda j: Val(v.ty.elem, l_at(v.t, j))), {}
        raise Unsupported("iteration over %s" % v.ty, s)

    def check_inv(self, st, k, spec, when, hyps_state=None):
        ctx = S.Ctx(st.env, old=self.old_ctx, loops=st.loops)
        so = "loop%s" % (k if isinstance(k, int) else "'%s'" % k[:24])
        for label, f in spec["inv"](ctx):
            self.emit(Obligation("%s/%s/%s:%s[%s]" % (self.con.qualname, st.pathname(), so, when, label), st.pc, f, kind="loop-" + when))

    def assume_inv(self, st, k, spec):
        ctx = S.Ctx(st.env, old=self.old_ctx, loops=st.loops)
        for label, f in spec["inv"](ctx):
            st.assume(f)

    def s_For(self, s, st):
        if s.orelse:
            raise Unsupported("for/else", s)
        k = self.loop_key(s)
        spec = self.con.loops.get(k)
        if spec is None:
            raise Unsupported("loop %s of %s has no invariant" % (k, self.con.qualname), s)
        (n, seq, elem, extra), outs = self.run(st, lambda st_: self.iter_spec(s.iter, st_, s), s)
        res = list(outs)
        st.assume(n >= 0)
        paths = self.mutated_paths(s.body + [ast.Assign(targets=[s.target], value=ast.Constant(value=None))], st)
        # entry
        st.loops[k] = S.LoopInfo(z3.IntVal(0), n, seq, extra)
        self.check_inv(st, k, spec, "entry")
        # arbitrary iteration
        body_st = st.fork()
        self.havoc_paths(body_st, paths)
        t = z3.Int(fresh_name("t"))
        body_st.loops[k] = S.LoopInfo(t, n, seq, extra)
        kt = self.loop_ordinals[id(s)]
        fallible = extra.get("fallible") or (self.root_name(s.iter.args[0] if isinstance(s.iter, ast.Call) and s.iter.args else s.iter) in getattr(self.con, "fallible_iter", {})
                                             and self.con.fallible_iter[self.root_name(s.iter.args[0] if isinstance(s.iter, ast.Call) and s.iter.args else s.iter)])
        if fallible:
            # the iterable reads from a device: any next() - including the one that would end the loop - may raise instead of yielding
            fs = body_st.fork()
            fs.assume(z3.And(0 <= t, t <= n))
            self.assume_inv(fs, k, spec)
            fs.tag("loop%s:%s" % (kt, fallible))
            res.append(Outcome("raise", fs, exc=fallible))
        body_st.assume(z3.And(0 <= t, t < n))
        self.assume_inv(body_st, k, spec)
        body_st.tag("loop%s:iter" % kt)
        body_st.env["_t"] = Val(TInt, t)  # ghost: iterations completed (readable by ghost code only)
        self.bind_target(s.target, elem(t), body_st, s)
        after = []
        for o in self.exec_block(s.body, body_st):
            if o.kind in ("normal", "continue"):
                o.st.loops[k] = S.LoopInfo(t + 1, n, seq, extra)
                self.check_inv(o.st, k, spec, "preserve")
            elif o.kind == "break":
                o.st.tag("loop%s:break" % kt)
                after.append(o.st)
            else:
                res.append(o)
        # exit
        ex = st.fork()
        self.havoc_paths(ex, paths)
        ex.loops[k] = S.LoopInfo(n, n, seq, extra)
        self.assume_inv(ex, k, spec)
        ex.tag("loop%s:exit" % kt)
        after.append(ex)
        for a in after:
            for nm in self.target_names(s.target):
                a.owned.discard(nm)
            res.append(Outcome("normal", a))
        return res

    def loop_key(self, s):
        """Loops are keyed by ordinal, or by a prefix of their header's source text."""
        k = self.loop_ordinals[id(s)]
        if k in self.con.loops:
            return k
        try:
            head = "for %s in %s" % (ast.unparse(s.target).strip("()"), ast.unparse(s.iter)) if isinstance(s, ast.For) else "while " + ast.unparse(s.test)
        except Exception:
            head = ""
        hits = [key for key in self.con.loops if isinstance(key, str) and head.startswith(key)]
        if len(hits) == 1:
            return hits[0]
        return k

    def target_names(self, t):
        if isinstance(t, ast.Name):
            return [t.id]
        if isinstance(t, ast.Tuple):
            return [n for e in t.elts for n in self.target_names(e)]
        return []

    def s_While(self, s, st):
        if s.orelse:
            raise Unsupported("while/else", s)
        k = self.loop_ordinals[id(s)]
        spec = self.con.loops.get(k)
        if spec is None:
            raise Unsupported("loop %d of %s has no invariant" % (k, self.con.qualname), s)
        res = []
        paths = self.mutated_paths(s.body, st)
        st.loops[k] = S.LoopInfo(z3.IntVal(0), None)
        self.check_inv(st, k, spec, "entry")
        # arbitrary iteration
        head = st.fork()
        self.havoc_paths(head, paths)
        t = z3.Int(fresh_name("t%d" % k))
        head.loops[k] = S.LoopInfo(t, None)
        head.assume(t >= 0)
        self.assume_inv(head, k, spec)
        c, outs = self.run(head, lambda st_: self.truthy(self.eval(s.test, st_), s), s)
        res += outs
        body_st = head.fork()
        body_st.assume(c)
        body_st.tag("loop%d:iter" % k)
        ex = head
        ex.assume(z3.Not(c))
        ex.tag("loop%d:exit" % k)
        after = [ex]
        dec0 = None
        if spec.get("decreases"):
            dec0 = spec["decreases"](S.Ctx(body_st.env, old=self.old_ctx, loops=body_st.loops))
            self.emit(Obligation("%s/%s/loop%d:decreases[bounded]" % (self.con.qualname, body_st.pathname(), k), body_st.pc, dec0 >= 0, kind="decreases"))
        if self.feasible(body_st):
            for o in self.exec_block(s.body, body_st):
                if o.kind in ("normal", "continue"):
                    o.st.loops[k] = S.LoopInfo(t + 1, None)
                    self.check_inv(o.st, k, spec, "preserve")
                    if dec0 is not None:
                        dec1 = spec["decreases"](S.Ctx(o.st.env, old=self.old_ctx, loops=o.st.loops))
                        self.emit(Obligation("%s/%s/loop%d:decreases[strict]" % (self.con.qualname, o.st.pathname(), k), o.st.pc, dec1 < dec0, kind="decreases"))
                elif o.kind == "break":
                    o.st.tag("loop%d:break" % k)
                    after.append(o.st)
                else:
                    res.append(o)
        return res + [Outcome("normal", a) for a in after]
