"""Calls, builtins, container methods and comprehensions."""

import ast
import z3
from .core import *  # noqa
from .state import Hazard
from . import spec as S


class CallMixin:
    # ---------------------------------------------------------------- calls
    def e_Call(self, node, st):
        f = node.func
        starred = any(isinstance(a, ast.Starred) for a in node.args) or any(k.arg is None for k in node.keywords)
        if starred and not (isinstance(f, ast.Name) and f.id in st.env and st.env[f.id].ty.key in self.call_handlers) \
                and not (isinstance(f, ast.Attribute) and self.dotted(f) in self.global_calls) and not (isinstance(f, ast.Name) and self.mod.imports.get(f.id) in self.global_calls):
            raise Unsupported("star-args in call", node)
        if isinstance(f, ast.Call) and isinstance(f.func, ast.Name) and f.func.id == "type" and len(f.args) == 1 and not node.args:
            # type(x)(): a new object of x's class (its fields are whatever that class's __init__ sets: unconstrained here)
            x = self.eval(f.args[0], st)
            if isinstance(x.ty, TObj):
                return fresh(x.ty, "new_" + x.ty.cls, self.classes_fields())
        # builtins and module-level functions by name
        if isinstance(f, ast.Name):
            name = f.id
            if name in st.env:
                v = st.env[name]
                h = self.call_handlers.get(v.ty.key)
                if h:
                    return h(self, v, node, st)
                if isinstance(v.ty, TObj):  # callable object
                    return self.method_call(v, "__call__", node, st)
                raise Unsupported("call of local value %s: %s" % (name, v.ty), node)
            if name in self.closures:
                return self.closures[name](self, node, st)
            b = getattr(self, "b_" + name, None)
            if b is not None and name not in self.mod.imports:
                return b(node, st)
            q = self.mod.imports.get(name)
            if q is None and name in self.mod.functions:
                q = self.mod.name + "." + name
            if q is None and name in self.mod.classes:
                q = self.mod.name + "." + name
            if q in self.global_calls:
                return self.global_calls[q](self, node, st)
            if q in S.REGISTRY:
                return self.call_contract(S.REGISTRY[q], *self.eval_args(node, st), node, st)
            if q and q + ".__init__" in S.REGISTRY:
                return self.construct(q, node, st)
            raise Unsupported("call of %s (%s): no contract" % (name, q), node)
        if isinstance(f, ast.Attribute):
            dotted = self.dotted(f)
            if dotted:
                if dotted in S.REGISTRY:
                    return self.call_contract(S.REGISTRY[dotted], *self.eval_args(node, st), node, st)
                if dotted in self.global_calls:
                    return self.global_calls[dotted](self, node, st)
                raise Unsupported("call of %s: no contract" % dotted, node)
            if isinstance(f.value, ast.Call) and isinstance(f.value.func, ast.Name) and f.value.func.id == "super":
                # super().m(...): the base class's method applied to self, by its contract
                owner = self.con.qualname.rsplit(".", 2)[-2] if not getattr(self.con, "source", None) else self.con.source.rsplit(".", 2)[-2]
                cdef = self.mod.classes.get(owner)
                if cdef is None or not cdef.bases or not isinstance(cdef.bases[0], ast.Name):
                    raise Unsupported("super() outside a simple class", node)
                q = "%s.%s.%s" % (self.mod.name, cdef.bases[0].id, f.attr)
                if q not in S.REGISTRY:
                    raise Unsupported("super().%s: no contract for %s" % (f.attr, q), node)
                recv = st.env[next(iter(self.con.params))]
                args, kw = self.eval_args(node, st)
                return self.call_contract(S.REGISTRY[q], [recv] + args, kw, node, st, recv_node=ast.Name(id=next(iter(self.con.params)), ctx=ast.Load()))
            recv = self.eval(f.value, st)
            return self.method_call(recv, f.attr, node, st, recv_node=f.value)
        raise Unsupported("call form", node)

    def eval_args(self, node, st):
        return [self.eval(a, st) for a in node.args], {k.arg: self.eval(k.value, st) for k in node.keywords}

    def method_call(self, recv, name, node, st, recv_node=None):
        ty = recv.ty
        if isinstance(ty, TOpt):
            recv = self.coerce(recv, ty.elem, node, "receiver of .%s()" % name)
            ty = recv.ty
        if isinstance(ty, TObj):
            info = S.CLASSES[ty.cls]
            for cls in [ty.cls] + list(info.get("bases", ())):
                q = "%s.%s.%s" % (S.CLASSES[cls]["module"], S.CLASSES[cls].get("source_class", cls), name)
                if q in S.REGISTRY:
                    args, kw = self.eval_args(node, st)
                    return self.call_contract(S.REGISTRY[q], [recv] + args, kw, node, st, recv_node=recv_node)
            if name in recv.t:  # callable stored in a field
                fv = recv.t[name]
                h = self.call_handlers.get(fv.ty.key)
                if h:
                    return h(self, fv, node, st)
                if isinstance(fv.ty, TOpt) and fv.ty.elem.key in self.call_handlers:
                    return self.call_handlers[fv.ty.elem.key](self, self.coerce(fv, fv.ty.elem, node, "callable field"), node, st)
            raise Unsupported("method %s.%s: no contract" % (ty.cls, name), node)
        m = self.method_handlers.get((ty.key, name))
        if m:
            return m(self, recv, node, st, recv_node)
        kind = "list" if isinstance(ty, TList) else "dict" if isinstance(ty, TDict) else "set" if isinstance(ty, TSet) else None
        if kind:
            h = getattr(self, "m_%s_%s" % (kind, name), None)
            if h:
                return h(recv, node, st, recv_node)
        raise Unsupported("method .%s on %s" % (name, ty), node)

    # -- contract application ------------------------------------------------
    def bind_args(self, con, args, kw, node):
        names = list(con.params)
        bound = {}
        if len(args) > len(names):
            raise Unsupported("too many arguments for %s" % con.qualname, node)
        for n, a in zip(names, args):
            bound[n] = a
        for k, v in kw.items():
            if k not in con.params or k in bound:
                raise Unsupported("bad keyword %s for %s" % (k, con.qualname), node)
            bound[k] = v
        for n in names:
            if n not in bound:
                if n.startswith("_ghost") and getattr(self, "cur_state", None) is not None and n in self.cur_state.env:
                    bound[n] = self.cur_state.env[n]  # a ghost parameter is passed on from the caller's own ghost parameter of the same name
                    continue
                if n in con.defaults:
                    bound[n] = con.defaults[n](self)
                else:
                    raise Unsupported("missing argument %s for %s" % (n, con.qualname), node)
        out = {}
        for n in names:
            ty = con.params[n]
            v = bound[n]
            if isinstance(ty, TObj):
                if not (isinstance(v.ty, TObj) and (v.ty.cls == ty.cls or ty.cls in S.CLASSES[v.ty.cls].get("bases", ()))):
                    raise Unsupported("argument %s of %s: expected %s, got %s" % (n, con.qualname, ty, v.ty), node)
                out[n] = v
            else:
                if isinstance(v.ty, TObj):
                    v = self.as_value(v, node)
                out[n] = self.coerce(v, ty, node, "argument %s of %s" % (n, con.qualname))
        return out

    def call_contract(self, con, args, kw, node, st, pure_only=False, recv_node=None):
        """Apply a callee's contract at an expression position (no effects)."""
        if con.modifies and node is not self.root_call:
            raise Unsupported("call of %s (modifies %s) in expression position" % (con.qualname, list(con.modifies)), node)
        if self.bound and (con.modifies or isinstance(con.ret, TObj)):
            raise Unsupported("effectful / object-valued contract call under a bound variable", node)
        bound = self.bind_args(con, args, kw, node)
        self.used_contracts.add(con.qualname)
        if hasattr(con, "ghost_defs"):
            for gname, (gval, gfacts) in con.ghost_defs(S.Ctx(dict(bound))).items():
                bound[gname] = gval
                for f in gfacts:
                    self.fact(st, f)
        if con.modifies:
            return self.call_effect(con, bound, node, st, recv_node)
        pre = S.Ctx(bound)
        for label, f in con.requires(pre):
            self.hazard("Requires", f, node, "%s requires[%s]" % (con.qualname, label))
        for kind, fn in con.raises.items():
            cond = fn(pre)
            if cond is not None:
                self.hazard(kind, z3.Not(cond["when"]), node, "%s raises %s" % (con.qualname, kind), may=not cond.get("exact", True))
        res = self.fresh_result(con)
        for f in wf(res):
            self.fact(st, f)
        post = S.Ctx(bound, old=pre, result=res, extra={"wit": self.fresh_witnesses(con)})
        if getattr(con, "witness_sig", None):
            # kept per path (the executor-wide `last_call_witnesses` is overwritten by calls on other paths)
            st.ghost = dict(st.ghost)
            st.ghost["wit:" + con.qualname] = post.wit
        for label, f in con.ensures(post):
            self.fact(st, f)
        return res

    def fresh_witnesses(self, con):
        """Skolem functions of a callee's postcondition (it proved they exist)."""
        out = {}
        self.last_call_witnesses = out
        for name, (doms, rng) in getattr(con, "witness_sig", {}).items():
            out[name] = z3.Function(fresh_name("wit_" + name), *([sort_of(d) for d in doms] + [sort_of(rng)]))
        return out

    def fresh_result(self, con):
        if con.ret == TNone:
            return NONE
        base = "r_" + con.qualname.rsplit(".", 1)[-1]
        if self.bound:
            # under a comprehension's bound variable the result is a function of it
            f = z3.Function(fresh_name(base), *([b.sort() for b in self.bound] + [sort_of(con.ret)]))
            return Val(con.ret, f(*self.bound))
        return fresh(con.ret, base, self.classes_fields())

    def classes_fields(self):
        return {k: v["fields"] for k, v in S.CLASSES.items()}

    def call_effect(self, con, bound, node, st, recv_node):
        """Effectful call; only legal as the root call of a statement."""
        pre = S.Ctx(dict(bound))
        for label, f in con.requires(pre):
            self.hazard("Requires", f, node, "%s requires[%s]" % (con.qualname, label))
        self.effect_pre_state = st.fork()
        for kind, fn in con.raises.items():
            spec = fn(pre)
            if spec is not None and spec.get("exact", True):
                self.fact(st, z3.Not(spec["when"]))  # normal return excludes the raising condition (only for `raises exactly when`)
        # havoc what the callee may modify
        post_env = dict(bound)
        recv_name = next(iter(con.params))
        recv = bound[recv_name]
        if isinstance(recv.ty, TObj):
            rec = dict(recv.t)
            for a in con.modifies:
                if a in rec:
                    rec[a] = fresh(rec[a].ty, "%s.%s_post" % (recv_name, a), self.classes_fields())
                elif a in bound:
                    post_env[a] = fresh(bound[a].ty, a + "_post", self.classes_fields())
                else:
                    raise Unsupported("modifies %s of %s: no such attribute" % (a, con.qualname), node)
            post_env[recv_name] = Val(recv.ty, rec)
        else:
            for a in con.modifies:
                post_env[a] = fresh(bound[a].ty, a + "_post", self.classes_fields())
        res = self.fresh_result(con)
        for v in [res] + [post_env[n] for n in post_env]:
            for f in wf(v):
                self.fact(st, f)
        post = S.Ctx(post_env, old=pre, result=res, extra={"wit": self.fresh_witnesses(con)})
        # exceptional exits are handled by the statement layer
        self.pending_effect = (con, pre, post, post_env, recv_node, node)
        for label, f in con.ensures(post):
            self.fact(st, f)
        # write back the receiver / mutable params
        if isinstance(recv.ty, TObj) and recv_node is not None and con.modifies and isinstance(recv_node, (ast.Name, ast.Attribute, ast.Subscript)):
            # (a receiver that is a temporary, e.g. Point()._deserialize_from_list(row), has nowhere to be written back to)
            self.assign_to(recv_node, post_env[recv_name], st, check_owned=False)
        for a in con.modifies:
            if a in bound and a != recv_name and not (isinstance(recv.ty, TObj) and a in recv.t):
                self.writeback_param(con, a, post_env[a], node, st)
        return res

    def writeback_param(self, con, pname, val, node, st):
        idx = list(con.params).index(pname)
        argnodes = list(node.args)
        off = 1 if isinstance(node.func, ast.Attribute) and not self.dotted(node.func) else 0
        i = idx - off
        if 0 <= i < len(argnodes):
            self.assign_to(argnodes[i], val, st, check_owned=False)
            return
        for k in node.keywords:
            if k.arg == pname:
                self.assign_to(k.value, val, st, check_owned=False)
                return
        raise Unsupported("cannot write back mutable parameter %s" % pname, node)

    def construct(self, q, node, st):
        con = S.REGISTRY[q + ".__init__"]
        cls = q.rsplit(".", 1)[-1]
        args, kw = self.eval_args(node, st)
        obj = fresh(TObj(cls), cls.lower(), self.classes_fields())
        names = list(con.params)
        bound = self.bind_args(_Shift(con), args, kw, node)
        bound = dict([(names[0], obj)] + list(bound.items()))
        self.used_contracts.add(con.qualname)
        pre = S.Ctx(bound)
        for label, f in con.requires(pre):
            self.hazard("Requires", f, node, "%s requires[%s]" % (con.qualname, label))
        for kind, fn in con.raises.items():
            cond = fn(pre)
            if cond is not None:
                self.hazard(kind, z3.Not(cond["when"]), node, "%s raises %s" % (con.qualname, kind), may=not cond.get("exact", True))
        post = S.Ctx(bound, old=pre, result=NONE)
        for label, f in con.ensures(post):
            self.fact(st, f)
        return obj

    # ------------------------------------------------------------- builtins
    def b_len(self, node, st):
        (v,) = [self.eval(a, st) for a in node.args]
        return self.len_of(v, node, st)

    def len_of(self, v, node, st):
        ty = v.ty
        if isinstance(ty, TOpt):
            v = self.coerce(v, ty.elem, node, "argument of len")
            ty = v.ty
        if isinstance(ty, TList):
            return Val(TInt, l_len(v.t))
        if isinstance(ty, TSet):
            c = self.card(v)
            self.fact(st, c >= 0)
            x = z3.Const(fresh_name("x"), sort_of(ty.elem))
            w = z3.Const(fresh_name("member"), sort_of(ty.elem))
            self.fact(st, z3.Implies(c > 0, z3.Select(v.t, w)))
            self.fact(st, z3.Implies(c == 0, forall([x], z3.Not(z3.Select(v.t, x)), patterns=[z3.Select(v.t, x)])))
            return Val(TInt, c)
        if ty == TString:
            return Val(TInt, z3.Length(v.t))
        if isinstance(ty, TTuple):
            return mk_int(len(ty.elems))
        if isinstance(ty, TObj):
            return self.method_call_vals(v, "__len__", [], node, st)
        h = self.len_handlers.get(ty.key)
        if h:
            return h(self, v, node, st)
        raise Unsupported("len of %s" % ty, node)

    def method_call_vals(self, recv, name, args, node, st):
        info = S.CLASSES[recv.ty.cls]
        for cls in [recv.ty.cls] + list(info.get("bases", ())):
            q = "%s.%s.%s" % (S.CLASSES[cls]["module"], cls, name)
            if q in S.REGISTRY:
                return self.call_contract(S.REGISTRY[q], [recv] + args, {}, node, st)
        raise Unsupported("method %s.%s: no contract" % (recv.ty.cls, name), node)

    def card(self, v):
        s = sort_of(v.ty)
        f = z3.Function("card_" + v.ty.elem.key, s, z3.IntSort())
        return f(v.t)

    def b_set(self, node, st, hint=None):
        if not node.args:
            if hint is None:
                raise Unsupported("set() without type hint", node)
            return self.empty_of(hint)
        a = node.args[0]
        if isinstance(a, (ast.List, ast.Dict, ast.Set)) and not (getattr(a, "elts", None) or getattr(a, "keys", None)):
            if hint is None:
                raise Unsupported("empty set without type hint", node)
            return self.empty_of(hint)
        if isinstance(a, ast.Call) and isinstance(a.func, ast.Name) and a.func.id == "range":
            (n,) = [self.coerce(self.eval(x, st), TInt, node).t for x in a.args]
            x = z3.Int(fresh_name("x"))
            R = z3.Const(fresh_name("rangeset"), sort_of(TSet(TInt)))
            self.fact(st, forall([x], z3.Select(R, x) == z3.And(0 <= x, x < n), patterns=[z3.Select(R, x)]))
            return Val(TSet(TInt), R)
        if isinstance(a, ast.Call) and isinstance(a.func, ast.Name) and a.func.id == "list":
            a = a.args[0]
        v = self.eval(a, st)
        return self.set_of(v, node, st)

    def set_of(self, v, node, st):
        ty = v.ty
        if isinstance(ty, TSet):
            return v
        if isinstance(ty, TList):
            sty = TSet(ty.elem)
            s = z3.Const(fresh_name("set"), sort_of(sty))
            j = z3.Int(fresh_name("j"))
            x = z3.Const(fresh_name("x"), sort_of(ty.elem))
            w = z3.Function(fresh_name("wit"), sort_of(ty.elem), z3.IntSort())
            self.fact(st, forall([j], z3.Implies(z3.And(0 <= j, j < l_len(v.t)), z3.Select(s, l_at(v.t, j))),
                                    patterns=[l_at(v.t, j)]))
            marks = [S.Tr(w(x))] + ([S.Tr(x)] if ty.elem == TInt else [])  # trigger markers (Tr is universally true)
            self.fact(st, forall([x], z3.Implies(z3.Select(s, x),
                                                    z3.And(0 <= w(x), w(x) < l_len(v.t), l_at(v.t, w(x)) == x, *marks)),
                                    patterns=[z3.Select(s, x)]))
            return Val(sty, s)
        if isinstance(ty, TDict):
            return Val(TSet(ty.k), d_dom(v.t))
        h = self.setof_handlers.get(ty.key)
        if h:
            return h(self, v, node, st)
        raise Unsupported("set() of %s" % ty, node)

    def b_list(self, node, st):
        (a,) = node.args
        if isinstance(a, ast.Call) and isinstance(a.func, ast.Name) and a.func.id == "range" and "range" not in st.env and len(a.args) == 1:
            # list(range(n)) = [0, 1, ..., n-1]
            nv = self.coerce(self.eval(a.args[0], st), TInt, node).t
            n = z3.If(nv < 0, 0, nv)
            ty = TList(TInt)
            R = z3.Const(fresh_name("rangelist"), sort_of(ty))
            j = z3.Int(fresh_name("j"))
            self.fact(st, l_len(R) == n)
            self.fact(st, forall([j], z3.Implies(z3.And(0 <= j, j < n), l_at(R, j) == j), patterns=[l_at(R, j)]))
            return Val(ty, R)
        v = self.eval(a, st)
        if isinstance(v.ty, TList):
            return v
        if isinstance(v.ty, TSet):
            # list(a_set): some duplicate-free enumeration of the set
            lty = TList(v.ty.elem)
            R = z3.Const(fresh_name("setlist"), sort_of(lty))
            pos = z3.Function(fresh_name("lpos"), sort_of(v.ty.elem), z3.IntSort())
            x = z3.Const(fresh_name("x"), sort_of(v.ty.elem))
            j = z3.Int(fresh_name("j"))
            self.fact(st, l_len(R) >= 0)
            self.fact(st, forall([x], z3.Select(v.t, x) == z3.And(0 <= pos(x), pos(x) < l_len(R), l_at(R, pos(x)) == x), patterns=[z3.Select(v.t, x)]))
            self.fact(st, forall([j], z3.Implies(z3.And(0 <= j, j < l_len(R)), z3.And(z3.Select(v.t, l_at(R, j)), pos(l_at(R, j)) == j)), patterns=[l_at(R, j)]))
            return Val(lty, R)
        h = self.listof_handlers.get(v.ty.key)
        if h:
            return h(self, v, node, st)
        raise Unsupported("list() of %s" % v.ty, node)

    def b_isinstance(self, node, st):
        v = self.eval(node.args[0], st)
        return self.isinstance_of(v, node.args[1], node, st)

    def isinstance_of(self, v, clsnode, node, st):
        names = [self.class_name(e) for e in (clsnode.elts if isinstance(clsnode, ast.Tuple) else [clsnode])]
        h = self.isinstance_handlers.get(v.ty.key)
        if h:
            return Val(TBool, h(self, v, names, node, st))
        if isinstance(v.ty, TObj):
            hook = S.CLASSES[v.ty.cls].get("isinstance")
            if hook:
                return Val(TBool, hook(self, v, names))
            bases = [v.ty.cls] + list(S.CLASSES[v.ty.cls].get("bases", ()))
            return mk_bool(any(n in bases for n in names))
        prim = {"Int": {"int"}, "Bool": {"bool", "int"}, "Real": {"float"}, "Str": {"str"}, "String": {"str"}}
        if v.ty.key in prim:
            return mk_bool(bool(prim[v.ty.key] & set(names)))
        if isinstance(v.ty, TOpt):
            inner = self.isinstance_of(Val(v.ty.elem, o_val(v.t)), clsnode, node, st)
            return Val(TBool, z3.And(o_is_some(v.t), inner.t))
        raise Unsupported("isinstance on %s" % v.ty, node)

    @staticmethod
    def class_name(e):
        if isinstance(e, ast.Name):
            return e.id
        if isinstance(e, ast.Attribute):
            return e.attr
        raise Unsupported("class expression", e)

    def b_hasattr(self, node, st):
        """hasattr(x, "<name>") for sorts whose model says which attributes exist (sidecar handler)"""
        if len(node.args) != 2 or not (isinstance(node.args[1], ast.Constant) and isinstance(node.args[1].value, str)):
            raise Unsupported("hasattr with a computed name", node)
        v = self.eval(node.args[0], st)
        h = self.hasattr_handlers.get(v.ty.key)
        if h is None:
            raise Unsupported("hasattr on %s" % v.ty, node)
        return Val(TBool, h(self, v, node.args[1].value, node, st))

    def b_tuple(self, node, st):
        """tuple(a_list) for element sorts with a registered tuple model (sidecar handler)"""
        (a,) = node.args
        v = self.eval(a, st)
        h = self.tupleof_handlers.get(v.ty.key)
        if h is None:
            raise Unsupported("tuple() of %s" % v.ty, node)
        return h(self, v, node, st)

    def b_getattr(self, node, st):
        if len(node.args) >= 2 and not isinstance(node.args[1], ast.Constant):
            base = self.eval(node.args[0], st)
            h = self.getattr_dyn_handlers.get(base.ty.key)
            if h:
                return h(self, base, self.eval(node.args[1], st), node, st)
        if len(node.args) < 2 or not (isinstance(node.args[1], ast.Constant) and isinstance(node.args[1].value, str)):
            raise Unsupported("getattr with a computed name", node)
        base = self.eval(node.args[0], st)
        # the default (3rd argument) is irrelevant when the attribute is known to exist
        return self.getattr_val(base, node.args[1].value, node, st)

    def b_hash(self, node, st):
        (v,) = [self.eval(a, st) for a in node.args]
        h = self.hash_handlers.get(v.ty.key)
        if h is None:
            raise Unsupported("hash() of %s" % v.ty, node)
        return h(self, v, node, st)

    def b_bool(self, node, st):
        return Val(TBool, self.truthy(self.eval(node.args[0], st), node))

    def b_sorted(self, node, st):
        v = self.eval(node.args[0], st)
        if not isinstance(v.ty, TList):
            h = self.sortedof_handlers.get(v.ty.key) or (self.sorted_of_set if isinstance(v.ty, TSet) else None)
            if not h:
                raise Unsupported("sorted() of %s" % v.ty, node)
            return h(v, node, st) if h == self.sorted_of_set else h(self, v, node, st)
        return self.sorted_perm(v, self._keyfn(node, st), st, node)

    def sorted_of_set(self, v, node, st):
        """sorted(a_set[, key=lambda x: (x is None, x)]): a duplicate-free list holding exactly the set's elements, ascending
        (strings in the uninterpreted order str_lt; with that key, None comes last)"""
        ety = v.ty.elem
        key = [k.value for k in node.keywords if k.arg == "key"]
        none_last = False
        if key:
            lam = key[0]
            ok = isinstance(lam, ast.Lambda) and len(lam.args.args) == 1 and isinstance(lam.body, ast.Tuple) and len(lam.body.elts) == 2 \
                and isinstance(lam.body.elts[0], ast.Compare) and isinstance(lam.body.elts[0].ops[0], ast.Is) and isinstance(lam.body.elts[1], ast.Name) and lam.body.elts[1].id == lam.args.args[0].arg
            if not ok or ety != TOpt(TStr):
                raise Unsupported("sorted() of a set with this key", node)
            none_last = True
        elif ety not in (TInt, TStr):
            raise Unsupported("sorted() of a set of %s" % ety, node)
        lty = TList(ety)
        bnd = list(self.bound)  # under a comprehension the sorted list and the position function are Skolem functions of its bound variables
        if bnd:
            R = z3.Function(fresh_name("sortedset"), *([b_.sort() for b_ in bnd] + [sort_of(lty)]))(*bnd)
        else:
            R = z3.Const(fresh_name("sortedset"), sort_of(lty))
        posf = z3.Function(fresh_name("spos"), *([b_.sort() for b_ in bnd] + [sort_of(ety), z3.IntSort()]))
        pos = lambda e: posf(*(bnd + [e]))
        x = z3.Const(fresh_name("x"), sort_of(ety))
        a, b = z3.Int(fresh_name("a")), z3.Int(fresh_name("b"))
        n = l_len(R)
        if none_last:
            lt = lambda p, q: z3.Or(z3.And(o_is_some(p), o_is_none(q)), z3.And(o_is_some(p), o_is_some(q), S.str_lt(o_val(p), o_val(q))))
        else:
            lt = (lambda p, q: p < q) if ety == TInt else S.str_lt
        self.fact(st, n >= 0)
        self.fact(st, forall([x], z3.Select(v.t, x) == z3.And(0 <= pos(x), pos(x) < n, l_at(R, pos(x)) == x), patterns=[z3.Select(v.t, x)]))
        self.fact(st, forall([x], S.Tr(pos(x)), patterns=[pos(x)]))
        self.fact(st, forall([a], z3.Implies(z3.And(0 <= a, a < n), z3.And(z3.Select(v.t, l_at(R, a)), pos(l_at(R, a)) == a)), patterns=[l_at(R, a)]))
        self.fact(st, forall([a, b], z3.Implies(z3.And(0 <= a, a < b, b < n), lt(l_at(R, a), l_at(R, b))), patterns=[z3.MultiPattern(l_at(R, a), l_at(R, b))]))
        st.ghost = dict(st.ghost)
        st.ghost["last_sorted_set"] = dict(R=R, pos=pos, posf=posf, set=v, bound=list(self.bound))
        return Val(lty, R)

    # ------------------------------------------------------ container methods
    def _mutate(self, recv_node, newval, st, node):
        if recv_node is None:
            raise Unsupported("mutation of a temporary", node)
        self.assign_to(recv_node, newval, st, check_owned=True)
        return NONE

    def m_list_append(self, recv, node, st, recv_node):
        (x,) = [self.eval(a, st) for a in node.args]
        x = self.coerce(x, recv.ty.elem, node, "appended element")
        n = l_len(recv.t)
        new = Val(recv.ty, l_mk(recv.ty, n + 1, z3.Store(l_arr(recv.t), n, x.t)))
        return self._mutate(recv_node, new, st, node)

    def m_list_extend(self, recv, node, st, recv_node):
        (x,) = [self.eval(a, st) for a in node.args]
        if x.ty != recv.ty:
            raise Unsupported("extend with %s" % x.ty, node)
        return self._mutate(recv_node, self.list_concat(recv, x, st), st, node)

    def apply_lambda(self, lam, args, st, node):
        """Evaluate a lambda expression's body on the given values (pure)."""
        if not isinstance(lam, ast.Lambda):
            raise Unsupported("key function must be a lambda", node)
        names = [a.arg for a in lam.args.args]
        if len(names) != len(args):
            raise Unsupported("lambda arity", node)
        st2 = st.fork()
        for n, v in zip(names, args):
            st2.env[n] = v
        r = self.eval(lam.body, st2)
        st.pc.extend(st2.pc[len(st.pc):])
        return r

    def sorted_perm(self, lst, keyfn, st, node):
        """A stable sort of lst by keyfn: fresh list + permutation axioms (DESIGN 4.2, assumed)."""
        ty = lst.ty
        n = l_len(lst.t)
        R = z3.Const(fresh_name("sorted"), sort_of(ty))
        pi = z3.Function(fresh_name("pi"), z3.IntSort(), z3.IntSort())
        pinv = z3.Function(fresh_name("pinv"), z3.IntSort(), z3.IntSort())
        a, b = z3.Int(fresh_name("a")), z3.Int(fresh_name("b"))
        self.bound.append(a)
        self.guards.append(z3.And(0 <= a, a < n))
        try:
            ka = keyfn(Val(ty.elem, l_at(R, a)))
        finally:
            self.guards.pop()
            self.bound.pop()
        kb_t = None
        if ka.ty not in (TInt, TReal):
            conv = self.sortkey_handlers.get(ka.ty.key)
            if conv is None:
                raise Unsupported("sort key of type %s" % ka.ty, node)
            ka = conv(self, ka)
        kb = z3.substitute(ka.t, (a, b))
        self.fact(st, l_len(R) == n)
        self.fact(st, forall([a], z3.Implies(z3.And(0 <= a, a < n), z3.And(0 <= pi(a), pi(a) < n, l_at(R, a) == l_at(lst.t, pi(a)), pinv(pi(a)) == a)),
                                patterns=[l_at(R, a), pi(a)]))
        self.fact(st, forall([a], z3.Implies(z3.And(0 <= a, a < n), z3.And(0 <= pinv(a), pinv(a) < n, pi(pinv(a)) == a)),
                                patterns=[pinv(a), S.Tr(a)]))
        self.fact(st, forall([a, b], z3.Implies(z3.And(0 <= a, a < b, b < n), z3.And(ka.t <= kb, z3.Implies(ka.t == kb, pi(a) < pi(b)))),
                                patterns=[z3.MultiPattern(l_at(R, a), l_at(R, b))]))
        self.last_sort = dict(R=R, pi=pi, pinv=pinv)
        st.ghost["last_sort"] = self.last_sort
        return Val(ty, R)

    def _keyfn(self, node, st):
        key = None
        for k in node.keywords:
            if k.arg == "key":
                key = k.value
            else:
                raise Unsupported("sort keyword %s" % k.arg, node)
        if key is None:
            return lambda v: v
        return lambda v: self.apply_lambda(key, [v], st, node)

    def m_list_sort(self, recv, node, st, recv_node):
        if node.args:
            raise Unsupported("sort args", node)
        new = self.sorted_perm(recv, self._keyfn(node, st), st, node)
        return self._mutate(recv_node, new, st, node)

    def m_set_add(self, recv, node, st, recv_node):
        (x,) = [self.eval(a, st) for a in node.args]
        x = self.coerce(x, recv.ty.elem, node)
        return self._mutate(recv_node, Val(recv.ty, z3.Store(recv.t, x.t, True)), st, node)

    def _setop(self, recv, node, st, op):
        (x,) = [self.eval(a, st) for a in node.args]
        x = self.set_of(x, node, st)
        if x.ty != recv.ty:
            raise Unsupported("set operation between %s and %s" % (recv.ty, x.ty), node)
        return Val(recv.ty, op(recv.t, x.t))

    def m_set_union(self, recv, node, st, recv_node):
        return self._setop(recv, node, st, z3.SetUnion)

    def m_set_intersection(self, recv, node, st, recv_node):
        return self._setop(recv, node, st, z3.SetIntersect)

    def m_set_difference(self, recv, node, st, recv_node):
        return self._setop(recv, node, st, z3.SetDifference)

    def m_dict_keys(self, recv, node, st, recv_node):
        return Val(TSet(recv.ty.k), d_dom(recv.t))

    def m_dict_clear(self, recv, node, st, recv_node):
        return self._mutate(recv_node, self.empty_of(recv.ty), st, node)

    def m_dict_get(self, recv, node, st, recv_node):
        args = [self.eval(a, st) for a in node.args]
        k = self.coerce(args[0], recv.ty.k, node)
        default = args[1] if len(args) > 1 else NONE
        if default.ty != TNone and not isinstance(recv.ty.v, TOpt):
            try:
                dv = self.coerce(default, recv.ty.v, node, "default of dict.get")
                return Val(recv.ty.v, z3.If(z3.Select(d_dom(recv.t), k.t), z3.Select(d_val(recv.t), k.t), dv.t))
            except Unsupported:
                pass
        oty = recv.ty.v if isinstance(recv.ty.v, TOpt) else TOpt(recv.ty.v)
        hit = self.coerce(Val(recv.ty.v, z3.Select(d_val(recv.t), k.t)), oty, node)
        dflt = self.coerce(default, oty, node)
        return Val(oty, z3.If(z3.Select(d_dom(recv.t), k.t), hit.t, dflt.t))

    def m_dict_pop(self, recv, node, st, recv_node):
        args = [self.eval(a, st) for a in node.args]
        k = self.coerce(args[0], recv.ty.k, node)
        if len(args) < 2:
            self.hazard("KeyError", z3.Select(d_dom(recv.t), k.t), node, "dict.pop")
        new = Val(recv.ty, d_mk(recv.ty, z3.Store(d_dom(recv.t), k.t, False), d_val(recv.t)))
        had, old = z3.Select(d_dom(recv.t), k.t), z3.Select(d_val(recv.t), k.t)
        self._mutate(recv_node, new, st, node)
        if len(args) == 2 and args[1].ty == recv.ty.v:
            return Val(recv.ty.v, z3.If(had, old, args[1].t))  # d.pop(k, default)
        if len(args) < 2:
            return Val(recv.ty.v, old)
        return NONE  # (a default of another type: the popped value is not used in the subset)

    def m_dict_update(self, recv, node, st, recv_node):
        (o,) = [self.eval(a, st) for a in node.args]
        if o.ty != recv.ty:
            o = self.coerce(o, recv.ty, node, "argument of dict.update")
        k = z3.Const(fresh_name("k"), sort_of(recv.ty.k))
        dom = z3.Lambda([k], z3.Or(z3.Select(d_dom(o.t), k), z3.Select(d_dom(recv.t), k)))
        val = z3.Lambda([k], z3.If(z3.Select(d_dom(o.t), k), z3.Select(d_val(o.t), k), z3.Select(d_val(recv.t), k)))
        return self._mutate(recv_node, Val(recv.ty, d_mk(recv.ty, dom, val)), st, node)

    # ------------------------------------------------------- comprehensions
    def e_ListComp(self, node, st):
        if len(node.generators) == 2 and not any(g.is_async or g.ifs for g in node.generators):
            return self.flatten_comp(node, st)
        if len(node.generators) != 1 or node.generators[0].is_async:
            raise Unsupported("nested comprehension", node)
        g = node.generators[0]
        is_dict_iter = isinstance(g.iter, ast.Call) and isinstance(g.iter.func, ast.Attribute) and g.iter.func.attr in ("items", "keys", "values") and not g.iter.args
        if is_dict_iter and not g.ifs:
            return self.dict_comp_list(node, g, st)
        src = self.eval(g.iter, st)
        if isinstance(src.ty, TOpt):
            src = self.coerce(src, src.ty.elem, node)
        if not isinstance(src.ty, TList):
            h = self.listof_handlers.get(src.ty.key)
            if not h:
                raise Unsupported("comprehension over %s" % src.ty, node)
            src = h(self, src, node, st)
        n = l_len(src.t)
        j = z3.Int(fresh_name("cj"))
        env2 = dict(st.env)
        st2 = st.fork()
        st2.env = env2
        self.bind_target(g.target, Val(src.ty.elem, l_at(src.t, j)), st2, node)

        def under(extra_guards, fn):
            self.bound.append(j)
            self.guards.append(z3.And(0 <= j, j < n))
            self.guards.extend(extra_guards)
            try:
                return fn()
            finally:
                for _ in extra_guards:
                    self.guards.pop()
                self.guards.pop()
                self.bound.pop()

        # facts produced under the bound variable go to st2.pc; move them back
        def sync():
            st.pc.extend(st2.pc[len(st.pc):])

        if not g.ifs:
            elem = under([], lambda: self.eval(node.elt, st2))
            sync()
            ty = TList(elem.ty)
            R = z3.Const(fresh_name("mapped"), sort_of(ty))
            self.fact(st, l_len(R) == n)
            a = z3.Int(fresh_name("a"))
            body = z3.Implies(z3.And(0 <= a, a < n), l_at(R, a) == z3.substitute(elem.t, (j, a)))
            self.fact(st, forall([a], body, patterns=[l_at(R, a), l_at(src.t, a)]))
            return Val(ty, R)
        # filter: witness functions (order preserving, sound, complete)
        conds = under([], lambda: [self.truthy(self.eval(c, st2), node) for c in g.ifs])
        cond = z3.And(*conds) if len(conds) > 1 else conds[0]
        elem = under([cond], lambda: self.eval(node.elt, st2))
        sync()
        ty = TList(elem.ty)
        R = z3.Const(fresh_name("filt"), sort_of(ty))
        s = z3.Function(fresh_name("s"), z3.IntSort(), z3.IntSort())
        inv = z3.Function(fresh_name("sinv"), z3.IntSort(), z3.IntSort())
        a, b = z3.Int(fresh_name("a")), z3.Int(fresh_name("b"))
        sub = lambda t, x: z3.substitute(t, (j, x))
        self.fact(st, l_len(R) >= 0)
        self.fact(st, l_len(R) <= n)
        self.fact(st, forall([a], z3.Implies(z3.And(0 <= a, a < l_len(R)),
                                                z3.And(0 <= s(a), s(a) < n, sub(cond, s(a)), l_at(R, a) == sub(elem.t, s(a)),
                                                       inv(s(a)) == a)),
                                patterns=[l_at(R, a), s(a)]))
        self.fact(st, forall([a, b], z3.Implies(z3.And(0 <= a, a < b, b < l_len(R)), s(a) < s(b)),
                                patterns=[z3.MultiPattern(s(a), s(b))]))
        self.fact(st, forall([a], z3.Implies(z3.And(0 <= a, a < n, sub(cond, a)),
                                                z3.And(0 <= inv(a), inv(a) < l_len(R), s(inv(a)) == a, S.Tr(inv(a)))),
                                patterns=[inv(a)] if True else None))
        # completeness trigger on the source element as well
        self.fact(st, forall([a], z3.Implies(z3.And(0 <= a, a < n, sub(cond, a)),
                                                z3.And(0 <= inv(a), inv(a) < l_len(R), s(inv(a)) == a, S.Tr(inv(a)))),
                                patterns=[l_at(src.t, a)]))
        self.last_filter = dict(R=R, s=s, inv=inv, src=src, cond=cond, j=j)
        st.ghost = dict(st.ghost)
        st.ghost["last_filter"] = self.last_filter  # per path (the executor-wide attribute is overwritten by other paths)
        return Val(ty, R)

    def dict_comp_list(self, node, g, st):
        """[f(k, v) for k, v in d.items()] (also keys()/values()): one element per key, in the dict's iteration order
        (a fresh duplicate-free enumeration of the key set; recorded in st.ghost['dict_iters'] for the sidecar)."""
        n, ks, elem, extra = self.iter_spec(g.iter, st, node)
        if "dict" not in extra:
            raise Unsupported("comprehension over %s" % ast.dump(g.iter)[:40], node)
        j = z3.Int(fresh_name("cj"))
        st2 = st.fork()
        st2.env = dict(st.env)
        self.bind_target(g.target, elem(j), st2, node)
        self.bound.append(j)
        self.guards.append(z3.And(0 <= j, j < n))
        try:
            e = self.eval(node.elt, st2)
        finally:
            self.guards.pop()
            self.bound.pop()
        st.pc.extend(st2.pc[len(st.pc):])
        ty = TList(e.ty)
        R = z3.Const(fresh_name("mapped"), sort_of(ty))
        a = z3.Int(fresh_name("a"))
        self.fact(st, l_len(R) == n)
        self.fact(st, forall([a], z3.Implies(z3.And(0 <= a, a < n), l_at(R, a) == z3.substitute(e.t, (j, a))), patterns=[l_at(R, a), l_at(ks.t, a)]))
        st.ghost = dict(st.ghost)
        st.ghost["dict_iters"] = list(st.ghost.get("dict_iters", [])) + [dict(keys=ks, idx=extra["idx"], dict=extra["dict"], out=Val(ty, R))]
        return Val(ty, R)

    def flatten_comp(self, node, st):
        """(i for p in pairs for i in p) where every p is a tuple of fixed arity m over one type: the concatenation p0 ++ p1 ++ ..."""
        g1, g2 = node.generators
        if not (isinstance(g1.target, ast.Name) and isinstance(g2.iter, ast.Name) and g2.iter.id == g1.target.id
                and isinstance(g2.target, ast.Name) and isinstance(node.elt, ast.Name) and node.elt.id == g2.target.id):
            raise Unsupported("nested comprehension (only the flattening form is supported)", node)
        src = self.eval(g1.iter, st)
        if not (isinstance(src.ty, TList) and isinstance(src.ty.elem, TTuple) and len(set(e.key for e in src.ty.elem.elems)) == 1):
            raise Unsupported("flattening over %s" % src.ty, node)
        m = len(src.ty.elem.elems)
        ety = src.ty.elem.elems[0]
        ty = TList(ety)
        R = z3.Const(fresh_name("flat"), sort_of(ty))
        a = z3.Int(fresh_name("a"))
        n = l_len(src.t)
        self.fact(st, l_len(R) == m * n)
        for c in range(m):
            self.fact(st, forall([a], z3.Implies(z3.And(0 <= a, a < n), l_at(R, m * a + c) == t_get(l_at(src.t, a), c)), patterns=[l_at(src.t, a)]))
        return Val(ty, R)

    def b_zip(self, node, st):
        """zip(a, b) consumed as a sequence: the list of pairs, as long as the shorter argument"""
        vals = [self.eval(a, st) for a in node.args]
        if len(vals) != 2 or not all(isinstance(v.ty, TList) for v in vals):
            raise Unsupported("zip of %s" % [str(v.ty) for v in vals], node)
        a, b = vals
        ety = TTuple([a.ty.elem, b.ty.elem])
        ty = TList(ety)
        Z = z3.Const(fresh_name("zipped"), sort_of(ty))
        j = z3.Int(fresh_name("j"))
        n = z3.If(l_len(a.t) <= l_len(b.t), l_len(a.t), l_len(b.t))
        self.fact(st, l_len(Z) == n)
        self.fact(st, forall([j], z3.Implies(z3.And(0 <= j, j < n), l_at(Z, j) == t_mk(ety, l_at(a.t, j), l_at(b.t, j))), patterns=[l_at(Z, j)]))
        return Val(ty, Z)

    def b_iter(self, node, st):
        """iter(x): for an object with an __iter__ contract, the sequence it yields (A-gen); for a list, the list"""
        (a,) = node.args
        v = self.eval(a, st)
        if isinstance(v.ty, TList):
            return v
        if isinstance(v.ty, TObj):
            info = S.CLASSES[v.ty.cls]
            q = "%s.%s.__iter__" % (info["module"], info.get("source_class", v.ty.cls))
            if q in S.REGISTRY:
                return self.call_contract(S.REGISTRY[q], [v], {}, node, st, recv_node=a)
        raise Unsupported("iter() of %s" % v.ty, node)

    def b___filter_indices__(self, node, st):
        """ghost only: for the filtering comprehension evaluated last on this path, the source index behind each element of its result"""
        lf = st.ghost.get("last_filter")
        if lf is None:
            raise Unsupported("__filter_indices__ without a filtering comprehension before it", node)
        ty = TList(TInt)
        G = z3.Const(fresh_name("filter_indices"), sort_of(ty))
        a = z3.Int(fresh_name("a"))
        self.fact(st, l_len(G) == l_len(lf["R"]))
        self.fact(st, forall([a], z3.Implies(z3.And(0 <= a, a < l_len(G)), l_at(G, a) == lf["s"](a)), patterns=[l_at(G, a)]))
        return Val(ty, G)

    def b___choose__(self, node, st):
        """ghost only: some element of a set (an arbitrary value when the set is empty)"""
        (v,) = [self.eval(a, st) for a in node.args]
        if not isinstance(v.ty, TSet):
            raise Unsupported("__choose__ of %s" % v.ty, node)
        w = z3.Const(fresh_name("chosen"), sort_of(v.ty.elem))
        x = z3.Const(fresh_name("x"), sort_of(v.ty.elem))
        self.fact(st, z3.Implies(z3.Exists([x], z3.Select(v.t, x)), z3.Select(v.t, w)))
        return Val(v.ty.elem, w)

    def b_str(self, node, st):
        (x,) = [self.eval(a, st) for a in node.args]
        if isinstance(x.ty, TOpt):
            x = self.coerce(x, x.ty.elem, node, "argument of str()")
        if x.ty == TString:
            return x
        h = self.conv_handlers.get(("str", x.ty.key))
        if h:
            return h(self, x, node, st)
        raise Unsupported("str() of %s" % x.ty, node)

    def b_float(self, node, st):
        (x,) = [self.eval(a, st) for a in node.args]
        if isinstance(x.ty, TOpt):
            x = self.coerce(x, x.ty.elem, node, "argument of float()")
        h = self.conv_handlers.get(("float", x.ty.key))
        if h:
            return h(self, x, node, st)
        raise Unsupported("float() of %s" % x.ty, node)

    def b_int(self, node, st):
        (x,) = [self.eval(a, st) for a in node.args]
        if isinstance(x.ty, TOpt):
            x = self.coerce(x, x.ty.elem, node, "argument of int()")
        h = self.conv_handlers.get(("int", x.ty.key))
        if h:
            return h(self, x, node, st)
        raise Unsupported("int() of %s" % x.ty, node)

    def e_DictComp(self, node, st, hint=None):
        """{k: f(k) for k in a_list}: one entry per distinct element (the value is a function of the key alone in this form)"""
        g0 = node.generators[0] if len(node.generators) == 1 else None
        if g0 is not None and not g0.ifs and isinstance(g0.target, ast.Tuple) and len(g0.target.elts) == 2 and all(isinstance(e, ast.Name) for e in g0.target.elts) \
                and isinstance(g0.iter, ast.Call) and isinstance(g0.iter.func, ast.Attribute) and g0.iter.func.attr == "items" and not g0.iter.args \
                and isinstance(node.key, ast.Name) and node.key.id == g0.target.elts[0].id:
            return self.dictcomp_items(node, g0, st)
        if len(node.generators) != 1 or node.generators[0].ifs or not isinstance(node.generators[0].target, ast.Name) \
                or not (isinstance(node.key, ast.Name) and node.key.id == node.generators[0].target.id):
            raise Unsupported("dict comprehension (only {k: f(k) for k in xs} and {k: f(k, v) for k, v in d.items()})", node)
        g = node.generators[0]
        src = self.eval(g.iter, st)
        if not isinstance(src.ty, TList):
            raise Unsupported("dict comprehension over %s" % src.ty, node)
        kty = src.ty.elem
        k0 = z3.Const(fresh_name("dk"), sort_of(kty))
        st2 = st.fork()
        st2.env = dict(st.env)
        st2.env[g.target.id] = Val(kty, k0)
        self.bound.append(k0)
        try:
            v = self.eval_hint(node.value, st2, hint.v if isinstance(hint, TDict) else None) if hasattr(self, "eval_hint") else self.eval(node.value, st2)
        finally:
            self.bound.pop()
        if v.ty.key in ("EmptySet", "EmptyDict", "EmptyList") and isinstance(hint, TDict):
            v = self.coerce(v, hint.v, node)
        st.pc.extend(st2.pc[len(st.pc):])
        ty = TDict(kty, v.ty)
        D = z3.Const(fresh_name("dictcomp"), sort_of(ty))
        pos = z3.Function(fresh_name("dpos"), sort_of(kty), z3.IntSort())
        n = l_len(src.t)
        j = z3.Int(fresh_name("j"))
        self.fact(st, forall([k0], z3.Select(d_dom(D), k0) == z3.And(0 <= pos(k0), pos(k0) < n, l_at(src.t, pos(k0)) == k0), patterns=[z3.Select(d_dom(D), k0)]))
        self.fact(st, forall([k0], S.Tr(pos(k0)), patterns=[pos(k0)]))
        self.fact(st, forall([j], z3.Implies(z3.And(0 <= j, j < n), z3.Select(d_dom(D), l_at(src.t, j))), patterns=[l_at(src.t, j)]))
        self.fact(st, forall([k0], z3.Implies(z3.Select(d_dom(D), k0), z3.Select(d_val(D), k0) == v.t), patterns=[z3.Select(d_val(D), k0)]))
        return Val(ty, D)

    def dictcomp_items(self, node, g, st):
        """{k: f(k, v) for k, v in d.items()}: the same keys, each value transformed"""
        d = self.eval(g.iter.func.value, st)
        if not isinstance(d.ty, TDict):
            raise Unsupported("dict comprehension over items() of %s" % d.ty, node)
        k0 = z3.Const(fresh_name("dk"), sort_of(d.ty.k))
        st2 = st.fork()
        st2.env = dict(st.env)
        st2.env[g.target.elts[0].id] = Val(d.ty.k, k0)
        st2.env[g.target.elts[1].id] = Val(d.ty.v, z3.Select(d_val(d.t), k0))
        self.bound.append(k0)
        self.guards.append(z3.Select(d_dom(d.t), k0))
        try:
            v = self.eval(node.value, st2)
        finally:
            self.guards.pop()
            self.bound.pop()
        st.pc.extend(st2.pc[len(st.pc):])
        st.ghost = dict(st.ghost)
        for gk in ("last_sorted_set",):
            if gk in st2.ghost:
                st.ghost[gk] = st2.ghost[gk]
        ty = TDict(d.ty.k, v.ty)
        R = z3.Const(fresh_name("dictcomp"), sort_of(ty))
        self.fact(st, d_dom(R) == d_dom(d.t))
        self.fact(st, forall([k0], z3.Implies(z3.Select(d_dom(d.t), k0), z3.Select(d_val(R), k0) == v.t), patterns=[z3.Select(d_val(R), k0)]))
        return Val(ty, R)

    def e_GeneratorExp(self, node, st):
        # A-gen: a generator argument is consumed without observable interleaving
        return self.e_ListComp(node, st)

    def bind_target(self, target, val, st, node):
        if isinstance(target, ast.Name):
            st.env[target.id] = val
            st.owned.discard(target.id)
            return
        if isinstance(target, ast.Tuple) and isinstance(val.ty, TTuple) and len(target.elts) == len(val.ty.elems):
            for i, e in enumerate(target.elts):
                self.bind_target(e, Val(val.ty.elems[i], t_get(val.t, i)), st, node)
            return
        raise Unsupported("binding target", node)


class _Shift:
    """View of a constructor contract without its `self` parameter."""

    def __init__(self, con):
        self.qualname = con.qualname
        names = list(con.params)[1:]
        self.params = {n: con.params[n] for n in names}
        self.defaults = con.defaults
