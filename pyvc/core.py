"""pyvc core: type descriptors, z3 sorts, symbolic values.

Every symbolic value is a pair (type descriptor, z3 term), except objects
(TObj), which are Python-side records attr -> Val (functional update).

Encoding of Python containers (see DESIGN.md 2.3 and 12):

  List[T]   datatype L(len: Int, arr: Array(Int, T)); elements at positions
            >= len are junk, so list equality must be stated extensionally.
  Set[T]    Array(T, Bool) (characteristic function).
  Dict[K,V] datatype D(dom: Array(K, Bool), val: Array(K, V)); iteration order
            is a fresh key sequence per iteration site.
  Optional  datatype O(none | some(v)).
  Tuple     datatype with one accessor per component.
"""

import itertools
import z3

_counter = itertools.count()


def fresh_name(base):
    return "%s!%d" % (base, next(_counter))


# ---------------------------------------------------------------- types


class Ty:
    key = "?"

    def __eq__(self, other):
        return isinstance(other, Ty) and self.key == other.key

    def __hash__(self):
        return hash(self.key)

    def __repr__(self):
        return self.key


class _Prim(Ty):
    def __init__(self, key):
        self.key = key


TInt = _Prim("Int")
TBool = _Prim("Bool")
TReal = _Prim("Real")
TNone = _Prim("None")
TString = _Prim("String")  # z3 string theory (codec only)


class TU(Ty):
    """Uninterpreted sort (abstract strings, points, queries, ...)."""

    def __init__(self, name):
        self.name = name
        self.key = name


TStr = TU("Str")


class TList(Ty):
    def __init__(self, elem):
        self.elem = elem
        self.key = "L_%s" % elem.key


class TSet(Ty):
    def __init__(self, elem):
        self.elem = elem
        self.key = "S_%s" % elem.key


class TDict(Ty):
    def __init__(self, k, v):
        self.k, self.v = k, v
        self.key = "D_%s_%s" % (k.key, v.key)


class TTuple(Ty):
    def __init__(self, elems):
        self.elems = list(elems)
        self.key = "T_" + "_".join(e.key for e in self.elems) + "_"


class TOpt(Ty):
    def __init__(self, elem):
        assert not isinstance(elem, TOpt)
        self.elem = elem
        self.key = "O_%s" % elem.key


class TObj(Ty):
    """Python-side record; fields come from the class table."""

    def __init__(self, cls):
        self.cls = cls
        self.key = "Obj_%s" % cls


class TFun(Ty):
    """A callable known to the prelude / sidecar by name (not first class)."""

    def __init__(self, name):
        self.name = name
        self.key = "Fun_%s" % name


_sorts = {}


def sort_of(ty):
    k = ty.key
    if k in _sorts:
        return _sorts[k]
    if ty is TInt or ty.key == "Int":
        s = z3.IntSort()
    elif ty.key == "Bool":
        s = z3.BoolSort()
    elif ty.key == "Real":
        s = z3.RealSort()
    elif ty.key == "String":
        s = z3.StringSort()
    elif ty.key == "None":
        s = z3.DeclareSort("NoneT")
    elif isinstance(ty, TU):
        s = z3.DeclareSort(ty.name)
    elif isinstance(ty, TList):
        d = z3.Datatype(k)
        d.declare("mk_" + k, ("len_" + k, z3.IntSort()), ("arr_" + k, z3.ArraySort(z3.IntSort(), sort_of(ty.elem))))
        s = d.create()
    elif isinstance(ty, TSet):
        s = z3.ArraySort(sort_of(ty.elem), z3.BoolSort())
    elif isinstance(ty, TDict):
        d = z3.Datatype(k)
        d.declare(
            "mk_" + k,
            ("dom_" + k, z3.ArraySort(sort_of(ty.k), z3.BoolSort())),
            ("val_" + k, z3.ArraySort(sort_of(ty.k), sort_of(ty.v))),
        )
        s = d.create()
    elif isinstance(ty, TTuple):
        d = z3.Datatype(k)
        d.declare("mk_" + k, *[("f%d_%s" % (i, k), sort_of(e)) for i, e in enumerate(ty.elems)])
        s = d.create()
    elif isinstance(ty, TOpt):
        d = z3.Datatype(k)
        d.declare("none_" + k)
        d.declare("some_" + k, ("v_" + k, sort_of(ty.elem)))
        s = d.create()
    else:
        raise TypeError("no sort for %r" % (ty,))
    _sorts[k] = s
    return s


# ---------------------------------------------------------------- values


class Val:
    __slots__ = ("ty", "t")

    def __init__(self, ty, t):
        self.ty = ty
        self.t = t

    def __repr__(self):
        return "Val(%s, %s)" % (self.ty, self.t if not isinstance(self.t, dict) else "{...}")


NONE = Val(TNone, None)


def fresh(ty, base="v", classes=None):
    """A fresh symbolic value of type ty."""
    if isinstance(ty, TObj):
        fields = classes[ty.cls]
        return Val(ty, {a: fresh(t, "%s.%s" % (base, a), classes) for a, t in fields.items()})
    if ty.key == "None":
        return NONE
    return Val(ty, z3.Const(fresh_name(base), sort_of(ty)))


def mk_int(n):
    return Val(TInt, z3.IntVal(n))


def mk_bool(b):
    return Val(TBool, z3.BoolVal(bool(b)))


# -- list helpers (terms)


def l_len(t):
    return t.sort().accessor(0, 0)(t)


def l_arr(t):
    return t.sort().accessor(0, 1)(t)


def l_at(t, j):
    return z3.Select(l_arr(t), j)


def l_mk(ty, n, arr):
    return sort_of(ty).constructor(0)(n, arr)


def d_dom(t):
    return t.sort().accessor(0, 0)(t)


def d_val(t):
    return t.sort().accessor(0, 1)(t)


def d_mk(ty, dom, val):
    return sort_of(ty).constructor(0)(dom, val)


def o_none(ty):
    return sort_of(ty).constructor(0)()


def o_some(ty, v):
    return sort_of(ty).constructor(1)(v)


def o_is_none(t):
    return t.sort().recognizer(0)(t)


def o_is_some(t):
    return t.sort().recognizer(1)(t)


def o_val(t):
    return t.sort().accessor(1, 0)(t)


def t_get(t, i):
    return t.sort().accessor(0, i)(t)


def t_mk(ty, *args):
    return sort_of(ty).constructor(0)(*args)


# -- distinguished constants of abstract sorts

EMPTY_STR = z3.Const("EMPTY_STR", sort_of(TStr))


def str_const(s):
    """A named constant of the abstract Str sort for the Python literal s.

    Distinct literals are made distinct by the executor (it asserts
    pairwise distinctness of the literals met in one function)."""
    if s == "":
        return EMPTY_STR
    return z3.Const("str:%s" % s, sort_of(TStr))


def has_list(ty):
    if isinstance(ty, TList):
        return True
    if isinstance(ty, TDict):
        return has_list(ty.v)
    if isinstance(ty, TOpt):
        return has_list(ty.elem)
    if isinstance(ty, TTuple):
        return any(has_list(e) for e in ty.elems)
    return False


def wf_term(ty, t):
    """Well-formedness of a symbolic value: list lengths are non-negative (at any depth)."""
    if isinstance(ty, TList):
        fs = [l_len(t) >= 0]
        if has_list(ty.elem):
            j = z3.Int(fresh_name("wj"))
            fs.append(z3.ForAll([j], z3.And(*wf_term(ty.elem, l_at(t, j))), patterns=[l_at(t, j)]))
        return fs
    if isinstance(ty, TDict) and has_list(ty.v):
        k = z3.Const(fresh_name("wk"), sort_of(ty.k))
        return [z3.ForAll([k], z3.And(*wf_term(ty.v, z3.Select(d_val(t), k))), patterns=[z3.Select(d_val(t), k)])]
    if isinstance(ty, TOpt) and has_list(ty.elem):
        return [z3.Implies(o_is_some(t), z3.And(*wf_term(ty.elem, o_val(t))))]
    if isinstance(ty, TTuple) and has_list(ty):
        return [f for i, e in enumerate(ty.elems) for f in wf_term(e, t_get(t, i))]
    return []


def wf(val):
    if isinstance(val.ty, TObj):
        return [f for v in val.t.values() for f in wf(v)]
    if val.t is None:
        return []
    return wf_term(val.ty, val.t)


def forall(vs, body, patterns=None):
    """z3.ForAll with patterns when z3 accepts them (terms that simplify to ite/and are rejected)."""
    if patterns:
        try:
            return z3.ForAll(vs, body, patterns=patterns)
        except z3.Z3Exception:
            good = []
            for p_ in patterns:
                try:
                    z3.ForAll(vs, body, patterns=[p_])
                    good.append(p_)
                except z3.Z3Exception:
                    pass
            if good:
                return z3.ForAll(vs, body, patterns=good)
    return z3.ForAll(vs, body)


class Unsupported(Exception):
    """The construct is outside the accepted subset: the function is undecided."""

    def __init__(self, msg, node=None):
        self.node = node
        line = getattr(node, "lineno", None)
        super().__init__("%s (line %s)" % (msg, line))
