"""Symbolic state, outcomes, hazards, obligations."""

import z3


class State:
    def __init__(self):
        self.env = {}
        self.pc = []  # path condition and facts (z3 Bool)
        self.path = []  # branch decisions, for obligation names
        self.owned = set()  # names bound to values no other name can reach
        self.loops = {}  # ordinal -> LoopInfo
        self.ghost = {}  # free-form ghost values (I/O trace, ...)

    def fork(self):
        s = State()
        s.env = dict(self.env)
        s.pc = list(self.pc)
        s.path = list(self.path)
        s.owned = set(self.owned)
        s.loops = dict(self.loops)
        s.ghost = dict(self.ghost)
        return s

    def assume(self, f):
        self.pc.append(f)

    def tag(self, s):
        self.path.append(s)

    def pathname(self):
        return ",".join(self.path) if self.path else "-"


class Outcome:
    __slots__ = ("kind", "st", "val", "exc")

    def __init__(self, kind, st, val=None, exc=None):
        self.kind = kind  # normal | return | break | continue | raise
        self.st = st
        self.val = val
        self.exc = exc


class Hazard:
    """A condition under which evaluating an expression raises."""

    __slots__ = ("kind", "safe", "node", "what", "state", "pc_len", "may")

    def __init__(self, kind, safe, node=None, what="", state=None, pc_len=None, may=False):
        self.may = may  # the exception MAY be raised when `safe` is false (an inexact raises clause): continuing does not establish `safe`
        self.pc_len = pc_len  # number of path-condition facts that existed when the hazard was met
        self.kind = kind  # KeyError, IndexError, TypeError, Requires, ...
        self.safe = safe  # z3 Bool: evaluation does NOT raise here
        self.node = node
        self.what = what
        self.state = state  # the state in which the exception is raised, when it differs from the statement's end state


class Obligation:
    __slots__ = ("name", "hyps", "goal", "kind", "meta")

    def __init__(self, name, hyps, goal, kind="ensures", meta=None):
        self.name = name
        self.hyps = list(hyps)
        self.goal = goal
        self.kind = kind
        self.meta = meta or {}
