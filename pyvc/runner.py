"""Run a cone of functions: symbolic execution + solving on a process pool."""

import json
import multiprocessing as mp
import os
import sys
import time
import traceback


def _load_contracts():
    import importlib
    import pkgutil
    import contracts

    for m in pkgutil.iter_modules(contracts.__path__):
        importlib.import_module("contracts." + m.name)


def _worker(task):
    qualname, shard, nshards, timeout_ms, seed, want_canary, only_names = task
    t0 = time.time()
    out = dict(function=qualname, shard=shard, results=[], error=None, unsupported=None)
    try:
        _load_contracts()
        from pyvc import spec as S
        from pyvc import front
        from pyvc.verify import verify_function
        from pyvc.solve import discharge, canary
        from pyvc.core import Unsupported
        from pyvc.concretize import conc_env

        if qualname.startswith("lemma:"):
            obs = S.LEMMAS[qualname[6:]]()
            out["fingerprint"] = "lemma"
            out["n_obligations"] = len(obs)
            out["used_contracts"] = []
            for i, ob in enumerate(obs):
                if i % nshards != shard or (only_names is not None and ob.name not in only_names):
                    continue
                r = discharge(ob, timeout_ms=timeout_ms, seed=seed, strings=bool(ob.meta.get("strings")))
                r["function"] = qualname
                out["results"].append(r)
            if want_canary and shard == 0:
                # vacuity: the hypotheses of each lemma obligation must not be refutable
                seen = {}
                for ob in obs:  # obligations of one lemma often share their hypotheses: one canary per distinct set
                    key = tuple(h.get_id() for h in ob.hyps)
                    if key not in seen:
                        seen[key] = canary(ob.hyps, strings=bool(ob.meta.get("strings")))
                out["canaries"] = [("lemma", ob.name, seen[tuple(h.get_id() for h in ob.hyps)]) for ob in obs]
            out["seconds"] = round(time.time() - t0, 3)
            return out
        con = S.REGISTRY[qualname]
        try:
            ex, obs = verify_function(qualname)
        except Unsupported as e:
            out["unsupported"] = str(e)
            try:
                mod, fn = front.find_function(getattr(con, "source", qualname))
                out["fingerprint"] = front.fingerprint(fn)
            except Exception as e2:
                out["unsupported"] += " / %s" % e2
            out["seconds"] = time.time() - t0
            return out
        out["fingerprint"] = front.fingerprint(ex.fn)
        if ex.inlined:
            # the decorator wrappers spliced around the body are part of the verified text: a change in one of them is a change of this function
            import hashlib

            out["fingerprint"] = hashlib.sha256((out["fingerprint"] + "|".join(ex.inlined)).encode()).hexdigest()[:16]
        out["n_obligations"] = len(obs)
        out["names"] = [o.name for o in obs] if shard == 0 else None
        out["used_contracts"] = sorted(ex.used_contracts)
        out["pruned"] = ex.pruned if shard == 0 else None
        out["symexec_s"] = round(time.time() - t0, 3)
        strings = getattr(con, "string_mode", False)
        for i, ob in enumerate(obs):
            if i % nshards != shard:
                continue
            if only_names is not None and ob.name not in only_names:
                continue
            r = discharge(ob, timeout_ms=timeout_ms, seed=seed, strings=strings,
                          on_model=lambda m: conc_env(m, ex.old_ctx._env))
            r["function"] = qualname
            out["results"].append(r)
        if want_canary and shard == 0:
            can = []
            for kind, path, pc in ex.exits:
                can.append((kind, path, canary(pc, strings=strings)))
            out["canaries"] = can
    except Exception as e:
        out["error"] = "%s: %s\n%s" % (type(e).__name__, e, traceback.format_exc()[-1500:])
    out["seconds"] = round(time.time() - t0, 3)
    return out


def _run_tasks(tasks, procs):
    """Run the tasks in worker processes; a worker that dies (z3 5.1's sequence solver occasionally segfaults) does not hang or lose the run:
    its task - and those that were cancelled with it - are run again in fresh processes with another solver seed, up to three times;
    a task that keeps killing its worker yields a checker-error record (exit 3), never a verdict."""
    from concurrent.futures import ProcessPoolExecutor, as_completed

    ctx = mp.get_context("fork")
    outs = [None] * len(tasks)
    pending = list(range(len(tasks)))
    attempt = 0
    while pending and attempt < 3:
        failed = []
        todo = []
        for i in pending:
            t = list(tasks[i])
            t[4] = t[4] + 7 * attempt  # another solver seed on a re-run
            todo.append((i, tuple(t)))
        workers = min(procs, max(1, len(todo))) if attempt == 0 else min(4, len(todo))
        with ProcessPoolExecutor(max_workers=workers, mp_context=ctx) as ex:
            futs = {ex.submit(_worker, t): i for i, t in todo}
            for f in as_completed(futs):
                i = futs[f]
                try:
                    outs[i] = f.result()
                except Exception as e:  # BrokenProcessPool: some worker died
                    failed.append(i)
        pending = failed
        attempt += 1
    for i in pending:
        q = tasks[i][0]
        outs[i] = dict(function=q, shard=tasks[i][1], results=[], error="worker process died three times (solver crash) while working on %s shard %d" % (q, tasks[i][1]), seconds=0.0)
    return outs


def run_cone(functions, timeout_ms=10000, seed=0, shards=None, procs=16, want_canary=True, only_names=None):
    """-> dict function -> merged record"""
    shards = shards or {}
    tasks = []
    for q in functions:
        k = shards.get(q, 1)
        for i in range(k):
            tasks.append((q, i, k, timeout_ms, seed, want_canary, only_names))
    outs = _run_tasks(tasks, procs)
    merged = {}
    for o in outs:
        m = merged.setdefault(o["function"], dict(function=o["function"], results=[], error=None, unsupported=None, seconds=0.0))
        m["results"] += o["results"]
        m["seconds"] = max(m["seconds"], o.get("seconds", 0))
        for k in ("error", "unsupported"):
            if o.get(k):
                m[k] = o[k]
        for k in ("fingerprint", "n_obligations", "used_contracts", "symexec_s"):
            if o.get(k) is not None:
                m[k] = o[k]
        for k in ("names", "pruned", "canaries"):
            if o.get(k) is not None:
                m[k] = o[k]
    return merged
