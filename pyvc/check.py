"""The check driver: ./check <ID> [--tier quick|thorough] [--replay FILE] [--rebaseline]

Exit codes: 0 held (possibly with KNOWN-FINDING lines) - 1 VIOLATION -
2 undecided - 3 checker error (engine crash, zero obligations, vacuity).
"""

import argparse
import hashlib
import importlib
import json
import os
import re
import shutil
import subprocess
import sys
import tempfile
import time

ROOT = os.path.dirname(os.path.dirname(os.path.abspath(__file__)))
sys.path.insert(0, ROOT)
VENV_PY = "/venv/bin/python"


def repo_path():
    return os.environ.get("PYVC_REPO", "/repo")


def load_json(path, default):
    try:
        with open(path) as f:
            return json.load(f)
    except FileNotFoundError:
        return default


def run_real(script, args, scratch, timeout=3600, input_json=None):
    """Run a stand-in / replay script on the real code under /venv/bin/python."""
    env = dict(os.environ)
    env["PYTHONPATH"] = repo_path() + os.pathsep + ROOT
    env["TMPDIR"] = scratch
    env["PYTHONDONTWRITEBYTECODE"] = "1"
    p = subprocess.run([VENV_PY, os.path.join(ROOT, script)] + list(args), capture_output=True, text=True,
                       timeout=timeout, env=env, cwd=scratch, input=input_json)
    last = (p.stdout or "").strip().splitlines()
    try:
        return json.loads(last[-1]) if last else dict(error="no output", stderr=p.stderr[-2000:])
    except Exception:
        return dict(error="unparsable output", stdout=p.stdout[-2000:], stderr=p.stderr[-2000:])


def contracts_hash():
    h = hashlib.sha256()
    for d in ("contracts", "pyvc"):
        for fn in sorted(os.listdir(os.path.join(ROOT, d))):
            if fn.endswith(".py"):
                with open(os.path.join(ROOT, d, fn), "rb") as f:
                    h.update(f.read())
    return h.hexdigest()[:16]


def main(argv=None):
    ap = argparse.ArgumentParser()
    ap.add_argument("prop")
    ap.add_argument("--tier", default=os.environ.get("VERIF_TIER", "quick"))
    ap.add_argument("--replay")
    ap.add_argument("--rebaseline", action="store_true")
    ap.add_argument("--verbose", "-v", action="store_true")
    ap.add_argument("--no-standin", action="store_true")
    ap.add_argument("--only", help="regex on function qualnames (debugging; never used by registered commands)")
    a = ap.parse_args(argv)
    tier = os.environ.get("VERIF_TIER") or a.tier
    if tier not in ("quick", "thorough"):
        tier = "quick"
    seed = int(os.environ.get("VERIF_SEED", "0") or 0)
    pid = a.prop
    prop = importlib.import_module("props." + pid)
    t0 = time.time()
    scratch = tempfile.mkdtemp(prefix="pyvc-%s-" % pid, dir=os.path.join(ROOT, ".scratch") if os.path.isdir(os.path.join(ROOT, ".scratch")) else None)
    os.environ["PYVC_TMP"] = scratch
    try:
        if a.replay:
            return do_replay(prop, a.replay, scratch)
        return do_check(prop, pid, tier, seed, a, scratch, t0)
    finally:
        shutil.rmtree(scratch, ignore_errors=True)


def selftest_phase(pid, functions, known, scratch, timeout_ms, out_of_scope=()):
    """Apply each deliberate edit of selftest/mutations.py that targets this property to a scratch copy of the package and re-verify the
    functions it touches: a property-breaking edit must fail some obligation, a harmless one must fail none (proof only, no stand-in)."""
    from pyvc import front
    from pyvc.runner import run_cone
    from selftest.mutations import M

    out = dict(what="selftest/mutations.py entries tagged %s, applied one at a time to a scratch copy; only the functions whose AST changed are re-verified" % pid, results=[])
    orig_repo = front.REPO

    def prints(repo):
        front.REPO = repo
        front.reset_cache()
        fp = {}
        for q in functions:
            if q.startswith("lemma:"):
                continue
            try:
                fp[q] = front.fingerprint(front.find_function(getattr(S_REGISTRY().get(q), "source", None) or q)[1])
            except Exception:
                fp[q] = None
        return fp

    base = prints(orig_repo)
    try:
        for mu in M:
            if pid not in mu["props"]:
                continue
            d = os.path.join(scratch, "mut-" + mu["id"])
            shutil.copytree(os.path.join(orig_repo, "tinyflux"), os.path.join(d, "tinyflux"))
            pth = os.path.join(d, mu["file"])
            src = open(pth).read()
            if src.count(mu["old"]) != 1:
                out["results"].append((mu["id"], "PATTERN-NOT-FOUND"))
                shutil.rmtree(d, ignore_errors=True)
                continue
            with open(pth, "w") as f:
                f.write(src.replace(mu["old"], mu["new"]))
            now = prints(d)
            changed = [q for q in base if now.get(q) != base[q]]
            if not changed:  # a class constant or a decorator: re-verify everything of that file
                mod = mu["file"][:-3].replace("/", ".")
                changed = [q for q in base if q.startswith(mod + ".")]
            merged = run_cone(changed, timeout_ms=min(timeout_ms, 20000), seed=0, shards={q: 8 for q in changed}, want_canary=False)
            bad = 0
            for q, m_ in merged.items():
                if m_.get("error") or m_.get("unsupported"):
                    bad += 0 if mu["harmless"] else 1
                    continue
                bad += sum(1 for r in m_["results"] if r["result"] != "unsat" and match_known(known, r["name"]) is None and not any(re.search(pt, r["name"]) for pt in out_of_scope))
            verdict = ("OK-stays-green" if bad == 0 else "FALSE-ALARM") if mu["harmless"] else ("OK-refused" if bad else "MISSED")
            out["results"].append((mu["id"], verdict))
            shutil.rmtree(d, ignore_errors=True)
    finally:
        front.REPO = orig_repo
        front.reset_cache()
    out["mutants"] = len(out["results"])
    out["refused_or_green_as_expected"] = sum(1 for _, v in out["results"] if v.startswith("OK"))
    return out


def S_REGISTRY():
    from pyvc.runner import _load_contracts
    from pyvc import spec as S

    _load_contracts()
    return S.REGISTRY


def do_replay(prop, path, scratch):
    rep = load_json(path, None)
    if rep is None:
        print("no such replay file", path)
        return 3
    if not rep.get("script"):
        print("replay file carries no failing input (obligation: %s)" % rep.get("obligation"))
        print(json.dumps(rep.get("solver", {}), indent=1)[:3000])
        return 1
    r = run_real(rep["script"], ["--mode", "replay"], scratch, input_json=json.dumps(rep))
    print(json.dumps(r, indent=1)[:4000])
    return 1 if r.get("reproduced") else 0


def do_check(prop, pid, tier, seed, a, scratch, t0):
    from pyvc.runner import run_cone
    from pyvc import front

    timeout_ms = 10000 if tier == "quick" else 60000
    functions = list(prop.FUNCTIONS)
    if a.only:
        functions = [f for f in functions if re.search(a.only, f)]
    merged = run_cone(functions, timeout_ms=timeout_ms, seed=seed, shards=getattr(prop, "SHARDS", {}))
    baseline = load_json(os.path.join(ROOT, "baseline", pid + ".json"), {})
    known = [k for k in load_json(os.path.join(ROOT, "known_findings.json"), {}).get("findings", []) if pid in k.get("properties", [k.get("property")])]

    lines = []
    violations = []
    undecided = []
    errors = []
    known_hit = {}
    all_results = []
    unsupported = {}
    for q in functions:
        m = merged.get(q)
        if m is None or m.get("error"):
            errors.append("%s: %s" % (q, (m or {}).get("error", "no result")))
            continue
        if m.get("unsupported"):
            unsupported[q] = m["unsupported"]
            continue
        if not m.get("n_obligations"):
            errors.append("%s: zero obligations" % q)
        elif not q.startswith("lemma:") and m.get("names") and not any(("/ensures[" in n_) or ("/raises[" in n_) or ("/frame[" in n_) for n_ in m["names"]):
            errors.append("%s: no postcondition obligation at all (a contract without `ensures` proves nothing about the result)" % q)
        all_results += m["results"]

    # obligations of a shared function that state another property's claim are left to that property's check (listed in the evidence)
    oos_pats = getattr(prop, "OUT_OF_SCOPE", [])
    out_of_scope = [r["name"] for r in all_results if any(re.search(pt, r["name"]) for pt in oos_pats)]
    all_results = [r for r in all_results if r["name"] not in set(out_of_scope)]
    discharged = [r for r in all_results if r["result"] == "unsat"]
    failing = [r for r in all_results if r["result"] != "unsat"]

    # ---- vacuity guards
    vacuity = {}
    for q, m in merged.items():
        cans = m.get("canaries") or []
        if cans and all(c[2] == "unreachable" for c in cans):
            vacuity.setdefault(q, []).append("%s: every exit path is unreachable (inconsistent hypotheses)" % q)
        rets = [c for c in cans if c[0] == "return"]
        if rets and all(c[2] == "unreachable" for c in rets):
            vacuity.setdefault(q, []).append("%s: every normal-return path is unreachable (inconsistent hypotheses on the normal path)" % q)
        b = baseline.get("functions", {}).get(q)
        if b and m.get("fingerprint") == b["fingerprint"] and m.get("n_obligations") is not None and not a.only:
            if m["n_obligations"] != b["n_obligations"] and baseline.get("contracts_hash") == contracts_hash():
                errors.append("%s: obligation count %s differs from baseline %s on an unchanged function" % (q, m["n_obligations"], b["n_obligations"]))

    # ---- triage of failing obligations
    def changed(q):
        b = baseline.get("functions", {}).get(q)
        return b is None or b["fingerprint"] != merged[q].get("fingerprint")

    retry = []
    for r in failing:
        kf = match_known(known, r["name"])
        if kf is not None:
            known_hit.setdefault(kf["id"], (kf, []))[1].append(r["name"])
            continue
        if not changed(r["function"]) and r["result"] == "unknown":
            retry.append(r)
            continue
        violations.append(r)
    # an edited function whose loop invariant / cut already fails makes the paths behind it inconsistent: that is a consequence of the
    # reported violation, not a defect of the checker; anywhere else unreachable exits are a checker error
    for q, msgs in vacuity.items():
        if not any(r["function"] == q for r in violations):
            errors.extend(msgs)
    if retry:
        # Same VC as on the baseline (function and contracts unchanged): a solver
        # flake, not a change in the code.  Retry alone, with a long budget.
        names = {r["name"] for r in retry}
        fns = sorted({r["function"] for r in retry})
        again = run_cone(fns, timeout_ms=120000, seed=seed + 1, shards={q: min(8, len(names)) for q in fns}, want_canary=False, only_names=names)
        for q, m in again.items():
            for r2 in m["results"]:
                if r2["result"] == "unsat":
                    r2["retried"] = True
                    all_results[:] = [x for x in all_results if x["name"] != r2["name"]] + [r2]
                elif r2["result"] == "sat":
                    violations.append(r2)
                else:
                    undecided.append(r2)
        discharged = [r for r in all_results if r["result"] == "unsat"]
        failing = [r for r in all_results if r["result"] != "unsat"]

    # functions the engine could not process
    for q, why in unsupported.items():
        b = baseline.get("functions", {}).get(q)
        if b and b.get("unsupported"):
            continue  # known to be outside the subset; served by the stand-in
        undecided.append(dict(name=q + "/<whole function>", function=q, result="unsupported", reason=why))

    # ---- bounded stand-in and witness replays on the real code
    standin = None
    standin_fail = []
    if hasattr(prop, "STANDIN") and not a.no_standin:
        standin = run_real(prop.STANDIN, ["--mode", "bounded", "--tier", tier, "--seed", str(seed), "--prop", pid], scratch)
        if standin.get("error"):
            errors.append("stand-in failed: %s" % json.dumps(standin)[:1500])
        else:
            for f in standin.get("failures", []):
                kf = match_known_witness(known, f)
                if kf is not None:
                    known_hit.setdefault(kf["id"], (kf, []))[1].append("stand-in: " + f.get("what", ""))
                else:
                    standin_fail.append(f)

    os.makedirs(os.path.join(ROOT, "replays"), exist_ok=True)
    vio_lines = []
    for r in violations:
        rep = dict(property=pid, obligation=r["name"], function=r["function"], solver=dict(result=r["result"], backend=r.get("backend"), seconds=r.get("seconds"), reason=r.get("reason"), model=r.get("model")), script=None)
        reproduced = None
        if hasattr(prop, "replay_from_model") and r.get("model"):
            try:
                inp = prop.replay_from_model(r)
            except Exception as e:
                inp = None
                rep["concretize_error"] = str(e)
            if inp is not None:
                rep.update(script=prop.STANDIN, function_inputs=inp)
                rr = run_real(prop.STANDIN, ["--mode", "replay"], scratch, input_json=json.dumps(rep))
                reproduced = bool(rr.get("reproduced"))
                rep["replay_result"] = rr
        if not reproduced:
            # fall back to a failing input found by the stand-in in the same function / any
            cand = [f for f in standin_fail if f.get("function") in (None, r["function"])]
            if cand:
                rep.update(script=prop.STANDIN, standin_failure=cand[0])
                reproduced = True
        if not reproduced:
            rep["script"] = None
        path = os.path.join(ROOT, "replays", "%s-%s.json" % (pid, hashlib.sha1(r["name"].encode()).hexdigest()[:10]))
        with open(path, "w") as f:
            json.dump(rep, f, indent=1, default=str)
        vio_lines.append("VIOLATION property=%s replay=%s%s" % (pid, os.path.relpath(path, ROOT), "" if reproduced else " no-failing-input-found"))
        lines.append("  failed obligation: %s [%s via %s]" % (r["name"], r["result"], r.get("backend")))
    # stand-in failures not explained by a failing obligation are violations too (bounded evidence)
    explained = bool(violations)
    for i, f in enumerate(standin_fail[:5]):
        if explained and i > 0:
            break
        if explained:
            continue
        rep = dict(property=pid, obligation=None, script=prop.STANDIN, standin_failure=f, note="found by the bounded stand-in; no proof obligation failed")
        path = os.path.join(ROOT, "replays", "%s-standin-%d.json" % (pid, i))
        with open(path, "w") as fh:
            json.dump(rep, fh, indent=1, default=str)
        vio_lines.append("VIOLATION property=%s replay=%s" % (pid, os.path.relpath(path, ROOT)))

    for kid, (kf, names) in sorted(known_hit.items()):
        print("KNOWN-FINDING: property=%s %s" % (pid, kf["what"]))
    # a known finding whose obligations no longer fail is simply not printed.

    # ---- thorough tier: the mutation self-test of this property's cone (is a broken body still refused?)
    selftest = None
    if tier == "thorough" and not errors and not vio_lines and not os.environ.get("PYVC_REPO"):
        selftest = selftest_phase(pid, functions, known, scratch, timeout_ms, oos_pats)
        for mid, verdict in selftest["results"]:
            if verdict in ("MISSED", "FALSE-ALARM", "PATTERN-NOT-FOUND"):  # (a pattern that no longer applies means the self-test entry is stale)
                errors.append("self-test: mutant %s of this cone: %s" % (mid, verdict))

    # ---- evidence
    wall = time.time() - t0
    by_backend = {}
    for r in discharged:
        by_backend[r["backend"]] = by_backend.get(r["backend"], 0) + 1
    n_known = sum(len(v[1]) for v in known_hit.values())
    level = "proof" if (not failing and not unsupported and not errors and all_results) else "other"
    if getattr(prop, "LEVEL", None) and level == "proof":
        level = prop.LEVEL  # a cone that is mostly served by the bounded stand-in does not claim `proof`
    cov = dict(
        obligations=len(all_results),
        discharged=len(discharged),
        checker_cmd="./check %s --tier %s  (pyvc: real AST of %s -> z3 %s / cvc5; DESIGN.md 2)" % (pid, tier, repo_path(), z3_version()),
        trusted_base=list(getattr(prop, "TRUSTED", [])),
        functions_under_contract=[dict(function=q, fingerprint=m.get("fingerprint"), obligations=m.get("n_obligations"), symexec_s=m.get("symexec_s"), seconds=m.get("seconds"), unsupported=m.get("unsupported")) for q, m in sorted(merged.items())],
        by_backend=by_backend,
        solver_time_s=round(sum(r.get("seconds", 0) for r in all_results), 3),
        max_obligation_s=max([r.get("seconds", 0) for r in all_results] or [0]),
        assumed_contracts_used=sorted({c for m in merged.values() for c in (m.get("used_contracts") or []) if c in getattr(prop, "ASSUMED", [])}),
        contracts_used=sorted({c for m in merged.values() for c in (m.get("used_contracts") or [])}),
        known_findings_matched=[dict(id=k, what=v[0]["what"], obligations=v[1]) for k, v in sorted(known_hit.items())],
        failed_obligations=[dict(name=r["name"], result=r["result"], backend=r.get("backend"), reason=r.get("reason")) for r in failing][:50],
        undecided=[dict(name=r["name"], reason=r.get("reason")) for r in undecided][:50],
        unsupported_functions=unsupported,
        vacuity=dict(
            canaries={q: dict(exits=len(m.get("canaries") or []), unreachable=[c[1] for c in (m.get("canaries") or []) if c[2] == "unreachable"]) for q, m in sorted(merged.items())},
            pruned_paths={q: m.get("pruned") for q, m in merged.items() if m.get("pruned")},
        ),
        extraction_drops=front.DROPPED,
        samples=[dict(obligation=r["name"], result=r["result"], backend=r["backend"], seconds=r["seconds"]) for r in (all_results[:3] + all_results[-2:])],
        explanation=explain(level, all_results, discharged, n_known, unsupported, standin),
    )
    if selftest is not None:
        cov["mutation_selftest"] = selftest
    if standin and not standin.get("error"):
        cov["bounded"] = dict(what=standin.get("rule"), bound=standin.get("bound"), evaluations=standin.get("evaluations"), distinct_nontrivial=standin.get("distinct_nontrivial"), failures=len(standin.get("failures", [])), samples=standin.get("samples", [])[:3], note="bounded stand-in: never counted in `discharged`")
        cov["evaluations"] = max(1, int(standin.get("evaluations", 0)))
        cov["distinct_nontrivial"] = max(2, int(standin.get("distinct_nontrivial", 0))) if standin.get("distinct_nontrivial", 0) >= 2 else int(standin.get("distinct_nontrivial", 0))
        cov["rule"] = standin.get("rule", "")
    assumptions = list(getattr(prop, "ASSUMPTIONS", []))
    if out_of_scope:
        assumptions.append("%d obligations of shared functions state another property's claim and are decided by that property's check, not here: %s" % (len(out_of_scope), "; ".join(sorted(out_of_scope))[:1500]))
    ev = dict(property_id=pid, tier=tier, seed=seed, level=level, coverage=cov, assumptions=assumptions, wall_s=round(wall, 2), violations=len(vio_lines))
    if os.environ.get("PYVC_REPO"):
        # a run against a scratch copy (seeded change, self-test) is not evidence about /repo: never overwrite the evidence files with it
        print("(run against %s: evidence/%s.json left untouched)" % (os.environ["PYVC_REPO"], pid))
    else:
        os.makedirs(os.path.join(ROOT, "evidence"), exist_ok=True)
        with open(os.path.join(ROOT, "evidence", pid + ".json"), "w") as f:
            json.dump(ev, f, indent=1, default=str)

    if a.rebaseline and os.environ.get("PYVC_REPO"):
        print("NOT rebaselining: PYVC_REPO points at a scratch copy", file=sys.stderr)
    elif a.rebaseline:
        if errors or vio_lines or undecided:
            print("NOT rebaselining: the run is not clean", file=sys.stderr)
        else:
            os.makedirs(os.path.join(ROOT, "baseline"), exist_ok=True)
            b = dict(contracts_hash=contracts_hash(), functions={q: dict(fingerprint=m.get("fingerprint"), n_obligations=m.get("n_obligations"), unsupported=m.get("unsupported"), discharged=sorted(r["name"] for r in m["results"] if r["result"] == "unsat")) for q, m in sorted(merged.items())})
            with open(os.path.join(ROOT, "baseline", pid + ".json"), "w") as f:
                json.dump(b, f, indent=1)

    print("%s tier=%s: %d obligations, %d discharged (%s), %d known-finding, %d failing, %d undecided, %d unsupported functions, %.1fs" % (
        pid, tier, len(all_results), len(discharged), ", ".join("%s:%d" % kv for kv in sorted(by_backend.items())), n_known, len(violations), len(undecided), len(unsupported), wall))
    if standin and not standin.get("error"):
        print("  bounded stand-in: %s evaluations, %d failures (%d unexplained)" % (standin.get("evaluations"), len(standin.get("failures", [])), len(standin_fail)))
    for l in lines:
        print(l)
    if a.verbose:
        for r in failing:
            print("  FAIL", r["name"], r["result"], r.get("reason", ""), json.dumps(r.get("model"))[:600] if r.get("model") else "")
        for q, why in unsupported.items():
            print("  UNSUPPORTED", q, why)
    if errors:
        for e in errors:
            print("CHECKER-ERROR property=%s %s" % (pid, e))
        return 3
    if vio_lines:
        for v in vio_lines:
            print(v)
        return 1
    if undecided:
        for r in undecided:
            print("UNDECIDED property=%s obligation=%s reason=%s" % (pid, r["name"], str(r.get("reason"))[:200]))
        return 2
    return 0


def explain(level, all_results, discharged, n_known, unsupported, standin):
    s = "%d of %d proof obligations generated from the current source were discharged" % (len(discharged), len(all_results))
    if n_known:
        s += "; %d failing obligations are recorded known findings" % n_known
    if unsupported:
        s += "; %d functions are outside the verifier's subset and are served only by the bounded stand-in" % len(unsupported)
    if standin and not standin.get("error"):
        s += "; bounded stand-in ran %s cases (labelled bounded, not counted as proved)" % standin.get("evaluations")
    return s + "."


def match_known(known, name):
    for k in known:
        for pat in k.get("obligations", []):
            if re.search(pat, name):
                return k
    return None


def match_known_witness(known, failure):
    """A stand-in failure is a known finding only if it shows the listed symptom."""
    for k in known:
        for pat in k.get("standin", []):
            if re.search(pat, failure.get("what", "")):
                return k
    return None


def z3_version():
    try:
        import z3

        return z3.get_version_string()
    except Exception:
        return "?"


if __name__ == "__main__":
    sys.exit(main())
