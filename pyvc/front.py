"""Front end: read the real sources of /repo on every run.

Nothing is copied or re-typed: functions are located in the `ast` of the
working tree by qualified name.  What extraction drops is listed in DROPPED
and repeated verbatim in every evidence file.
"""

import ast
import hashlib
import os

REPO = os.environ.get("PYVC_REPO", "/repo")
PKG = "tinyflux"

DROPPED = [
    "docstrings (a leading string-expression statement of a def/class)",
    "type annotations (read as sort hints only, never assumed about API inputs)",
    "__repr__ methods",
    "the print() call in TinyFlux.reindex",
    "comments and `# pragma` markers",
    "functools.wraps (identity on behaviour)",
]


class Module:
    def __init__(self, name, path):
        self.name = name
        self.path = path
        with open(path) as f:
            self.src = f.read()
        self.tree = ast.parse(self.src, path)
        self.imports = {}  # local name -> dotted qualname
        self.functions = {}  # qualname (relative) -> FunctionDef
        self.classes = {}
        self._scan()

    def _scan(self):
        pkg = self.name.rsplit(".", 1)[0] if "." in self.name else self.name
        for node in ast.walk(self.tree):
            if isinstance(node, ast.Import):
                for a in node.names:
                    self.imports[a.asname or a.name.split(".")[0]] = a.name if a.asname else a.name.split(".")[0]
            elif isinstance(node, ast.ImportFrom):
                mod = node.module or ""
                if node.level:
                    base = self.name.split(".")[: -node.level]
                    mod = ".".join(base + ([mod] if mod else []))
                for a in node.names:
                    self.imports[a.asname or a.name] = "%s.%s" % (mod, a.name)

        def visit(body, prefix):
            for node in body:
                if isinstance(node, (ast.FunctionDef, ast.AsyncFunctionDef)):
                    q = prefix + node.name
                    # property setters share the name: key them as name.setter
                    for d in node.decorator_list:
                        if isinstance(d, ast.Attribute) and d.attr == "setter":
                            q = q + ".setter"
                    self.functions[q] = node
                    visit(node.body, q + ".<locals>.")
                elif isinstance(node, ast.ClassDef):
                    self.classes[prefix + node.name] = node
                    visit(node.body, prefix + node.name + ".")
                elif isinstance(node, (ast.If, ast.Try, ast.With, ast.For, ast.While)):
                    for fld in ("body", "orelse", "finalbody"):
                        visit(getattr(node, fld, []) or [], prefix)
                    for h in getattr(node, "handlers", []) or []:
                        visit(h.body, prefix)

        visit(self.tree.body, "")


_modules = {}


def module(name):
    """name like 'tinyflux.index'."""
    if name not in _modules:
        rel = name.replace(".", "/") + ".py"
        path = os.path.join(REPO, rel)
        if not os.path.exists(path):
            path = os.path.join(REPO, name.replace(".", "/"), "__init__.py")
        _modules[name] = Module(name, path)
    return _modules[name]


def reset_cache():
    _modules.clear()


def find_function(qualname):
    """'tinyflux.index.Index._reset' -> (Module, FunctionDef)."""
    parts = qualname.split(".")
    for cut in range(len(parts) - 1, 0, -1):
        modname = ".".join(parts[:cut])
        rel = modname.replace(".", "/")
        if os.path.exists(os.path.join(REPO, rel + ".py")):
            m = module(modname)
            fq = ".".join(parts[cut:])
            if fq in m.functions:
                return m, m.functions[fq]
            raise KeyError("function %s not found in %s" % (fq, m.path))
    raise KeyError("module for %s not found under %s" % (qualname, REPO))


def strip_docstring(body):
    if body and isinstance(body[0], ast.Expr) and isinstance(body[0].value, ast.Constant) and isinstance(body[0].value.value, str):
        return body[1:]
    return body


def fingerprint(fn):
    """Hash of the function's AST without docstrings/annotations/positions."""

    class Strip(ast.NodeTransformer):
        def visit_FunctionDef(self, node):
            self.generic_visit(node)
            node.body = strip_docstring(node.body) or [ast.Pass()]
            node.returns = None
            return node

        def visit_arg(self, node):
            node.annotation = None
            return node

    import copy

    t = Strip().visit(copy.deepcopy(fn))
    return hashlib.sha256(ast.dump(t, annotate_fields=True, include_attributes=False).encode()).hexdigest()[:16]


def decorators(fn):
    out = []
    for d in fn.decorator_list:
        if isinstance(d, ast.Name):
            out.append(d.id)
        elif isinstance(d, ast.Attribute):
            out.append(d.attr)
        elif isinstance(d, ast.Call) and isinstance(d.func, ast.Name):
            out.append(d.func.id)
    return out
