"""Turn a z3 model into JSON-able Python inputs for replay on the real code."""

import fractions
import z3
from .core import *  # noqa

MAXLEN = 40


def num(m, t):
    v = m.eval(t, model_completion=True)
    if z3.is_int_value(v):
        return v.as_long()
    if z3.is_rational_value(v):
        f = fractions.Fraction(v.numerator_as_long(), v.denominator_as_long())
        return f.numerator if f.denominator == 1 else float(f)
    if z3.is_algebraic_value(v):
        return float(v.approx(20).as_decimal(20).rstrip("?"))
    raise ValueError("not a number: %s" % v)


def conc(m, v, names=None):
    """-> JSON-able value; abstract sorts become tagged strings."""
    names = names if names is not None else {}
    ty = v.ty
    if ty.key == "None":
        return None
    if ty.key == "Bool":
        return bool(z3.is_true(m.eval(v.t, model_completion=True)))
    if ty.key in ("Int", "Real"):
        return num(m, v.t)
    if ty.key == "String":
        return m.eval(v.t, model_completion=True).as_string()
    if isinstance(ty, TU):
        key = str(m.eval(v.t, model_completion=True))
        if ty.key == "Str" and key == str(m.eval(EMPTY_STR, model_completion=True)):
            return ""
        return names.setdefault((ty.key, key), "%s%d" % (ty.key.lower()[0], len([k for k in names if k[0] == ty.key])))
    if isinstance(ty, TOpt):
        if z3.is_true(m.eval(o_is_none(v.t), model_completion=True)):
            return None
        return conc(m, Val(ty.elem, o_val(v.t)), names)
    if isinstance(ty, TList):
        n = num(m, l_len(v.t))
        if n < 0 or n > MAXLEN:
            raise ValueError("list length %s out of replay range" % n)
        return [conc(m, Val(ty.elem, l_at(v.t, z3.IntVal(i))), names) for i in range(n)]
    if isinstance(ty, TTuple):
        return [conc(m, Val(e, t_get(v.t, i)), names) for i, e in enumerate(ty.elems)]
    if isinstance(ty, TObj):
        return {a: conc(m, x, names) for a, x in v.t.items()}
    raise ValueError("cannot concretise %s" % ty)


def conc_env(m, env):
    out = {}
    names = {}
    for k, v in env.items():
        try:
            out[k] = conc(m, v, names)
        except Exception as e:
            out[k] = {"__unconcretised__": str(e)}
    return out
