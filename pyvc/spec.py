"""Specification helpers and the contract registry.

Contracts are sidecar classes registered by qualified name; their clauses
are Python functions from a context `c` to lists of (label, z3 formula).
"""

import z3
from .core import *  # noqa

REGISTRY = {}
LEMMAS = {}  # name -> function returning proof obligations (explicit inductions)
THEORIES = {}  # name -> list of axioms; a contract opts in with `theories = (name, ...)`
GLOBAL_AXIOMS = []  # definitional facts added to every obligation (listed in the evidence)

# Trigger marker: Tr(i) is true for every i.  It gives quantifiers whose body
# mentions the bound variable only under an equality a term to match on.
Tr = z3.Function("Tr", z3.IntSort(), z3.BoolSort())
_i = z3.Int("tr_i")
GLOBAL_AXIOMS.append(z3.ForAll([_i], Tr(_i), patterns=[Tr(_i)]))
CLASSES = {}  # class name -> dict(module=..., fields={attr: Ty}, props=set())


class Contract:
    qualname = None
    params = {}  # ordered: name -> Ty
    ret = TNone
    modifies = ()  # attrs of self (or names of mutable params) that may change
    assumed = False  # external function: contract is trusted, no body
    loops = {}  # ordinal -> dict(inv=fn(c), decreases=fn(c), ...)
    locals = {}  # name -> Ty (hints for empty literals)
    raises = {}  # exception kind -> fn(c) -> [(label, formula)]
    inline = False  # tiny helper inlined at call sites (listed in evidence)
    defaults = {}  # param -> python default for omitted args (as Val factory)
    theories = ()  # names of axiom sets (spec.THEORIES) added to this function's obligations

    @staticmethod
    def requires(c):
        return []

    @staticmethod
    def ensures(c):
        return []


def contract(qualname):
    def deco(cls):
        inst = cls()
        inst.qualname = qualname
        REGISTRY[qualname] = inst
        return cls

    return deco


def register_class(name, module, fields, props=()):
    CLASSES[name] = dict(module=module, fields=dict(fields), props=set(props))


class Ctx:
    """What a contract clause sees: current values by name, .old, .result."""

    def __init__(self, env, old=None, result=None, loops=None, extra=None):
        self._env = env
        self.old = old
        self.result = result
        self._loops = loops or {}
        self._extra = extra or {}

    def __getattr__(self, name):
        if name.startswith("__"):
            raise AttributeError(name)
        if name in self._extra:
            return self._extra[name]
        try:
            return self._env[name]
        except KeyError:
            raise AttributeError("no variable %r in scope of the contract" % name)

    def has(self, name):
        return name in self._env

    def loop(self, k):
        return self._loops[k]


class LoopInfo:
    def __init__(self, t, n, seq=None, extra=None):
        self.t = t  # iterations completed (z3 Int)
        self.n = n  # length of the iterated sequence (z3 Int) or None
        self.seq = seq  # Val list of iterated items (keys for dicts) or None
        self.extra = extra or {}


# ------------------------------------------------------------ helpers on Vals


def T(v):
    return v.t if isinstance(v, Val) else v


def attr(v, name):
    return v.t[name]


def length(v):
    return l_len(v.t)


def at(v, j):
    return l_at(v.t, T(j))


def at_val(v, j):
    return Val(v.ty.elem, l_at(v.t, T(j)))


def has(d, k):
    return z3.Select(d_dom(d.t), T(k))


def get(d, k):
    return Val(d.ty.v, z3.Select(d_val(d.t), T(k)))


def mem(s, x):
    return z3.Select(s.t, T(x))


def tget(v, i):
    return Val(v.ty.elems[i], t_get(v.t, i))


def is_none(v):
    return o_is_none(v.t)


def is_some(v):
    return o_is_some(v.t)


def oval(v):
    return Val(v.ty.elem, o_val(v.t))


def forall_int(lo, hi, body, name="j", patterns=None):
    j = z3.Int(fresh_name(name))
    b = body(j)
    pats = patterns(j) if patterns else None
    f = z3.Implies(z3.And(T(lo) <= j, j < T(hi)), b)
    if pats:
        return z3.ForAll([j], f, patterns=pats)
    return z3.ForAll([j], f)


def forall(ty, body, name="x", patterns=None):
    x = z3.Const(fresh_name(name), sort_of(ty))
    b = body(Val(ty, x))
    pats = patterns(Val(ty, x)) if patterns else None
    if pats:
        return z3.ForAll([x], b, patterns=pats)
    return z3.ForAll([x], b)


def exists_int(lo, hi, body, name="j"):
    j = z3.Int(fresh_name(name))
    return z3.Exists([j], z3.And(T(lo) <= j, j < T(hi), body(j)))


def nondecreasing(lst):
    """forall j <= k in range: a[j] <= a[k]."""
    j, k = z3.Int(fresh_name("j")), z3.Int(fresh_name("k"))
    a = lst.t
    return z3.ForAll(
        [j, k],
        z3.Implies(z3.And(0 <= j, j <= k, k < l_len(a)), l_at(a, j) <= l_at(a, k)),
        patterns=[z3.MultiPattern(l_at(a, j), l_at(a, k))],
    )


def strictly_ascending(lst):
    j, k = z3.Int(fresh_name("j")), z3.Int(fresh_name("k"))
    a = lst.t
    return z3.ForAll(
        [j, k],
        z3.Implies(z3.And(0 <= j, j < k, k < l_len(a)), l_at(a, j) < l_at(a, k)),
        patterns=[z3.MultiPattern(l_at(a, j), l_at(a, k))],
    )


def list_eq(a, b):
    return z3.And(
        l_len(a.t) == l_len(b.t),
        forall_int(0, l_len(a.t), lambda j: l_at(a.t, j) == l_at(b.t, j),
                   patterns=lambda j: [l_at(a.t, j), l_at(b.t, j)]),
    )


def str_lt(a, b):
    """Python's < on str values (uninterpreted here: only 'the same order everywhere' is used)"""
    from .core import sort_of, TStr
    return z3.Function("str_lt", sort_of(TStr), sort_of(TStr), z3.BoolSort())(a, b)
