"""Expression evaluation: pure term building plus guarded hazards.

eval(node, st) returns a Val.  Conditions under which CPython would raise
are appended to self.hz as Hazard objects (guarded by the short-circuit /
conditional / bound-variable context in force); the statement layer turns
them into exception edges.  Facts about fresh constants introduced during
evaluation (comprehension witnesses, callee postconditions) are added to
st.pc, wrapped in the same guards.
"""

import ast
import z3
from .core import *  # noqa
from .state import Hazard
from . import spec as S

MUTATORS = {"append", "extend", "add", "update", "pop", "clear", "sort", "remove", "discard", "insert"}


class ExprMixin:
    # context stacks
    def _ctx_init(self):
        self.hz = []
        self.guards = []  # z3 Bools
        self.bound = []  # z3 consts bound by an enclosing comprehension

    # -- guards -----------------------------------------------------------
    def _wrap(self, f):
        if self.guards:
            f = z3.Implies(z3.And(*self.guards) if len(self.guards) > 1 else self.guards[0], f)
        if self.bound:
            f = forall(list(self.bound), f)
        return f

    def hazard(self, kind, safe, node=None, what="", state=None, may=False):
        if z3.is_true(safe):
            return
        cur = getattr(self, "cur_state", None)
        self.hz.append(Hazard(kind, self._wrap(safe), node, what, state, pc_len=len(cur.pc) if (cur is not None and state is None) else None, may=may))

    def fact(self, st, f):
        st.assume(self._wrap(f))

    # -- coercions ---------------------------------------------------------
    def truthy(self, v, node=None):
        ty = v.ty
        if ty == TBool:
            return v.t
        if ty == TInt or ty == TReal:
            return v.t != 0
        if ty == TStr:
            return v.t != EMPTY_STR
        if ty == TString:
            return z3.Length(v.t) > 0
        if ty == TNone:
            return z3.BoolVal(False)
        if isinstance(ty, TOpt):
            return z3.And(o_is_some(v.t), self.truthy(Val(ty.elem, o_val(v.t)), node))
        if isinstance(ty, TList):
            return l_len(v.t) > 0
        if isinstance(ty, TSet):
            x = z3.Const(fresh_name("w"), sort_of(ty.elem))
            return z3.Exists([x], z3.Select(v.t, x))
        if isinstance(ty, TDict):
            x = z3.Const(fresh_name("w"), sort_of(ty.k))
            return z3.Exists([x], z3.Select(d_dom(v.t), x))
        if isinstance(ty, TTuple):
            return z3.BoolVal(len(ty.elems) > 0)
        if isinstance(ty, TObj):
            info = S.CLASSES.get(ty.cls, {})
            if info.get("truthy") is not None:
                return info["truthy"](self, v)
            return z3.BoolVal(True)
        if ty.key == "BoundMethod":
            return z3.BoolVal(True)
        if ty.key in self.truthy_handlers:
            return self.truthy_handlers[ty.key](self, v)
        raise Unsupported("truthiness of %s" % ty, node)

    def coerce(self, v, ty, node=None, what="value"):
        if v.ty == ty:
            return v
        if v.ty.key == "EmptyList" and isinstance(ty, TList):
            return self.empty_of(ty)
        if v.ty.key == "EmptyDict" and isinstance(ty, TDict):
            return self.empty_of(ty)
        if v.ty == TInt and ty == TReal:
            return Val(TReal, z3.ToReal(v.t))
        if ty.key in self.coercions and v.ty.key in self.coercions[ty.key]:
            return self.coercions[ty.key][v.ty.key](self, v)  # a registered injection takes precedence (an Optional source is injected whole, not unwrapped)
        if isinstance(ty, TOpt):
            if v.ty == TNone:
                return Val(ty, o_none(ty))
            if isinstance(v.ty, TOpt):
                raise Unsupported("coerce %s to %s" % (v.ty, ty), node)
            inner = self.coerce(v, ty.elem, node, what)
            return Val(ty, o_some(ty, inner.t))
        if isinstance(v.ty, TOpt):
            self.hazard("TypeError", o_is_some(v.t), node, "%s is None" % what)
            return self.coerce(Val(v.ty.elem, o_val(v.t)), ty, node, what)
        if isinstance(ty, TTuple) and isinstance(v.ty, TTuple) and len(ty.elems) == len(v.ty.elems):
            parts = [self.coerce(Val(e, t_get(v.t, i)), ty.elems[i], node).t for i, e in enumerate(v.ty.elems)]
            return Val(ty, t_mk(ty, *parts))
        if ty.key in self.coercions and v.ty.key in self.coercions[ty.key]:
            return self.coercions[ty.key][v.ty.key](self, v)
        if ty.key in self.coercions and "*" in self.coercions[ty.key]:
            r = self.coercions[ty.key]["*"](self, v, node)
            if r is not None:
                return r
        raise Unsupported("cannot coerce %s to %s (%s)" % (v.ty, ty, what), node)

    def unify(self, a, b, node=None):
        """Bring two values to a common type (for ==, comparisons, ifexp)."""
        if a.ty == b.ty:
            return a, b
        if a.ty == TNone and b.ty == TNone:
            return a, b
        for x, y, flip in ((a, b, False), (b, a, True)):
            try:
                if x.ty == TNone and y.ty.key in self.coercions and "None" in self.coercions[y.ty.key]:
                    r = (self.coercions[y.ty.key]["None"](self, x), y)
                elif x.ty == TInt and y.ty == TReal:
                    r = (self.coerce(x, TReal), y)
                elif x.ty == TNone and isinstance(y.ty, TOpt):
                    r = (self.coerce(x, y.ty), y)
                elif x.ty == TNone:
                    oty = TOpt(y.ty)
                    r = (self.coerce(x, oty), self.coerce(y, oty))
                elif isinstance(y.ty, TOpt) and not isinstance(x.ty, TOpt):
                    r = (self.coerce(x, y.ty, node), y)
                elif y.ty.key in self.coercions and x.ty.key in self.coercions[y.ty.key]:
                    r = (self.coercions[y.ty.key][x.ty.key](self, x), y)  # registered injection into the other side's sort
                else:
                    continue
            except Unsupported:
                continue
            return (r[1], r[0]) if flip else r
        raise Unsupported("cannot unify %s and %s" % (a.ty, b.ty), node)

    def equal(self, a, b, node=None):
        """Python == as a z3 Bool."""
        if a.ty == TNone and b.ty == TNone:
            return z3.BoolVal(True)
        if (a.ty == TNone) != (b.ty == TNone):
            x = b if a.ty == TNone else a
            if isinstance(x.ty, TOpt):
                return o_is_none(x.t)
            return z3.BoolVal(False)
        a, b = self.unify(a, b, node)
        ty = a.ty
        if isinstance(ty, TList):
            return S.list_eq(a, b)
        if isinstance(ty, TDict):
            k = z3.Const(fresh_name("k"), sort_of(ty.k))
            return z3.And(
                d_dom(a.t) == d_dom(b.t),
                forall([k], z3.Implies(z3.Select(d_dom(a.t), k),
                                          self.equal(Val(ty.v, z3.Select(d_val(a.t), k)), Val(ty.v, z3.Select(d_val(b.t), k))))),
            )
        if isinstance(ty, TObj):
            info = S.CLASSES.get(ty.cls, {})
            if info.get("eq"):
                return info["eq"](self, a, b)
            raise Unsupported("== on objects of %s" % ty.cls, node)
        if isinstance(ty, TOpt) and isinstance(ty.elem, (TList, TDict)):
            raise Unsupported("== on optional containers", node)
        return a.t == b.t

    # -- lvalue roots --------------------------------------------------------
    @staticmethod
    def root_name(node):
        while isinstance(node, (ast.Attribute, ast.Subscript)):
            node = node.value
        return node.id if isinstance(node, ast.Name) else None

    # -- main dispatcher -----------------------------------------------------
    def eval(self, node, st):
        m = getattr(self, "e_" + type(node).__name__, None)
        if m is None:
            raise Unsupported("expression %s" % type(node).__name__, node)
        return m(node, st)

    def e_Constant(self, node, st):
        v = node.value
        if v is None:
            return NONE
        if isinstance(v, bool):
            return mk_bool(v)
        if isinstance(v, int):
            return mk_int(v)
        if isinstance(v, float):
            return Val(TReal, z3.RealVal(repr(v)))
        if isinstance(v, str):
            if self.string_mode:
                return Val(TString, z3.StringVal(v))
            self.str_literals.add(v)
            return Val(TStr, str_const(v))
        raise Unsupported("constant %r" % (v,), node)

    def e_Name(self, node, st):
        if node.id in st.env:
            return st.env[node.id]
        if node.id in self.global_values:
            return self.global_values[node.id](self, st)
        raise Unsupported("unbound name %s" % node.id, node)

    def e_Attribute(self, node, st):
        # module constants (operator.eq, timezone.utc, os.SEEK_END ...)
        dotted = self.dotted(node)
        if dotted and dotted in self.global_values:
            return self.global_values[dotted](self, st)
        base = self.eval(node.value, st)
        return self.getattr_val(base, node.attr, node, st)

    def getattr_val(self, base, attr, node, st):
        ty = base.ty
        if isinstance(ty, TOpt):
            base = self.coerce(base, ty.elem, node, "receiver of .%s" % attr)
            ty = base.ty
        if isinstance(ty, TObj):
            if attr in base.t:
                return base.t[attr]
            info = S.CLASSES[ty.cls]
            q = "%s.%s.%s" % (info["module"], info.get("source_class", ty.cls), attr)
            if q in S.REGISTRY:  # property
                return self.call_contract(S.REGISTRY[q], [base], {}, node, st, pure_only=True)
            h = self.attr_handlers.get((ty.key, attr))
            if h:
                return h(self, base, node, st)
            cv = self.class_constant(info, ty.cls, attr, node)
            if cv is not None:
                return cv
            raise Unsupported("attribute %s of %s" % (attr, ty.cls), node)
        h = self.attr_handlers.get((ty.key, attr))
        if h:
            return h(self, base, node, st)
        if (ty.key, attr) in self.method_handlers:
            # a method mentioned without being called: a bound-method object (always truthy, never None)
            return Val(TU("BoundMethod"), (base, attr))
        raise Unsupported("attribute .%s of %s" % (attr, ty), node)

    def class_constant(self, info, cls, attr, node):
        """`self.X` where X is assigned a literal in the class body of the real source (read on every run)."""
        from . import front

        mod = front.module(info["module"])
        cdef = mod.classes.get(info.get("source_class", cls))
        if cdef is None:
            return None
        for b in cdef.body:
            if isinstance(b, ast.Assign) and len(b.targets) == 1 and isinstance(b.targets[0], ast.Name) and b.targets[0].id == attr and isinstance(b.value, ast.Constant):
                rec = "class constant %s.%s.%s = %r" % (info["module"], cdef.name, attr, b.value.value)
                if rec not in self.inlined:
                    self.inlined.append(rec)
                return self.e_Constant(b.value, None)
        return None

    def dotted(self, node):
        parts = []
        while isinstance(node, ast.Attribute):
            parts.append(node.attr)
            node = node.value
        if isinstance(node, ast.Name) and node.id in self.mod.imports and node.id not in self.local_names:
            parts.append(self.mod.imports[node.id])
            return ".".join(reversed(parts))
        return None

    def e_UnaryOp(self, node, st):
        v = self.eval(node.operand, st)
        if isinstance(node.op, ast.Not):
            return Val(TBool, z3.Not(self.truthy(v, node)))
        if isinstance(node.op, ast.USub):
            if v.ty in (TInt, TReal):
                return Val(v.ty, -v.t)
        if isinstance(node.op, ast.Invert):
            return self.unary_invert(v, node, st)
        raise Unsupported("unary %s on %s" % (type(node.op).__name__, v.ty), node)

    def unary_invert(self, v, node, st):
        if isinstance(v.ty, TObj):
            info = S.CLASSES[v.ty.cls]
            q = "%s.%s.__invert__" % (info["module"], v.ty.cls)
            if q in S.REGISTRY:
                return self.call_contract(S.REGISTRY[q], [v], {}, node, st, pure_only=True)
        raise Unsupported("~ on %s" % v.ty, node)

    def e_BoolOp(self, node, st):
        # Python returns an operand; all uses in the subset are in boolean
        # position or over same-typed operands.
        vals = []
        pushed = 0
        try:
            for i, e in enumerate(node.values):
                v = self.eval(e, st)
                vals.append(v)
                if i < len(node.values) - 1:
                    c = self.truthy(v, node)
                    self.guards.append(c if isinstance(node.op, ast.And) else z3.Not(c))
                    pushed += 1
        finally:
            for _ in range(pushed):
                self.guards.pop()
        tys = {v.ty.key for v in vals}
        if (len(vals) == 2 and isinstance(node.op, ast.Or) and isinstance(vals[0].ty, TOpt) and vals[0].ty.elem == vals[1].ty
                and not isinstance(vals[1].ty, TObj)):
            # `opt or default`: a None (or falsy) left operand is never the result
            a, b = vals
            return Val(b.ty, z3.If(self.truthy(a, node), o_val(a.t), b.t))
        if len(tys) > 1 and len(vals) == 2 and not any(isinstance(v.ty, TObj) or v.ty == TBool for v in vals):
            # value-returning `a or b` / `a and b` over unifiable types (e.g. d.get(k) or default)
            try:
                a, b = self.unify(vals[0], vals[1], node)
                vals = [a, b]
                tys = {a.ty.key}
            except Unsupported:
                pass
        if len(tys) == 1 and vals[0].ty != TBool and not isinstance(vals[0].ty, TObj):
            # value-returning form (x or default) over one type
            res = vals[-1]
            for v in reversed(vals[:-1]):
                c = self.truthy(v, node)
                res = Val(v.ty, z3.If(c, res.t, v.t) if isinstance(node.op, ast.And) else z3.If(c, v.t, res.t))
            return res
        ts = [self.truthy(v, node) for v in vals]
        return Val(TBool, z3.And(*ts) if isinstance(node.op, ast.And) else z3.Or(*ts))

    def e_IfExp(self, node, st):
        c = self.truthy(self.eval(node.test, st), node)
        self.guards.append(c)
        try:
            a = self.eval(node.body, st)
        finally:
            self.guards.pop()
        self.guards.append(z3.Not(c))
        try:
            b = self.eval(node.orelse, st)
        finally:
            self.guards.pop()
        a, b = self.unify(a, b, node)
        if isinstance(a.ty, TObj):
            raise Unsupported("conditional expression over objects", node)
        return Val(a.ty, z3.If(c, a.t, b.t))

    def e_Compare(self, node, st):
        left = self.eval(node.left, st)
        conj = []
        pushed = 0
        try:
            for op, rn in zip(node.ops, node.comparators):
                right = self.eval(rn, st)
                c = self.compare(op, left, right, node, st)
                conj.append(c)
                self.guards.append(c)
                pushed += 1
                left = right
        finally:
            for _ in range(pushed):
                self.guards.pop()
        return Val(TBool, z3.And(*conj) if len(conj) > 1 else conj[0])

    def compare(self, op, a, b, node, st):
        if isinstance(op, ast.Eq):
            return self.py_eq(a, b, node, st)
        if isinstance(op, ast.NotEq):
            return z3.Not(self.py_eq(a, b, node, st))
        if isinstance(op, ast.Is):
            return self.is_(a, b, node)
        if isinstance(op, ast.IsNot):
            return z3.Not(self.is_(a, b, node))
        if isinstance(op, ast.In):
            return self.contains(b, a, node, st)
        if isinstance(op, ast.NotIn):
            return z3.Not(self.contains(b, a, node, st))
        h = self.cmp_handlers.get((a.ty.key, b.ty.key))
        if h:
            return h(self, op, a, b, node, st)
        if isinstance(a.ty, TOpt) or isinstance(b.ty, TOpt):
            # ordering against None raises TypeError
            if isinstance(a.ty, TOpt):
                a = self.coerce(a, a.ty.elem, node, "left operand of ordering")
            if isinstance(b.ty, TOpt):
                b = self.coerce(b, b.ty.elem, node, "right operand of ordering")
        a, b = self.unify(a, b, node)
        if a.ty in (TInt, TReal):
            return {ast.Lt: a.t < b.t, ast.LtE: a.t <= b.t, ast.Gt: a.t > b.t, ast.GtE: a.t >= b.t}[type(op)]
        h = self.cmp_handlers.get((a.ty.key, b.ty.key))
        if h:
            return h(self, op, a, b, node, st)
        raise Unsupported("ordering on %s" % a.ty, node)

    def py_eq(self, a, b, node, st):
        h = self.eq_handlers.get(a.ty.key) or self.eq_handlers.get(b.ty.key)
        if h:
            return h(self, a, b, node, st)
        return self.equal(a, b, node)

    def is_(self, a, b, node):
        if b.ty == TNone:
            a, b = b, a
        if a.ty == TNone:
            if b.ty == TNone:
                return z3.BoolVal(True)
            if isinstance(b.ty, TOpt):
                return o_is_none(b.t)
            h = self.isnone_handlers.get(b.ty.key)
            if h:
                return h(self, b)
            return z3.BoolVal(False)
        raise Unsupported("`is` between non-None values", node)

    def contains(self, cont, x, node, st):
        ty = cont.ty
        if isinstance(ty, TOpt):
            cont = self.coerce(cont, ty.elem, node, "container of `in`")
            ty = cont.ty
        if ty == TString and x.ty == TString:
            return z3.Contains(cont.t, x.t)  # substring test
        if isinstance(ty, (TSet, TDict)):
            kty = ty.elem if isinstance(ty, TSet) else ty.k
            arr = cont.t if isinstance(ty, TSet) else d_dom(cont.t)
            if x.ty == kty:
                return z3.Select(arr, x.t)
            if x.ty == TNone and isinstance(kty, TOpt):
                return z3.Select(arr, o_none(kty))
            if x.ty == TNone:
                return z3.BoolVal(False)
            if isinstance(x.ty, TOpt) and not isinstance(kty, TOpt) and x.ty.elem == kty:
                return z3.And(o_is_some(x.t), z3.Select(arr, o_val(x.t)))
            return z3.Select(arr, self.coerce(x, kty, node).t)
        if isinstance(ty, TList):
            x2 = self.coerce(x, ty.elem, node)
            j = z3.Int(fresh_name("j"))
            return z3.Exists([j], z3.And(0 <= j, j < l_len(cont.t), l_at(cont.t, j) == x2.t))
        if isinstance(ty, TTuple):
            return z3.Or(*[self.equal(Val(e, t_get(cont.t, i)), x, node) for i, e in enumerate(ty.elems)])
        h = self.contains_handlers.get(ty.key)
        if h:
            return h(self, cont, x, node, st)
        raise Unsupported("`in` on %s" % ty, node)

    def e_BinOp(self, node, st):
        a = self.eval(node.left, st)
        b = self.eval(node.right, st)
        return self.binop(node.op, a, b, node, st)

    def binop(self, op, a, b, node, st):
        if a.ty in (TInt, TReal) and b.ty in (TInt, TReal) and isinstance(op, (ast.Add, ast.Sub, ast.Mult)):
            a, b = self.unify(a, b, node)
            t = {ast.Add: a.t + b.t, ast.Sub: a.t - b.t, ast.Mult: a.t * b.t}[type(op)]
            return Val(a.ty, t)
        if isinstance(a.ty, TOpt) and isinstance(op, (ast.Add, ast.Sub)):
            return self.binop(op, self.coerce(a, a.ty.elem, node, "left operand"), b, node, st)
        if isinstance(a.ty, TSet) and a.ty == b.ty and isinstance(op, ast.Sub):
            return Val(a.ty, z3.SetDifference(a.t, b.t))
        if isinstance(a.ty, TList) and a.ty == b.ty and isinstance(op, ast.Add):
            return self.list_concat(a, b, st)
        if a.ty == TString and b.ty == TString and isinstance(op, ast.Add):
            return Val(TString, z3.Concat(a.t, b.t))
        if isinstance(a.ty, TObj) and isinstance(op, (ast.BitAnd, ast.BitOr)):
            info = S.CLASSES[a.ty.cls]
            q = "%s.%s.%s" % (info["module"], a.ty.cls, "__and__" if isinstance(op, ast.BitAnd) else "__or__")
            if q in S.REGISTRY:
                return self.call_contract(S.REGISTRY[q], [a, b], {}, node, st, pure_only=True)
        h = self.binop_handlers.get((type(op).__name__, a.ty.key, b.ty.key))
        if h:
            return h(self, a, b, node, st)
        raise Unsupported("binary %s on %s, %s" % (type(op).__name__, a.ty, b.ty), node)

    def list_concat(self, a, b, st=None):
        j = z3.Int(fresh_name("j"))
        if st is None:
            arr = z3.Lambda([j], z3.If(j < l_len(a.t), l_at(a.t, j), l_at(b.t, j - l_len(a.t))))
            return Val(a.ty, l_mk(a.ty, l_len(a.t) + l_len(b.t), arr))
        R = z3.Const(fresh_name("cat"), sort_of(a.ty))
        na, nb = l_len(a.t), l_len(b.t)
        self.fact(st, l_len(R) == na + nb)
        self.fact(st, forall([j], z3.Implies(z3.And(0 <= j, j < na), l_at(R, j) == l_at(a.t, j)), patterns=[l_at(R, j), l_at(a.t, j)]))
        self.fact(st, forall([j], z3.Implies(z3.And(0 <= j, j < nb), l_at(R, na + j) == l_at(b.t, j)), patterns=[l_at(b.t, j)]))
        self.fact(st, forall([j], z3.Implies(z3.And(na <= j, j < na + nb), l_at(R, j) == l_at(b.t, j - na)), patterns=[l_at(R, j)]))
        return Val(a.ty, R)

    # -- displays ------------------------------------------------------------
    def e_Tuple(self, node, st):
        if any(isinstance(e, ast.Starred) for e in node.elts):
            # (a, b, *xs, *ys): a sequence; modelled as a list of the common element type (tuples are immutable, so no aliasing matters)
            acc = None
            for e in node.elts:
                if isinstance(e, ast.Starred):
                    part = self.eval(e.value, st)
                    if not isinstance(part.ty, TList):
                        raise Unsupported("starred element of type %s" % part.ty, node)
                else:
                    x = self.eval(e, st)
                    lty = TList(x.ty)
                    one = z3.Const(fresh_name("single"), sort_of(lty))
                    self.fact(st, z3.And(l_len(one) == 1, l_at(one, 0) == x.t))
                    part = Val(lty, one)
                acc = part if acc is None else self.list_concat(acc, part, st)
            return acc
        vals = [self.eval(e, st) for e in node.elts]
        if any(v.ty.key in ("None", "LambdaAst") or isinstance(v.ty, TObj) or not z3.is_expr(v.t) for v in vals):
            # heterogeneous tuple of non-sorted values: kept Python-side (hash tuples)
            return Val(TU("PyTuple"), tuple(vals))
        ty = TTuple([v.ty for v in vals])
        return Val(ty, t_mk(ty, *[v.t for v in vals]))

    def as_value(self, v, node):
        """objects stored into containers become values (sidecar `as_value` hook)"""
        if isinstance(v.ty, TObj):
            hook = S.CLASSES[v.ty.cls].get("as_value")
            if hook is None:
                raise Unsupported("object of class %s stored in a container" % v.ty.cls, node)
            return hook(self, v, node)
        return v

    def e_List(self, node, st, hint=None):
        vals = [self.as_value(self.eval(e, st), node) for e in node.elts]
        if not vals:
            if hint is None:
                return Val(TU("EmptyList"), None)  # typed by the slot it flows into
            return self.empty_of(hint)
        ety = hint.elem if hint is not None else vals[0].ty
        vals = [self.coerce(v, ety, node) for v in vals]
        ty = TList(ety)
        R = z3.Const(fresh_name("lit"), sort_of(ty))
        self.fact(st, l_len(R) == len(vals))
        for i, v in enumerate(vals):
            self.fact(st, l_at(R, z3.IntVal(i)) == v.t)
        return Val(ty, R)

    def e_Dict(self, node, st, hint=None):
        if not node.keys:
            if hint is None:
                return Val(TU("EmptyDict"), None)  # typed by the slot it flows into
            return self.empty_of(hint)
        ks = [self.eval(k, st) for k in node.keys]
        vs = [self.eval(v, st) for v in node.values]
        ty = hint or TDict(ks[0].ty, vs[0].ty)
        d = self.empty_of(ty)
        dom, val = d_dom(d.t), d_val(d.t)
        for k, v in zip(ks, vs):
            k = self.coerce(k, ty.k, node)
            v = self.coerce(v, ty.v, node)
            dom, val = z3.Store(dom, k.t, True), z3.Store(val, k.t, v.t)
        return Val(ty, d_mk(ty, dom, val))

    def e_Set(self, node, st, hint=None):
        vs = [self.eval(v, st) for v in node.elts]
        ty = hint or TSet(vs[0].ty)
        s = self.empty_of(ty).t
        for v in vs:
            s = z3.Store(s, self.coerce(v, ty.elem, node).t, True)
        return Val(ty, s)

    def empty_of(self, ty):
        if isinstance(ty, TList):
            arr = z3.Const(fresh_name("arr0"), z3.ArraySort(z3.IntSort(), sort_of(ty.elem)))
            return Val(ty, l_mk(ty, z3.IntVal(0), arr))
        if isinstance(ty, TSet):
            return Val(ty, z3.K(sort_of(ty.elem), z3.BoolVal(False)))
        if isinstance(ty, TDict):
            val = z3.Const(fresh_name("val0"), z3.ArraySort(sort_of(ty.k), sort_of(ty.v)))
            return Val(ty, d_mk(ty, z3.K(sort_of(ty.k), z3.BoolVal(False)), val))
        h = getattr(self, "empty_handlers", {}).get(ty.key)
        if h:
            return h(self)
        raise Unsupported("empty value of %s" % ty)

    # -- subscripts ------------------------------------------------------------
    def e_Subscript(self, node, st):
        base = self.eval(node.value, st)
        if isinstance(node.slice, ast.Slice):
            return self.slice_of(base, node.slice, node, st)
        idx = self.eval(node.slice, st)
        return self.index(base, idx, node, st)

    def index(self, base, idx, node, st):
        ty = base.ty
        if isinstance(ty, TOpt):
            base = self.coerce(base, ty.elem, node, "subscripted value")
            ty = base.ty
        if isinstance(ty, TList):
            i = self.coerce(idx, TInt, node).t
            n = l_len(base.t)
            if z3.is_int_value(i) and i.as_long() < 0:
                self.hazard("IndexError", n + i >= 0, node, "list index")
                return Val(ty.elem, l_at(base.t, n + i))
            self.hazard("IndexError", z3.And(-n <= i, i < n), node, "list index")
            if z3.is_int_value(i):
                return Val(ty.elem, l_at(base.t, i))
            return Val(ty.elem, z3.If(i < 0, l_at(base.t, i + n), l_at(base.t, i)))
        if isinstance(ty, TDict):
            k = self.coerce(idx, ty.k, node)
            self.hazard("KeyError", z3.Select(d_dom(base.t), k.t), node, "dict key")
            return Val(ty.v, z3.Select(d_val(base.t), k.t))
        if isinstance(ty, TTuple):
            i = z3.simplify(idx.t)
            if z3.is_int_value(i):
                return Val(ty.elems[i.as_long()], t_get(base.t, i.as_long()))
            raise Unsupported("tuple index must be constant", node)
        if ty == TString:
            # s[i]: the one-character string at i (negative indices count from the end); IndexError outside
            i = self.coerce(idx, TInt, node).t
            n = z3.Length(base.t)
            self.hazard("IndexError", z3.And(-n <= i, i < n), node, "string index")
            if z3.is_int_value(i):
                k = i.as_long()
                return Val(TString, z3.SubString(base.t, i if k >= 0 else n + i, 1))
            return Val(TString, z3.SubString(base.t, z3.If(i < 0, i + n, i), 1))
        h = self.index_handlers.get(ty.key)
        if h:
            return h(self, base, idx, node, st)
        raise Unsupported("subscript on %s" % ty, node)

    def slice_of(self, base, sl, node, st):
        if sl.step is not None:
            raise Unsupported("slice step", node)
        ty = base.ty
        h = self.slice_handlers.get(ty.key)
        if h:
            return h(self, base, sl, node, st)
        if ty == TString:
            n = z3.Length(base.t)

            def sclamp(e, default):
                if e is None:
                    return default
                k = self.coerce(self.eval(e, st), TInt, node).t
                return z3.simplify(z3.If(k < 0, z3.If(k + n < 0, 0, k + n), z3.If(k > n, n, k)))

            lo = sclamp(sl.lower, z3.IntVal(0))
            hi = sclamp(sl.upper, n)
            return Val(TString, z3.SubString(base.t, lo, z3.If(hi - lo < 0, 0, hi - lo)))
        if not isinstance(ty, TList):
            raise Unsupported("slice of %s" % ty, node)
        n = l_len(base.t)

        def clamp(e, default):
            if e is None:
                return default
            k = self.coerce(self.eval(e, st), TInt, node).t
            return z3.If(k < 0, z3.If(k + n < 0, 0, k + n), z3.If(k > n, n, k))

        lo = clamp(sl.lower, z3.IntVal(0))
        hi = clamp(sl.upper, n)
        ln = z3.If(hi - lo < 0, 0, hi - lo)
        if sl.lower is None:
            return Val(ty, l_mk(ty, ln, l_arr(base.t)))
        j = z3.Int(fresh_name("j"))
        R = z3.Const(fresh_name("slice"), sort_of(ty))
        self.fact(st, l_len(R) == ln)
        self.fact(st, forall([j], z3.Implies(z3.And(0 <= j, j < ln), l_at(R, j) == l_at(base.t, j + lo)), patterns=[l_at(R, j)]))
        self.fact(st, forall([j], z3.Implies(z3.And(lo <= j, j < lo + ln), l_at(R, j - lo) == l_at(base.t, j)), patterns=[l_at(base.t, j)]))
        return Val(ty, R)

    def e_JoinedStr(self, node, st):
        if self.string_mode:
            parts = []
            for v in node.values:
                if isinstance(v, ast.Constant):
                    parts.append(z3.StringVal(v.value))
                    continue
                if v.conversion != -1 or v.format_spec is not None:
                    raise Unsupported("f-string conversion / format spec", node)
                x = self.eval(v.value, st)
                if x.ty != TString:  # format() of a str is the str itself; nothing else is formatted in the codec
                    raise Unsupported("f-string field of type %s" % x.ty, node)
                parts.append(x.t)
            return Val(TString, parts[0] if len(parts) == 1 else z3.Concat(*parts))
        h = self.fstring_handler
        if h is None:
            raise Unsupported("f-string", node)
        return h(self, node, st)

    def e_Lambda(self, node, st):
        # a lambda is a value only where the sidecar knows what to do with it (coercion to a callable sort)
        return Val(TU("LambdaAst"), (node, st))
