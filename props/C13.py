from .csvcommon import *
ID = "C13"
# CSVStorage methods against the I/O effect model (write-side faults), plus the database-level read-fault clauses:
# every loop over a storage and Index.build's iteration have an exceptional edge 'ReadFault' at an arbitrary row
FUNCTIONS = CSV_FUNCS + [IX + "build"] + [TF + f for f in ("reindex", "count", "contains", "_remove_helper", "remove", "_update_helper", "update", "_insert_helper")]
ASSUMED = []
STANDIN = "standins/csvio.py"
TRUSTED = IO_TRUSTED + [STORAGE_ASSUMED, QUERY_ASSUMED,
                        "read faults at the database level are modelled as an exception ('ReadFault') that iterating a storage may raise at any row, before the row is yielded; CSVStorage.__iter__ itself (seek, csv.reader, fromisoformat of undecodable rows) is not under contract"]
ASSUMPTIONS = ["A-single: one process, one TinyFlux object per file", "A-buf: one csv row fits the text/binary buffers, so bytes reach the disk only at flush/seek/close"]
