from .csvcommon import *
ID = "C13"
# CSVStorage methods against the I/O effect model (write-side faults), plus the database-level read-fault clauses:
# every loop over a storage and Index.build's iteration have an exceptional edge 'ReadFault' at an arbitrary row
FUNCTIONS = CSV_FUNCS + [IX + "build"] + [TF + f for f in ("reindex", "count", "contains", "_remove_helper", "remove", "remove_all", "drop_measurement", "_reset_database", "_update_helper", "update", "update_all", "_insert_helper", "insert", "insert_multiple")]
ASSUMED = []
STANDIN = "standins/csvio.py"
TRUSTED = IO_TRUSTED + [STORAGE_ASSUMED, QUERY_ASSUMED,
                        "write faults at the database level are modelled as an exception ('WriteFault') that Storage.append / _swap_temp_with_primary / reset may raise, leaving old rows + a prefix of the new ones / old or new contents / old or empty contents (temporary-storage init and cleanup failures are covered at CSVStorage level only)", "read faults at the database level are modelled as an exception ('ReadFault') that iterating a storage may raise at any row, before the row is yielded; CSVStorage.__iter__ itself (seek, csv.reader, fromisoformat of undecodable rows) is not under contract"]
ASSUMPTIONS = ["A-single: one process, one TinyFlux object per file", "A-buf: one csv row fits the text/binary buffers, so bytes reach the disk only at flush/seek/close"]
