"""C02 - remove deletes exactly the matching points and nothing else."""
from .common import *
ID = "C02"
FUNCTIONS = [IX + f for f in ("_remove_measurements", "_remove_tags", "_remove_fields", "_remove_timestamps", "remove",
                              "_update_measurements", "_update_tags", "_update_fields", "update", "_reset", "invalidate")] + \
    [IX + "search", IX + "_search_helper"] + ["tinyflux.database._index_is_exact_for"] + \
    [TF + f for f in ("_remove_helper", "remove", "remove_all", "drop_measurement", "_reset_database", "reindex")] + ["lemma:count"]
ASSUMED = ["tinyflux.storages.Storage." + f for f in ("can_read", "can_write", "append", "_swap_temp_with_primary", "reset", "_init_temp_storage", "_cleanup_temp_storage", "_deserialize_storage_item", "_deserialize_measurement")]
STANDIN = "standins/dbdiff.py"
TRUSTED = TRUSTED_CORE + [STORAGE_ASSUMED, QUERY_ASSUMED, "assumed lemma instances: pigeonhole (Index.update)"]
ASSUMPTIONS = [A_ALIAS, "I/O failures of the storage are outside this property (C13)"]
FUNCTIONS = FUNCTIONS + MEM_REFINEMENT  # MemoryStorage refines the abstract Storage contract
