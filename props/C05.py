"""C05 - every valid Point survives serialization to CSV and back unchanged."""
from .common import *
ID = "C05"
_P = "tinyflux.point.Point."
FUNCTIONS = [_P + "_serialize_to_list", _P + "_deserialize_from_list", "lemma:codec"] + ["tinyflux.storages.CSVStorage." + f for f in ("_serialize_point", "_deserialize_storage_item", "_deserialize_measurement", "_deserialize_timestamp")]
ASSUMED = []
STANDIN = "standins/csvio.py"
from contracts.codec_model import TEXT_LAWS
TRUSTED = TRUSTED_CORE + [
    "z3's and cvc5's string theory (sequences of code points; concatenation, length, indexing, slicing, prefix, substring, equality are exact)",
    "library laws of contracts/codec_model.py, ASSUMED (C code; exercised only by the bounded stand-in): " + "; ".join(TEXT_LAWS),
    "the csv layer (csv.writer/csv.reader with the storage's own dialect, newline='' and encoding return the same cells that were written) is ASSUMED here and exercised by the bounded stand-in over ',', '\"', CR, LF, NUL, non-BMP text and several dialects; "
    "CSVStorage._serialize_point / _deserialize_storage_item / _deserialize_measurement / _deserialize_timestamp (the storage-level entry points of the codec) are proved against the same format; CSVStorage.__iter__ is proved (C04 cone) to hand the rows of the file to csv.reader from the start; that csv.reader returns the written cells is the assumed csv law",
    "generator expressions in the encoder are evaluated where they are written (A-gen): nothing between their creation and their consumption in the final tuple display changes the point",
    "dict iteration order is an arbitrary duplicate-free enumeration of the key set, the same one for a key and its value",
]
ASSUMPTIONS = ["NaN field values are outside the claim (the property lists zero, negative zero, infinities and subnormals; NaN is not equal to itself, so 'equal point' is undefined for it)",
               "the point's time is set and UTC-normalised (what insert/update store: C08)"]

# the property is KNOWN not to hold for four families of inputs (KF-16): their obligations are not discharged, so the claim is not proof-level
LEVEL = "other"
