"""C06 - a valid index is always equivalent to one rebuilt from storage."""
ID = "C06"
_IX = "tinyflux.index.Index."
FUNCTIONS = [_IX + f for f in (
    "__init__", "_reset", "invalidate", "valid", "__len__", "empty",
    "_insert_measurements", "_insert_tags", "_insert_fields", "_insert_time", "insert", "build",
    "_remove_measurements", "_remove_tags", "_remove_fields", "_remove_timestamps", "remove",
    "_update_measurements", "_update_tags", "_update_fields", "update",
)]
SHARDS = {_IX + "insert": 8, _IX + "build": 8, _IX + "_remove_tags": 6, _IX + "remove": 6, _IX + "update": 4, _IX + "_remove_measurements": 2}
ASSUMED = []
STANDIN = "standins/dbdiff.py"
TRUSTED = [
    "pyvc (symbolic executor + encoding of Python semantics, DESIGN 2.3) and z3/cvc5",
    "assumed contract of list.sort(key=...): stable permutation ordered by key (DESIGN 4.2)",
    "assumed lemma instances: pigeonhole (injection [0,a)->[0,b) gives a<=b; surjection gives b<=a), used in Index.update",
]
ASSUMPTIONS = [
    "A-alias: containers inside Index are not shared; a loop that writes through the container it iterates only replaces the value of the key being visited",
    "dict iteration order is arbitrary but fixed during one loop",
    "datetime.timestamp() is a function of the datetime value (uninterpreted here; refined under C08)",
]
