"""C06 - a valid index is always equivalent to one rebuilt from storage."""
ID = "C06"
from .common import *
FUNCTIONS = INDEX_MUTATORS + [IX + "latest_time"] + [TF + f for f in ("reindex", "_reset_database", "_remove_helper", "remove", "remove_all", "drop_measurement", "_insert_helper", "insert", "insert_multiple", "_update_helper", "__len__")] + ["lemma:count"]
ASSUMED = []
STANDIN = "standins/dbdiff.py"
TRUSTED = [
    "pyvc (symbolic executor + encoding of Python semantics, DESIGN 2.3) and z3/cvc5",
    "assumed contract of list.sort(key=...): stable permutation ordered by key (DESIGN 4.2)",
    "assumed lemma instances: pigeonhole (injection [0,a)->[0,b) gives a<=b; surjection gives b<=a), used in Index.update",
]
ASSUMPTIONS = [
    "base case (TinyFlux.__init__): the storage constructors are ASSUMED to return a storage with no temporary content whose _initially_empty flag is true exactly when it holds no item (CSVStorage.__init__/_check_for_existing_data and MemoryStorage.__init__ are read, not under contract); auto_index is taken as a bool (the TypeError branch for other types is not explored)",
    "A-alias: containers inside Index are not shared; a loop that writes through the container it iterates only replaces the value of the key being visited",
    "dict iteration order is arbitrary but fixed during one loop",
    "datetime.timestamp() is a function of the datetime value (uninterpreted here; refined under C08)",
]
FUNCTIONS = FUNCTIONS + MEM_REFINEMENT  # MemoryStorage refines the abstract Storage contract
# the reads that are not wrapped by read_op (clause "any read leaves the index valid"; known finding KF-20) and the read operations that are
FUNCTIONS = FUNCTIONS + [TF + "__init__", TF + "__iter__", TF + "all", TF + "count"] + ["tinyflux.measurement.Measurement." + f for f in ("__len__", "__iter__", "all")]
# the property is KNOWN not to hold for len()/iteration (KF-20): their four obligations are not discharged, so the claim is not proof-level
LEVEL = "other"
