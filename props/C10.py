"""C10 - a Measurement handle is exactly the database restricted to that measurement."""
from .common import *
ID = "C10"
_M = "tinyflux.measurement.Measurement."
FUNCTIONS = [_M + f for f in ("name", "count", "contains", "get", "search", "remove", "remove_all", "update", "update_all", "insert", "insert_multiple", "get_tag_keys", "get_field_keys", "get_field_values", "get_timestamps")] + \
    [TF + f for f in ("count", "contains", "remove", "drop_measurement", "insert", "insert_multiple", "update", "update_all", "get_tag_keys", "get_field_keys", "get_field_values", "get_timestamps")]
ASSUMED = []
STANDIN = "standins/dbdiff.py"
TRUSTED = TRUSTED_CORE + [STORAGE_ASSUMED, QUERY_ASSUMED, "callee contracts of get/search are proved under C01; Measurement.select, get_tag_values, __len__/__iter__/all are NOT under contract (bounded stand-in only)"]
ASSUMPTIONS = [A_ALIAS, "the restriction is `if measurement and ...` in the code: the name '' is treated like None (KF-19, recorded finding)"]
