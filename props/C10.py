"""C10 - a Measurement handle is exactly the database restricted to that measurement."""
from .common import *
ID = "C10"
_M = "tinyflux.measurement.Measurement."
FUNCTIONS = [_M + f for f in ("name", "count", "contains", "get", "search", "select", "remove", "remove_all", "update", "update_all", "insert", "insert_multiple", "get_tag_keys", "get_tag_values", "get_field_keys", "get_field_values", "get_timestamps", "__iter__", "__len__", "all")] + \
    [TF + f for f in ("count", "contains", "get", "search", "select", "remove", "drop_measurement", "insert", "insert_multiple", "update", "update_all", "get_tag_keys", "get_tag_values", "get_field_keys", "get_field_values", "get_timestamps")]
ASSUMED = []
STANDIN = "standins/dbdiff.py"
TRUSTED = TRUSTED_CORE + [STORAGE_ASSUMED, QUERY_ASSUMED, " __iter__/__len__/all compare the measurement with the name directly (no truthiness test), so they are exact also for the name ''"]
ASSUMPTIONS = [A_ALIAS, "the restriction is `if measurement and ...` in the code: the name '' is treated like None (KF-19, recorded finding)"]
# "any read leaves the index valid" is C06's clause (known finding KF-20 for len()/iteration): decided there, not here
OUT_OF_SCOPE = [r"index_valid_after_read_when_auto"]
