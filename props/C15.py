from .csvcommon import *
ID = "C15"
# the file-level claims on CSVStorage, plus the database-level half of "a no-op write leaves no trace": remove/update whose selection is empty or
# whose update changes nothing leave storage untouched and discard temporary storage (clauses nothing_selected_changes_nothing / no_change_leaves_storage_untouched / temp_empty)
FUNCTIONS = CSV_FUNCS + [TF + f for f in ("_remove_helper", "remove", "_update_helper", "update", "update_all")]
ASSUMED = []
STANDIN = "standins/csvio.py"
TRUSTED = IO_TRUSTED + [STORAGE_ASSUMED, QUERY_ASSUMED]
ASSUMPTIONS = ["A-single: one process, one TinyFlux object per file", "A-buf: one csv row fits the text/binary buffers, so bytes reach the disk only at flush/seek/close"]
