from .csvcommon import *
ID = "C15"
FUNCTIONS = CSV_FUNCS
ASSUMED = []
STANDIN = "standins/csvio.py"
TRUSTED = IO_TRUSTED
ASSUMPTIONS = ["A-single: one process, one TinyFlux object per file", "A-buf: one csv row fits the text/binary buffers, so bytes reach the disk only at flush/seek/close"]
