from .csvcommon import *
ID = "C04"
FUNCTIONS = CSV_FUNCS + [TF + f for f in ("close", "__exit__", "__enter__")]
ASSUMED = ["tinyflux.storages.Storage.close"]
STANDIN = "standins/csvio.py"
TRUSTED = IO_TRUSTED
ASSUMPTIONS = ["A-single: one process, one TinyFlux object per file", "A-buf: one csv row fits the text/binary buffers, so bytes reach the disk only at flush/seek/close"]
