from .csvcommon import *
ID = "C04"
FUNCTIONS = CSV_FUNCS + [TF + f for f in ("close", "__exit__", "__enter__")]
ASSUMED = ["tinyflux.storages.Storage.close"]
STANDIN = "standins/csvio.py"
TRUSTED = IO_TRUSTED + ["assumed abstract contract of Storage.close (contents and temporary contents unchanged; may raise): its CSV instance is CSVStorage.close, proved in this cone", "NOT under contract (bounded stand-in only): CSVStorage.__init__, _check_for_existing_data, create_file"]
ASSUMPTIONS = ["A-single: one process, one TinyFlux object per file", "A-buf: one csv row fits the text/binary buffers, so bytes reach the disk only at flush/seek/close"]
