"""C18 - sorted-list helpers return the documented boundary positions."""
ID = "C18"
FUNCTIONS = ["tinyflux.utils.find_%s" % k for k in ("eq", "lt", "le", "gt", "ge")]
ASSUMED = ["bisect.bisect_left", "bisect.bisect_right"]
STANDIN = "standins/c18.py"
TRUSTED = [
    "pyvc itself (symbolic executor + encoding of Python semantics, DESIGN 2.3) and z3/cvc5",
    "assumed contract of CPython bisect.bisect_left/bisect_right (partition point of a list sorted under a total order); exercised against the real module by the bounded stand-in",
]
ASSUMPTIONS = [
    "list elements and the probe are totally ordered numbers without NaN (modelled as mathematical reals; the helpers only compare)",
    "Python ints are unbounded: integer arithmetic is mathematical, which is exact for CPython",
]


def replay_from_model(r):
    inp = r.get("inputs") or {}
    if "sorted_list" in inp and "x" in inp and isinstance(inp["sorted_list"], list):
        return dict(function=r["function"].rsplit(".", 1)[-1], sorted_list=inp["sorted_list"], x=inp["x"])
    return None
