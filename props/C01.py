"""C01 - query results equal exactly the stored points that satisfy the query."""
from .common import *
ID = "C01"
FUNCTIONS = UTILS + INDEX_SEARCH + ["tinyflux.database._index_is_exact_for"] + [TF + f for f in ("reindex", "count", "contains", "get", "search", "select", "all")] + ["lemma:count"]
ASSUMED = ["bisect.bisect_left", "bisect.bisect_right"] + ["tinyflux.storages.Storage." + f for f in ("can_read", "__len__", "_deserialize_storage_item", "_deserialize_measurement", "read")]
STANDIN = "standins/dbdiff.py"
TRUSTED = TRUSTED_CORE + [STORAGE_ASSUMED, QUERY_ASSUMED, TIME_ASSUMED, "assumed contract of bisect_left/right (C18)",
                          "TinyFlux.select: the `select_keys` argument is a str or an iterable whose list() is a list of str (a non-str element would raise AttributeError: outside the contract); key syntax is read through three uninterpreted observers of abstract strings (startswith, len, s[k:]) shared by code and contract - no string theory; returned values are compared as Cell values (None | datetime | str | number)", "not proved: termination of the recursion in _search_helper (the Measurement forwarders are proved under C10)"]
ASSUMPTIONS = [A_ALIAS, "A-gen: generator arguments are consumed without observable interleaving",
               "measurement filter '' behaves like None in the code; contracts follow the code there (recorded under C10 as KF-19)"]
FUNCTIONS = FUNCTIONS + MEM_REFINEMENT  # MemoryStorage refines the abstract Storage contract
