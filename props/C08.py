"""C08 - timestamps are stored as exact UTC instants and ordered correctly."""
from .common import *
ID = "C08"
FUNCTIONS = [TF + f for f in ("_insert_helper", "insert", "insert_multiple")] + [IX + f for f in ("latest_time", "_search_timestamps", "_insert_time", "insert")] + UTILS + ["lemma:time"] + [TF + "_generate_updater", TF + "_generate_updater.<locals>.perform_update", "tinyflux.point.Point._serialize_to_list", "tinyflux.point.Point._deserialize_from_list", "lemma:codec", IX + "get_timestamps", TF + "get_timestamps"]
ASSUMED = ["bisect.bisect_left", "bisect.bisect_right"]
STANDIN = "standins/csvio.py"
TRUSTED = TRUSTED_CORE + [STORAGE_ASSUMED, TIME_ASSUMED,
                          "datetime model: astimezone(utc) keeps the instant (dt_utc), timestamp() is a function of the datetime; IEEE-754: |RN(x)-x| <= 2^-21 for |x| < 2^33 (years 1700-2240) is the hypothesis of the two LRA lemmas",
                          "codec time cell: datetime.isoformat/fromisoformat are inverse on naive values and replace(tzinfo=None).replace(tzinfo=utc) is the identity on UTC-normalised values (ASSUMED library laws of contracts/codec_model.py); the round trip of the time cell is then proved in lemma:codec",
                          "get_timestamps is proved to return, in insertion order, datetimes whose timestamp() equals the stored point's (index path: fromtimestamp(ts).astimezone(utc) with dt_ts(dt_utc(dt_from_ts(x))) = x ASSUMED; scan path: the abstract Storage._deserialize_timestamp clause ASSUMED); that equal float timestamps mean equal microsecond instants is lemma:time",
                          "NOT under contract: CSVStorage._deserialize_timestamp"]
ASSUMPTIONS = ["naive datetimes are interpreted by CPython's local-time rules (validated by the stand-in under four process time zones)"]

# the codec functions are shared with C05: the value cells (measurement, tag and field values - where KF-16 lives) are C05's claim, the time cell is C08's
OUT_OF_SCOPE = [r"_serialize_to_list/.*(measurement_cell|OverflowError)", r"lemma:codec/round_trip\[(measurement|tag_value|field_value|tags_stay|fields_stay)"]
