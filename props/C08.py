"""C08 - timestamps are stored as exact UTC instants and ordered correctly."""
from .common import *
ID = "C08"
FUNCTIONS = [TF + f for f in ("_insert_helper", "insert", "insert_multiple")] + [IX + f for f in ("latest_time", "_search_timestamps", "_insert_time", "insert")] + UTILS + ["lemma:time"]
ASSUMED = ["bisect.bisect_left", "bisect.bisect_right"]
STANDIN = "standins/csvio.py"
TRUSTED = TRUSTED_CORE + [STORAGE_ASSUMED, TIME_ASSUMED,
                          "datetime model: astimezone(utc) keeps the instant (dt_utc), timestamp() is a function of the datetime; IEEE-754: |RN(x)-x| <= 2^-21 for |x| < 2^33 (years 1700-2240) is the hypothesis of the two LRA lemmas",
                          "NOT under contract in this round (bounded stand-in only): perform_update's time normalisation (fix e67c567), the codec's isoformat round trip, get_timestamps"]
ASSUMPTIONS = ["naive datetimes are interpreted by CPython's local-time rules (validated by the stand-in under four process time zones)"]
