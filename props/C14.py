"""C14 - no API path lets an invalid value into the database."""
from .common import *
ID = "C14"
_P = "tinyflux.point."
FUNCTIONS = [_P + "validate_tags", _P + "validate_fields"] + [_P + "Point." + f for f in ("time.setter", "measurement.setter", "tags.setter", "fields.setter", "_validate_kwargs", "__init__", "time", "measurement", "tags", "fields")] + \
    [TF + f for f in ("_insert_helper", "insert", "insert_multiple")]
ASSUMED = ["tinyflux.database.TinyFlux._generate_updater"]
STANDIN = "standins/validation.py"
TRUSTED = TRUSTED_CORE + [
    "the Any universe of contracts/any_model.py: isinstance is an uninterpreted predicate per class name, mappings have AnyV keys/values; converting an Any value into a typed slot of a Point is only allowed under the obligation that it has the right type ('InvalidValueStored' must be unreachable)",
    "NOT under contract in this round (bounded stand-in only): _generate_updater's validation of static update arguments and perform_update's validation of callable results (fix a40b2b8)",
    STORAGE_ASSUMED,
]
ASSUMPTIONS = ["callers do not mutate dicts obtained from point.tags / point.fields behind the library's back (A-alias)"]
