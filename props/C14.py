"""C14 - no API path lets an invalid value into the database."""
from .common import *
ID = "C14"
_P = "tinyflux.point."
FUNCTIONS = [_P + "validate_tags", _P + "validate_fields"] + [_P + "Point." + f for f in ("time.setter", "measurement.setter", "tags.setter", "fields.setter", "_validate_kwargs", "__init__", "time", "measurement", "tags", "fields")] + \
    [TF + f for f in ("_insert_helper", "insert", "insert_multiple", "_generate_updater", "_generate_updater.<locals>.perform_update", "_update_helper", "update", "update_all")]
ASSUMED = []
STANDIN = "standins/validation.py"
TRUSTED = TRUSTED_CORE + [
    "the Any universe of contracts/any_model.py: isinstance is an uninterpreted predicate per class name, mappings have AnyV keys/values; converting an Any value into a typed slot of a Point is only allowed under the obligation that it has the right type ('InvalidValueStored' must be unreachable)",
    "a callable update argument is an uninterpreted function of the point returning an arbitrary Any value; truthiness and callability of Any values are uninterpreted predicates",
    STORAGE_ASSUMED,
]
ASSUMPTIONS = ["callers do not mutate dicts obtained from point.tags / point.fields behind the library's back (A-alias)"]
