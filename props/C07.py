"""C07 - exploration getters and lengths report exactly what is stored."""
from .common import *
ID = "C07"
FUNCTIONS = [TF + "__len__", TF + "all", TF + "reindex", IX + "__len__", IX + "build"]
ASSUMED = ["tinyflux.storages.Storage.__len__", "tinyflux.storages.Storage.read"]
STANDIN = "standins/dbdiff.py"
TRUSTED = TRUSTED_CORE + [STORAGE_ASSUMED,
                          "NOT under contract in this round (bounded stand-in only): Index.get_* (6 getters), TinyFlux.get_* (6 getters), TinyFlux.__iter__, Measurement.__len__/__iter__/all, CSVStorage.__len__"]
ASSUMPTIONS = [A_ALIAS]
LEVEL = "other"
