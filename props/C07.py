"""C07 - exploration getters and lengths report exactly what is stored."""
from .common import *
ID = "C07"
FUNCTIONS = [TF + "__len__", TF + "all", TF + "reindex", IX + "__len__", IX + "build"] + \
    [IX + f for f in ("get_measurements", "get_tag_keys", "get_field_keys")] + [TF + f for f in ("get_measurements", "get_tag_keys", "get_field_keys")] + \
    ["tinyflux.measurement.Measurement." + f for f in ("get_tag_keys", "get_field_keys")]
ASSUMED = ["tinyflux.storages.Storage.__len__", "tinyflux.storages.Storage.read"]
STANDIN = "standins/dbdiff.py"
TRUSTED = TRUSTED_CORE + [STORAGE_ASSUMED,
                          "NOT under contract (bounded stand-in only): get_tag_values, get_field_values, get_timestamps (Index, TinyFlux, Measurement), Measurement.get... of those, TinyFlux.__iter__, Measurement.__len__/__iter__/all"]
ASSUMPTIONS = [A_ALIAS]
LEVEL = "other"
