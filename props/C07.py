"""C07 - exploration getters and lengths report exactly what is stored."""
from .common import *
ID = "C07"
FUNCTIONS = [TF + "__len__", TF + "all", TF + "reindex", IX + "__len__", IX + "build"] + \
    [IX + f for f in ("get_measurements", "get_tag_keys", "get_tag_values", "get_field_keys", "get_field_values", "get_timestamps")] + [TF + f for f in ("get_measurements", "get_tag_keys", "get_tag_values", "get_field_keys", "get_field_values", "get_timestamps", "__iter__")] + \
    ["tinyflux.measurement.Measurement." + f for f in ("get_tag_keys", "get_tag_values", "get_field_keys", "get_field_values", "get_timestamps", "__iter__", "__len__", "all")] + ["tinyflux.storages.CSVStorage.__len__", "tinyflux.storages.MemoryStorage.__len__"]
ASSUMED = ["tinyflux.storages.Storage.__len__", "tinyflux.storages.Storage.read", "tinyflux.storages.Storage._deserialize_timestamp"]
STANDIN = "standins/dbdiff.py"
TRUSTED = TRUSTED_CORE + [STORAGE_ASSUMED,
                          "generator functions (TinyFlux.__iter__, Measurement.__iter__) are read as the list of what they yield (A-gen: the consumer does not interleave other effects)", TIME_ASSUMED,
                          "three Skolem functions for existential clauses of the index invariant (every tag key has a value; every position occurs in the time order; conservative over the precondition)"]
ASSUMPTIONS = [A_ALIAS]
# "any read leaves the index valid" is C06's clause (known finding KF-20 for len()/iteration): decided there, not here
OUT_OF_SCOPE = [r"index_valid_after_read_when_auto"]
