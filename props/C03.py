"""C03 - update changes exactly the matching points, with documented merge semantics."""
from .common import *
ID = "C03"
FUNCTIONS = [TF + f for f in ("_update_helper", "update", "update_all", "reindex")] + [IX + f for f in ("search", "_search_helper", "build", "invalidate", "_reset")] + \
    ["tinyflux.database._index_is_exact_for", "tinyflux.measurement.Measurement.remove", "lemma:count"]
ASSUMED = ["tinyflux.database.TinyFlux._generate_updater"] + ["tinyflux.storages.Storage." + f for f in ("can_read", "can_write", "append", "_swap_temp_with_primary", "_init_temp_storage", "_cleanup_temp_storage", "_deserialize_storage_item", "_deserialize_measurement", "_serialize_point")]
STANDIN = "standins/dbdiff.py"
TRUSTED = TRUSTED_CORE + [STORAGE_ASSUMED, QUERY_ASSUMED,
                          "INTERFACE contract of _generate_updater / perform_update (NOT proved against their bodies in this round): static arguments are validated up front (ValueError before any effect); the closure maps a point to its updated value or raises; the merge semantics themselves (key-by-key merge, unset last, static = callable) are covered only by the bounded stand-in"]
ASSUMPTIONS = [A_ALIAS, "KF-18: MemoryStorage applies updates in place (aliasing); the proof is relative to the non-aliasing Storage contract"]
