"""C03 - update changes exactly the matching points, with documented merge semantics."""
from .common import *
ID = "C03"
FUNCTIONS = [TF + f for f in ("_update_helper", "update", "update_all", "reindex")] + [IX + f for f in ("search", "_search_helper", "build", "invalidate", "_reset")] + \
    ["tinyflux.database._index_is_exact_for", "tinyflux.measurement.Measurement.remove", "lemma:count"] + [TF + "_generate_updater", TF + "_generate_updater.<locals>.perform_update"] + ["tinyflux.point.validate_tags", "tinyflux.point.validate_fields"]
ASSUMED = ["tinyflux.storages.Storage." + f for f in ("can_read", "can_write", "append", "_swap_temp_with_primary", "_init_temp_storage", "_cleanup_temp_storage", "_deserialize_storage_item", "_deserialize_measurement", "_serialize_point")]
STANDIN = "standins/dbdiff.py"
TRUSTED = TRUSTED_CORE + [STORAGE_ASSUMED, QUERY_ASSUMED,
                          "the Any universe of contracts/any_model.py (isinstance uninterpreted per class name, truthiness and callability of an Any value uninterpreted); a callable update argument is an uninterpreted function of the point whose result is an arbitrary Any value"]
ASSUMPTIONS = [A_ALIAS, "KF-18: MemoryStorage applies updates in place (aliasing); the proof is relative to the non-aliasing Storage contract"]
FUNCTIONS = FUNCTIONS + MEM_REFINEMENT  # MemoryStorage refines the abstract Storage contract
