from .common import *
CS = "tinyflux.storages.CSVStorage."
CSV_FUNCS = [CS + f for f in ("can_read", "can_write", "can_append", "append", "_write", "reset", "__len__", "__iter__", "_init_temp_storage", "_cleanup_temp_storage", "_swap_temp_with_primary", "close")]
IO_TRUSTED = [
    "pyvc (symbolic executor + encoding of Python semantics) and z3/cvc5",
    "I/O effect model of contracts/io_model.py (DESIGN 4.4), ASSUMED: text-mode seek/flush/close move buffered rows to disk in one step; csv.writer rows reach the Python buffer only (A-buf); truncate cuts at the position; "
    "shutil.copy is three steps on the destination (empty, prefix, complete) and copies only what is on disk; os.replace is atomic; NamedTemporaryFile creates an empty file; a write that is not at end-of-file loses data; "
    "each call may fail with OSError before its effect (flush/fsync/close also after), at most one injected fault per operation",
    "the csv module itself (quoting, dialects, encodings: read(write(rows)) = rows when reader and writer share encoding, newline mode and kwargs) is ASSUMED; it is exercised by the bounded stand-in over delimiters, quotes, CR/LF, non-ASCII and four encodings",
    "rows are opaque items here: the Point<->row codec is C05's concern",
    "the composition with database.py is through the abstract Storage contract whose clauses these postconditions match (items = disk ++ buffer, temp = temporary file); the match is by inspection, not mechanically checked",
]
