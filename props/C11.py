"""C11 - an operation that raises leaves the database as it was, and still usable."""
from .common import *
ID = "C11"
FUNCTIONS = [TF + f for f in ("_insert_helper", "insert", "insert_multiple", "_update_helper", "update", "update_all")] + [IX + f for f in ("insert", "invalidate", "latest_time", "empty")] + ["lemma:count"]
ASSUMED = ["tinyflux.database.TinyFlux._generate_updater"]
STANDIN = "standins/dbdiff.py"
TRUSTED = TRUSTED_CORE + [STORAGE_ASSUMED, QUERY_ASSUMED, TIME_ASSUMED, "INTERFACE contract of _generate_updater / perform_update (not proved against their bodies): validation of static arguments precedes every effect"]
ASSUMPTIONS = [A_ALIAS, "KF-18: MemoryStorage applies updates in place; relative to the non-aliasing Storage contract"]
