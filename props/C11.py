"""C11 - an operation that raises leaves the database as it was, and still usable."""
from .common import *
ID = "C11"
FUNCTIONS = [TF + f for f in ("_insert_helper", "insert", "insert_multiple", "_update_helper", "update", "update_all")] + [IX + f for f in ("insert", "invalidate", "latest_time", "empty")] + ["lemma:count"] + [TF + "_generate_updater", TF + "_generate_updater.<locals>.perform_update"] + ["tinyflux.point.validate_tags", "tinyflux.point.validate_fields"]
ASSUMED = []
STANDIN = "standins/dbdiff.py"
TRUSTED = TRUSTED_CORE + [STORAGE_ASSUMED, QUERY_ASSUMED, TIME_ASSUMED, "the Any universe of contracts/any_model.py for update arguments"]
ASSUMPTIONS = [A_ALIAS, "KF-18: MemoryStorage applies updates in place; relative to the non-aliasing Storage contract"]
FUNCTIONS = FUNCTIONS + MEM_REFINEMENT  # MemoryStorage refines the abstract Storage contract
# an operation that raises because reading storage failed (C13's read faults) must also leave a usable database: the index rebuild and its caller
FUNCTIONS = FUNCTIONS + [IX + "build", TF + "reindex"]
