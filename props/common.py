"""Shared cone pieces."""
IX = "tinyflux.index.Index."
IR = "tinyflux.index.IndexResult."
TF = "tinyflux.database.TinyFlux."
UT = "tinyflux.utils."
INDEX_MUTATORS = [IX + f for f in (
    "__init__", "_reset", "invalidate", "valid", "__len__", "empty",
    "_insert_measurements", "_insert_tags", "_insert_fields", "_insert_time", "insert", "build",
    "_remove_measurements", "_remove_tags", "_remove_fields", "_remove_timestamps", "remove",
    "_update_measurements", "_update_tags", "_update_fields", "update")]
INDEX_SEARCH = [IX + f for f in ("search", "_search_helper", "_search_measurement", "_search_tags", "_search_fields", "_search_timestamps")] + \
    [IR + f for f in ("__init__", "items", "__and__", "__or__", "__invert__")]
UTILS = [UT + "find_" + k for k in ("eq", "lt", "le", "gt", "ge")]
SHARDS = {
    IX + "insert": 8, IX + "build": 8, IX + "_remove_tags": 6, IX + "remove": 6, IX + "update": 4, IX + "_remove_measurements": 2,
    IX + "_search_helper": 8, IX + "_search_timestamps": 8,
    TF + "count": 12, TF + "contains": 12, TF + "search": 16, TF + "select": 16, TF + "get": 16, TF + "all": 6, TF + "reindex": 4,
    TF + "_remove_helper": 16, TF + "remove": 6, TF + "drop_measurement": 8, TF + "_reset_database": 2,
    "lemma:count": 4, TF + "_insert_helper": 16, TF + "_update_helper": 16, TF + "update": 6, TF + "update_all": 6, TF + "insert": 4, TF + "insert_multiple": 4,
}
TRUSTED_CORE = [
    "pyvc (symbolic executor + encoding of Python semantics, DESIGN 2.3) and z3/cvc5",
    "assumed contract of list.sort/sorted(key=...): stable permutation ordered by key (DESIGN 4.2)",
    "assumed facts about len() of a Python set: non-negative, zero iff empty, and len(A) = |A ∩ [0,n)| for A ⊆ [0,n) (DESIGN 3.6)",
]
STORAGE_ASSUMED = ("abstract Storage contract (DESIGN 3.3: iteration yields `items`, append/swap/reset/temp as specified, deserialisation = dec): database.py is verified against it. "
                   "MemoryStorage's methods (append, __len__, _init/_cleanup_temp_storage, _swap_temp_with_primary, _write, reset, the three (de)serialisers) are PROVED to refine it, clause by clause, "
                   "over values (object identity / aliasing is not modelled: KF-18 is the known deviation, MemoryStorage hands out its own objects); its generator __iter__ is proved to yield exactly the primary list in order; read() (inherited list(...) over that iteration) and __init__ are read, not proved. "
                   "CSVStorage is proved against the I/O effect model (C04/C12/C13/C15/C16) whose postconditions match these clauses by inspection; CSVStorage.__init__ is not under contract")
MS_ = "tinyflux.storages.MemoryStorage."
MEM_REFINEMENT = [MS_ + f for f in ("append", "__len__", "_init_temp_storage", "_cleanup_temp_storage", "_swap_temp_with_primary", "_write", "reset",
                                    "_deserialize_storage_item", "_deserialize_measurement", "_serialize_point", "__iter__")]
QUERY_ASSUMED = "query objects: q(point) is total and equals the meaning function sem (C09); for index-eligible simple queries (truthy hash) the path/test closures behave as summarised in contracts/model.py query_axioms (discharged on queries.py under C09/C17)"
TIME_ASSUMED = "datetime: aware datetimes compare by instant = comparison of timestamp(); fromtimestamp(ts).astimezone(utc) restores a stored datetime (DESIGN 4.3, validated under C08)"
A_ALIAS = "A-alias: containers inside Index/TinyFlux are not shared; a loop that writes through the container it iterates only replaces the value of the key being visited"
