"""C17 - queries that compare equal behave identically."""
from .common import *
ID = "C17"
_Q = "tinyflux.queries."
CTORS = ["__eq__", "__ne__", "__lt__", "__le__", "__gt__", "__ge__", "test", "matches", "search", "noop", "map", "__getattr__", "__getitem__", "__init__", "_generate_simple_query",
         "_generate_simple_query.<locals>.test", "_generate_simple_query.<locals>.path_resolver", "matches.<locals>.test", "search.<locals>.test", "__and__", "__or__", "__invert__", "__hash__", "is_hashable"]
FUNCTIONS = [_Q + "BaseQuery." + f for f in CTORS] + [_Q + c + ".__init__" for c in ("TagQuery", "FieldQuery", "MeasurementQuery", "TimeQuery")] + \
    [_Q + "TagQuery.exists", _Q + "FieldQuery.exists", _Q + "FieldQuery.matches", _Q + "FieldQuery.search", _Q + "TimeQuery.matches", _Q + "TimeQuery.search"] + \
    [_Q + "SimpleQuery." + f for f in ("__init__", "point_attr", "__call__", "__hash__", "is_hashable", "__eq__", "__and__", "__or__", "__invert__")] + \
    [_Q + "CompoundQuery." + f for f in ("__init__", "__call__", "__hash__", "is_hashable", "__eq__", "__and__", "__or__", "__invert__")] + ["lemma:pfold"]
ASSUMED = []
STANDIN = "standins/queries.py"
TRUSTED = [
    "pyvc (symbolic executor + encoding of Python semantics) and z3/cvc5",
    "model of Python values seen by queries (contracts/query_model.py): dict subscripts resolve keys, str/None/number/datetime are not subscriptable by a string key; operator.eq/ne/lt/... and user callables are uninterpreted functions that may raise, assumed deterministic and (for tests) boolean-valued; re.fullmatch/re.search are uninterpreted predicates of (regex, value, flags) raising only on non-strings",
    "Python tuples/frozensets used as hash values compare structurally (injective constructors, unordered pairs symmetric)",
    "the bridge from these proved constructor postconditions to the index-eligibility axioms used by the C01 cone (contracts/model.py query_axioms) is an argument on paper: every SimpleQuery with a truthy hash is built by one of the constructors verified here",
]
ASSUMPTIONS = ["A-mypy: query objects are only built through the public constructors", "user test/map functions are pure and deterministic (documented requirement)"]
# the proof ASSUMES that equal hash tuples have identical components; known finding KF-21 (== identifies 1, 1.0, True) shows the property
# itself fails for test() arguments that are equal but of different type, so the claim is not proof-level
LEVEL = "other"
