# Native probes for the defects of DESIGN §9; prints "<id> OK|BAD detail". Uses whichever tinyflux is first on sys.path.
import os, re, sys, tempfile, shutil
from datetime import datetime, timezone, timedelta
from tinyflux import TinyFlux, Point, TagQuery, FieldQuery, MeasurementQuery, TimeQuery
from tinyflux.storages import MemoryStorage
import tinyflux.storages as st
U=timezone.utc; t0=datetime(2020,1,1,tzinfo=U)
def mk(storage="mem", auto=True, **kw):
    if storage=="mem": return TinyFlux(storage=MemoryStorage, auto_index=auto)
    d=tempfile.mkdtemp(); return TinyFlux(os.path.join(d,"db.csv"), auto_index=auto, **kw)
def pts(): return [Point(time=t0+timedelta(seconds=i), measurement="m%d"%(i%2), tags={"k":"v%d"%i} if i!=1 else {}, fields={"a":i} if i!=2 else {}) for i in range(4)]
R={}
def probe(i):
    def deco(f):
        try: ok,detail=f()
        except Exception as e: ok,detail=False,"raises %s: %s"%(type(e).__name__,str(e)[:60])
        R[i]=(ok,detail); return f
    return deco
@probe(1)
def _():
    db=mk(); db.insert_multiple(pts()); db.remove_all(); db.insert(Point(time=t0,fields={"a":1})); c=db.count(TimeQuery()>=t0); return c==1,c
@probe(2)
def _():
    db=mk(); db.insert_multiple(pts()); db.remove(TagQuery().k=="v0"); c=db.count(TimeQuery()>t0-timedelta(1)); g=db.get_timestamps(); return (c==3 and len(g)==3),(c,len(g))
@probe(3)
def _():
    db=mk(); db.insert_multiple(pts()); q=~(FieldQuery().a==1); c=db.count(q); r=db.remove(q); return (c==3 and r==3 and len(db.all())==1),(c,r,len(db.all()))
@probe(4)
def _():
    db=mk(); db.insert_multiple(pts()); c=db.count(TagQuery().noop()); return c==4,c
@probe(5)
def _():
    db=mk(); db.insert_multiple(pts()); c=db.count(FieldQuery().a.map(lambda v:v+1)==2); return c==1,c
@probe(6)
def _():
    db=mk(); db.insert_multiple(pts()); v=db.get_field_values("a","m0"); return v==[0],v
@probe(7)
def _():
    r=(TagQuery().k.matches("a"))(Point(time=t0,tags={"k":None})); return r is False,r
@probe(8)
def _():
    r=(TagQuery().k.matches("a"))(Point(time=t0,tags={"k":"ab"})); return r is False,r
@probe(9)
def _():
    e1=TagQuery().k.matches("a")==TagQuery().k.matches("a",re.I); a=TagQuery().k=="x"; b=(TagQuery().j=="y")&(TagQuery().i=="z")
    return (not e1 and (a&b)==(b&a) and (a|b)==(b|a)),(e1,(a&b)==(b&a),(a|b)==(b|a))
@probe(10)
def _():
    db=mk(); db.insert_multiple(pts())
    try: db.update_all(tags=lambda t:{"z":1}); raised=False
    except (ValueError,TypeError): raised=True
    bad=[p.tags for p in db.all() if any(not(v is None or isinstance(v,str)) for v in p.tags.values())]; return (raised and not bad),(raised,bad[:1])
@probe(11)
def _():
    db=mk("csv"); db.insert(Point(time=t0,fields={"a":1})); x=datetime(2021,1,1,12,tzinfo=timezone(timedelta(hours=5))); db.update_all(time=x); got=db.all()[0].time; return got==x,str(got)
@probe(12)
def _():
    td=tempfile.gettempdir(); db=mk("csv"); db.insert_multiple(pts()); before=set(os.listdir(td)); db.update_all(fields={"a":2}); db.remove(FieldQuery().a==99); db.remove(TagQuery().k=="v0")
    def bad(f): raise KeyError("x")
    try: db.update_all(fields=bad)
    except KeyError: pass
    leaked=[f for f in set(os.listdir(td))-before if os.path.isfile(os.path.join(td,f))]; return not leaked,len(leaked)
@probe(13)
def _():
    db=mk("csv"); db.insert(Point(time=t0,tags={"k":"a\nb"})); db2=TinyFlux(db._storage._path, auto_index=False); return len(db2)==1,len(db2)
@probe(14)
def _():
    db=mk("csv", encoding="utf-16"); db.insert_multiple(pts()); db.update_all(tags={"n":"é"}); n=len(TinyFlux(db._storage._path, encoding="utf-16").all()); return n==4,n
@probe(15)
def _():
    db=mk("csv", flush_on_insert=False); db.insert_multiple(pts()); n=db.update_all(tags={"n":"x"}); m=len(db.all()); db.close(); k=len(TinyFlux(db._storage._path).all()); return (n==4 and m==4 and k==4),(n,m,k)
@probe(16)
def _():
    db=mk("csv"); db.insert(Point(time=t0,measurement="",tags={"k":"_none"},fields={"a":2**53+1})); p=db.all()[0]; return (p.measurement=="" and p.tags=={"k":"_none"} and p.fields["a"]==2**53+1),(p.measurement,p.tags,p.fields)
@probe(17)
def _():
    db=mk(auto=False)
    try: db.insert_multiple([Point(time=t0),5])
    except TypeError: pass
    c=db.count(TimeQuery()>=t0); return c==len(db.all()),(db.index.valid,c,len(db.all()))
@probe(18)
def _():
    db=mk(); db.insert_multiple(pts())
    def bad(f): raise KeyError("x")
    try: db.update_all(time=t0+timedelta(days=1),fields=bad)
    except KeyError: pass
    ts=[p.time for p in db.all(sorted=False)]; return ts==[t0+timedelta(seconds=i) for i in range(4)],str(ts[0])
@probe(19)
def _():
    db=mk(); db.insert_multiple(pts()); c=db.measurement("").count(TimeQuery()>=t0); return c==0,c
@probe(20)
def _():
    db=mk(); db.insert(Point(time=t0)); db.insert(Point(time=t0-timedelta(1))); len(db); return db.index.valid,db.index.valid
@probe(21)
def _():
    db=mk("csv"); db.insert_multiple(pts()); path=db._storage._path; old=open(path).read()
    class Crash(BaseException): pass
    real=shutil.copy
    def dying(src,dst): open(dst,'wb').close(); raise Crash()
    st.shutil.copy=dying
    real_replace=getattr(os,'replace')
    try:
        try: db.update_all(tags={"z":"1"})
        except Crash: pass
    finally: st.shutil.copy=real
    cur=open(path).read(); return (cur==old or len(cur.splitlines())==4),len(cur)
@probe(22)
def _():
    db=mk("csv"); db.insert(Point(time=t0,tags={"k":"a"})); h=db._storage._handle
    class H:
        def __init__(s,h): s.h=h; s.fail=True
        def __getattr__(s,n): return getattr(s.h,n)
        def __iter__(s): return iter(s.h)
        def __next__(s): return next(s.h)
        def flush(s):
            if s.fail: s.fail=False; raise OSError(28,'ENOSPC')
            return s.h.flush()
    db._storage._handle=H(h)
    try: db.insert(Point(time=t0+timedelta(seconds=1),tags={"k":"FAILED"}))
    except OSError: pass
    db.insert(Point(time=t0+timedelta(seconds=2),tags={"k":"c"}))
    got=[p.tags["k"] for p in db.search(TagQuery().k=="c")]; return got==["c"],got
@probe(23)
def _():
    db=mk(); db.insert(Point(time=t0,measurement="")); db.insert(Point(time=t0,measurement="abc")); c=db.count(MeasurementQuery().map(lambda v:v[0])=="a"); return c==1,c
@probe(24)
def _():
    db=mk(); db.insert(Point(time=t0,tags={"a":"1","b":"2"})); db.insert(Point(time=t0,tags={"a":"1"})); c=db.count(TagQuery().map(len).test(lambda n:n==1)); return c==1,c
print(' '.join(f'{i}:{"ok" if R[i][0] else "BAD"}' for i in sorted(R)))
if '-v' in sys.argv:
    for i in sorted(R): print(i,R[i])
