import os, random, sys, tempfile, shutil, copy, collections, io, contextlib
from datetime import datetime, timezone, timedelta
from tinyflux import TinyFlux, Point, TagQuery, FieldQuery, MeasurementQuery, TimeQuery
from tinyflux.storages import MemoryStorage
U=timezone.utc; T0=datetime(2020,1,1,tzinfo=U)
rnd=random.Random(int(sys.argv[1])); NOTFIELD_OK=len(sys.argv)>3
MEAS=["m0","m1","_default"]; TK=["a","b"]; TV=["x","y","",None]; FK=["p","q"]; FV=[0,1,-1,2.5,None]
def rpoint():
    return Point(time=T0+timedelta(seconds=rnd.choice([0,1,1,2,3,5,8])), measurement=rnd.choice(MEAS),
                 tags={k:rnd.choice(TV) for k in TK if rnd.random()<.6}, fields={k:rnd.choice(FV) for k in FK if rnd.random()<.6})
ATOMS=[]
for k in TK:
    ATOMS+=[("T%s==x"%k, TagQuery()[k]=="x", lambda p,k=k: k in p.tags and p.tags[k]=="x"),
            ("T%s!=x"%k, TagQuery()[k]!="x", lambda p,k=k: k in p.tags and p.tags[k]!="x"),
            ("T%s<y"%k, TagQuery()[k]<"y", lambda p,k=k: k in p.tags and p.tags[k] is not None and p.tags[k]<"y"),
            ("T%s.re"%k, TagQuery()[k].search("x"), lambda p,k=k: k in p.tags and isinstance(p.tags[k],str) and "x" in p.tags[k]),
            ("T%s.exists"%k, TagQuery()[k].exists(), lambda p,k=k: k in p.tags)]
for k in FK:
    ATOMS+=[("F%s>0"%k, FieldQuery()[k]>0, lambda p,k=k: k in p.fields and p.fields[k] is not None and p.fields[k]>0),
            ("F%s==1"%k, FieldQuery()[k]==1, lambda p,k=k: k in p.fields and p.fields[k]==1),
            ("F%s!=1"%k, FieldQuery()[k]!=1, lambda p,k=k: k in p.fields and p.fields[k]!=1),
            ("F%s.map"%k, FieldQuery()[k].map(lambda v: v*2)==2, lambda p,k=k: k in p.fields and p.fields[k] is not None and p.fields[k]*2==2),
            ("F%s.exists"%k, FieldQuery()[k].exists(), lambda p,k=k: k in p.fields)]
ATOMS+=[("M==m0", MeasurementQuery()=="m0", lambda p: p.measurement=="m0"), ("M!=m0", MeasurementQuery()!="m0", lambda p: p.measurement!="m0"),
        ("M.test", MeasurementQuery().test(lambda v: v.startswith("m")), lambda p: p.measurement.startswith("m"))]
for s in (1,3):
    t=T0+timedelta(seconds=s)
    ATOMS+=[("t<%d"%s, TimeQuery()<t, lambda p,t=t: p.time<t), ("t<=%d"%s, TimeQuery()<=t, lambda p,t=t: p.time<=t),
            ("t>%d"%s, TimeQuery()>t, lambda p,t=t: p.time>t), ("t>=%d"%s, TimeQuery()>=t, lambda p,t=t: p.time>=t),
            ("t==%d"%s, TimeQuery()==t, lambda p,t=t: p.time==t), ("t!=%d"%s, TimeQuery()!=t, lambda p,t=t: p.time!=t)]
def _rquery(d=2):
    if d==0 or rnd.random()<.4: return rnd.choice(ATOMS)
    k=rnd.choice("&|~"); a=_rquery(d-1)
    if k=="~": return ("~(%s)"%a[0], ~a[1], lambda p,a=a: not a[2](p))
    b=_rquery(d-1)
    if k=="&": return ("(%s&%s)"%(a[0],b[0]), a[1]&b[1], lambda p,a=a,b=b: a[2](p) and b[2](p))
    return ("(%s|%s)"%(a[0],b[0]), a[1]|b[1], lambda p,a=a,b=b: a[2](p) or b[2](p))
def rquery(d=2):
    while True:
        r=_rquery(d)
        if NOTFIELD_OK or not ("~(" in r[0] and "F" in r[0]): return r
def key(p): return (p.time, p.measurement, tuple(sorted((k,(v is None,v or "")) for k,v in p.tags.items())), tuple(sorted((k,(v is None, v or 0)) for k,v in p.fields.items())))
def mk(cfg,d): return TinyFlux(storage=MemoryStorage,auto_index=cfg[1]) if cfg[0]=="mem" else TinyFlux(os.path.join(d,"db.csv"),auto_index=cfg[1])
CFGS=[("mem",True),("mem",False),("csv",True),("csv",False)]
found=collections.Counter(); examples={}
def note(kind,name,hist,detail):
    k=kind+(" [NOTFIELD]" if "~(" in name and "F" in name else ""); found[k]+=1; examples.setdefault(k,detail)
def check_reads(db,model,cfg,hist):
    for _ in range(4):
        name,q,sem=rquery(2); m=rnd.choice([None,None,"m0","zz"])
        exp=[p for p in model if (not m or p.measurement==m) and sem(p)]
        try:
            got=db.search(q,m,sorted=False)
            if [key(p) for p in got]!=[key(p) for p in exp]: note("search",name,hist,(cfg,hist,name,m,len(got),len(exp)))
            c=db.count(q,m)
            if c!=len(exp): note("count",name,hist,(cfg,hist,name,m,c,len(exp)))
            if db.contains(q,m)!=(len(exp)>0): note("contains",name,hist,(cfg,hist,name,m))
            g=db.get(q,m)
            if (g is None)!=(len(exp)==0) or (g is not None and key(g)!=key(exp[0])): note("get",name,hist,(cfg,hist,name,m))
            sl=db.select(("time","tags.a","fields.p"),q,m)
            if sl!=[(p.time,p.tags.get("a"),p.fields.get("p")) for p in exp]: note("select",name,hist,(cfg,hist,name,m))
            ss=db.search(q,m)
            if [key(p) for p in ss]!=[key(p) for p in sorted(exp,key=lambda p:p.time)]: note("search sorted",name,hist,(cfg,hist,name,m))
        except Exception as e: note("read raises "+type(e).__name__,name,hist,(cfg,hist,name,m,str(e)[:80]))
    for m in (None,"m0","zz"):
        sub=[p for p in model if not m or p.measurement==m]
        try:
            if db.get_field_keys(m)!=sorted({k for p in sub for k in p.fields}): note("get_field_keys","",hist,(cfg,hist,m))
            if db.get_tag_keys(m)!=sorted({k for p in sub for k in p.tags}): note("get_tag_keys","",hist,(cfg,hist,m))
            for fk in FK:
                if db.get_field_values(fk,m)!=[p.fields[fk] for p in sub if fk in p.fields]: note("get_field_values","",hist,(cfg,hist,fk,m))
            for keys in ([],["a"],["a","zz"]):
                tv=db.get_tag_values(keys,m); e={k:set() for k in keys}
                for p in sub:
                    for k,v in p.tags.items():
                        if not keys or k in keys: e.setdefault(k,set()).add(v)
                e={k:sorted(v,key=lambda x:(x is None,x)) for k,v in e.items()}
                if tv!=e: note("get_tag_values","",hist,(cfg,hist,keys,m,tv,e))
            if db.get_timestamps(m)!=[p.time for p in sub]: note("get_timestamps","",hist,(cfg,hist,m))
            if m:
                mh=db.measurement(m)
                if len(mh)!=len(sub): note("Measurement.len","",hist,(cfg,hist,m))
                if [key(p) for p in mh.all(sorted=False)]!=[key(p) for p in sub]: note("Measurement.all","",hist,(cfg,hist,m))
        except Exception as ex: note("getter raises "+type(ex).__name__,"",hist,(cfg,hist,m,str(ex)[:80]))
    if db.get_measurements()!=sorted({p.measurement for p in model}): note("get_measurements","",hist,(cfg,hist))
    if len(db)!=len(model): note("len","",hist,(cfg,hist,len(db),len(model)))
    if [key(p) for p in db.all(sorted=False)]!=[key(p) for p in model]: note("all/contents","",hist,(cfg,hist))
    if [key(p) for p in db.all()]!=[key(p) for p in sorted(model,key=lambda p:p.time)]: note("all sorted stable","",hist,(cfg,hist))
    if db._auto_index and not db.index.valid: note("index invalid after reads","",hist,(cfg,hist))
def run_history(cfg):
    d=tempfile.mkdtemp(); db=mk(cfg,d); model=[]; hist=[]
    try:
        for step in range(rnd.randint(2,7)):
            op=rnd.choice(["ins","ins","ins","rm","rm","upd","upd","rmall","drop","reopen","reindex"])
            if op=="ins":
                p=rpoint(); model.append(copy.deepcopy(p)); db.insert(p); hist.append("ins")
            elif op=="rm":
                name,q,sem=rquery(1); m=rnd.choice([None,"m0"])
                exp=[p for p in model if (not m or p.measurement==m) and sem(p)]; hist.append("rm[%s,%s]"%(name,m))
                try: r=db.remove(q,m)
                except Exception as e: note("remove raises "+type(e).__name__,name,hist,(cfg,list(hist))); break
                if r!=len(exp): note("remove count",name,hist,(cfg,list(hist),r,len(exp)))
                model=[p for p in model if not ((not m or p.measurement==m) and sem(p))]
                if [key(p) for p in db.all(sorted=False)]!=[key(p) for p in model]: note("remove contents",name,hist,(cfg,list(hist))); break
            elif op=="upd":
                name,q,sem=rquery(1); hist.append("upd[%s]"%name); m=rnd.choice([None,"m0"])
                selp=lambda p: (not m or p.measurement==m) and sem(p)
                kind=rnd.choice(["tags","time","meas","unset"])
                if kind=="tags": kw=dict(tags={"a":"y"}); ap=lambda p: p.tags.__setitem__("a","y")
                elif kind=="time": kw=dict(time=lambda t: t+timedelta(seconds=2)); ap=lambda p: setattr(p,"time",p.time+timedelta(seconds=2))
                elif kind=="meas": kw=dict(measurement="m1"); ap=lambda p: setattr(p,"measurement","m1")
                else: kw=dict(unset_tags="a",fields={"p":7}); ap=lambda p: (p.tags.pop("a",None), p.fields.__setitem__("p",7))
                before=[key(p) for p in model]
                for p in model:
                    if selp(p): ap(p)
                exp=sum(1 for b,p in zip(before,model) if b!=key(p))
                try: r=db.update(q,_measurement=m,**kw)
                except Exception as e: note("update raises "+type(e).__name__,name,hist,(cfg,list(hist),kind,str(e)[:60])); break
                if r!=exp: note("update count",name,hist,(cfg,list(hist),kind,r,exp))
                if [key(p) for p in db.all(sorted=False)]!=[key(p) for p in model]: note("update contents",name,hist,(cfg,list(hist),kind)); break
            elif op=="rmall": db.remove_all(); model=[]; hist.append("rmall")
            elif op=="drop":
                r=db.drop_measurement("m1"); exp=sum(1 for p in model if p.measurement=="m1"); model=[p for p in model if p.measurement!="m1"]; hist.append("drop")
                if r!=exp: note("drop count","",hist,(cfg,list(hist),r,exp))
            elif op=="reopen" and cfg[0]=="csv": db.close(); db=mk(cfg,d); hist.append("reopen")
            elif op=="reindex": db.reindex(); hist.append("reindex")
            check_reads(db,model,cfg,list(hist))
    finally:
        try: db.close()
        except Exception: pass
        shutil.rmtree(d,ignore_errors=True)
with contextlib.redirect_stdout(io.StringIO()):
    for it in range(int(sys.argv[2])): run_history(rnd.choice(CFGS))
for k,v in sorted(found.items()): print(f'{v:6d}  {k}   e.g. {examples[k]}'[:400])
print('done', sum(found.values()))
