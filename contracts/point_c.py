"""Contracts for tinyflux/point.py: property getters/setters on well-typed values (internal
flows, A-mypy).  The Any-typed validation contracts of C14 are in validators_c.py."""

import z3
from pyvc.core import *  # noqa
from pyvc import spec as S
from pyvc.spec import contract, Contract
from .model import *  # noqa
from .db_model import *  # noqa

_P = "tinyflux.point.Point."


def _getter(name, field, ty):
    class _c(Contract):
        params = dict(self=MP)
        ret = ty

        @staticmethod
        def ensures(c):
            return [("is_field", c.result.t == c.self.t[field].t)]

    contract(_P + name)(_c)


_getter("time", "_time", ODt)
_getter("measurement", "_measurement", TStr)
_getter("tags", "_tags", TagsD)
_getter("fields", "_fields", FldsD)
