"""queries.py cone, part 3: BaseQuery and its subclasses - constructors and closures (C09, C17)."""

import ast as _ast
import z3
from pyvc.core import *  # noqa
from pyvc import spec as S
from pyvc.spec import contract, Contract
from pyvc.verify import Exec
from .model import *  # noqa
from .query_model import *  # noqa
from .queries_c import *  # noqa
from .queries_c import _QM, self_q
from .queries2_c import *  # noqa
from .queries2_c import QT2, hash_faithful, OPNAMES

_BQ = _QM + "BaseQuery."
BQ_FIELDS = ("_point_attr", "_path", "_path_required", "_hash")
uv_isinst = z3.Function("uv_isinst", sort_of(UV), sort_of(TStr), z3.BoolSort())  # isinstance(value, <class>) for the classes queries.py checks


def _uv_isinstance(ex, v, names, node, st):
    if names == ["str"]:
        return uv_is_str(v.t)
    return z3.Or(*[uv_isinst(v.t, str_const(n)) for n in names])


Exec.isinstance_handlers["UV"] = _uv_isinstance
Exec.coercions.setdefault(LPart.key, {})["T__"] = lambda ex, v: ex.empty_of(LPart)


def _fields_are(obj, attr, path, req, h):
    f = obj.t
    return z3.And(f["_point_attr"].t == attr, f["_path"].t == path if path is not None else z3.BoolVal(True), f["_path_required"].t == req, f["_hash"].t == h)


@contract(_BQ + "__init__")
class _bq_init(Contract):
    params = dict(self=BQ)
    modifies = BQ_FIELDS

    @staticmethod
    def ensures(c):
        f = c.self.t
        return [("blank", z3.And(o_is_none(f["_point_attr"].t), l_len(f["_path"].t) == 0, z3.Not(f["_path_required"].t), f["_hash"].t == h_none))]


def _sub_init(cls, attr, required, base):
    @contract(_QM + cls + ".__init__")
    class _c(Contract):
        params = dict(self=BQ)
        modifies = BQ_FIELDS
        theories = ("hashes",)

        @staticmethod
        def ensures(c):
            f = c.self.t
            return [("typed", z3.And(f["_point_attr"].t == o_some(TOpt(TStr), str_const(attr)), l_len(f["_path"].t) == 0, f["_path_required"].t == z3.BoolVal(required),
                                     f["_hash"].t == h_base(str_const(base))))]


_sub_init("TagQuery", "_tags", True, "tags")
_sub_init("FieldQuery", "_fields", True, "fields")
_sub_init("MeasurementQuery", "_measurement", False, "measurement")
_sub_init("TimeQuery", "_time", False, "time")


def _path_extended(new, old, part):
    j = z3.Int(fresh_name("j"))
    n = l_len(old)
    return z3.And(l_len(new) == n + 1, l_at(new, n) == part, forall([j], z3.Implies(z3.And(0 <= j, j < n), l_at(new, j) == l_at(old, j)), patterns=[l_at(new, j), l_at(old, j)]))


@contract(_BQ + "__getattr__")
class _bq_getattr(Contract):
    """the path builder: a new query object of the same kind whose path is extended by the key; hashability is inherited"""
    params = dict(self=BQ, item=TStr)
    ret = BQ
    theories = ("hashes",)
    raises = {"RuntimeError": staticmethod(lambda c: dict(when=z3.Not(c.self.t["_path_required"].t)))}

    @staticmethod
    def ensures(c):
        r, s_ = c.result.t, c.self.t
        return [("same_kind", z3.And(r["_point_attr"].t == s_["_point_attr"].t, r["_path_required"].t == s_["_path_required"].t)),
                ("path_extended", _path_extended(r["_path"].t, s_["_path"].t, part_of_str(c.item.t))),
                ("hash", r["_hash"].t == z3.If(s_["_hash"].t != h_none, h_path(r["_path"].t), h_none))]


@contract(_BQ + "__getitem__")
class _bq_getitem(Contract):
    params = dict(self=BQ, item=TStr)
    ret = BQ
    theories = ("hashes",)
    raises = _bq_getattr.raises
    ensures = staticmethod(_bq_getattr.ensures)


@contract(_BQ + "map")
class _bq_map(Contract):
    """C17: a function in the path kills hashability for good"""
    params = dict(self=BQ, func=Op)
    ret = BQ

    @staticmethod
    def ensures(c):
        r, s_ = c.result.t, c.self.t
        return [("same_kind", z3.And(r["_point_attr"].t == s_["_point_attr"].t, r["_path_required"].t == s_["_path_required"].t)),
                ("path_extended", _path_extended(r["_path"].t, s_["_path"].t, part_of_fn(c.func.t))),
                ("unhashable", r["_hash"].t == h_none)]


# ---- the two closures of _generate_simple_query, verified as functions over their captured variables
@contract(_BQ + "_generate_simple_query.<locals>.test")
class _gsq_test(Contract):
    """comparison tests swallow the operator's exceptions (undefined for None -> False); user tests are applied as given"""
    params = dict(x=UV)
    free_vars = dict(test_against_rhs=TBool, operator=Op, rhs=UV, args=Args)
    ret = TBool
    theories = ("closures",)
    raises = {"UserError": staticmethod(lambda c: dict(when=tf_raises(mk_testfn(c.test_against_rhs.t, c.operator.t, c.rhs.t, c.args.t), c.x.t)))}

    @staticmethod
    def ensures(c):
        return [("is_spec", c.result.t == tf_apply(mk_testfn(c.test_against_rhs.t, c.operator.t, c.rhs.t, c.args.t), c.x.t))]


@contract(_BQ + "_generate_simple_query.<locals>.path_resolver")
class _gsq_path(Contract):
    """walks the path: string parts subscript the value, functions are applied; any failure propagates"""
    params = dict(value=UV)
    free_vars = dict(self=BQ)
    ret = UV
    theories = ("closures", "querycode")
    raises = {"UserError": staticmethod(lambda c: dict(when=pf_raises(mk_pathfn(c.self.t["_path"].t), c.value.t)))}
    exception_aliases = True

    @staticmethod
    def ensures(c):
        return [("is_fold", c.result.t == pf_apply(mk_pathfn(c.self.t["_path"].t), c.old.value.t))]

    @staticmethod
    def _inv(c):
        path = c.self.t["_path"].t
        t = c.loop(0).t
        v0 = c.old.value.t
        return [("value_is_fold_prefix", z3.And(c.value.t == pfold(path, t, v0), z3.Not(pfold_raises(path, t, v0))))]

    loops = {0: dict(inv=lambda c: _gsq_path._inv(c))}


def _closure_test(ex, s, st):
    e = st.env
    st.env["test"] = Val(TestFn, mk_testfn(e["test_against_rhs"].t, e["operator"].t, e["rhs"].t, e["args"].t))


def _closure_path(ex, s, st):
    st.env["path_resolver"] = Val(PathFn, mk_pathfn(st.env["self"].t["_path"].t))


@contract(_BQ + "_generate_simple_query")
class _gsq(Contract):
    params = dict(self=BQ, operator=Op, test_against_rhs=TBool, rhs=UV, args=Args, hashval=H)
    ret = SQ
    theories = QT2
    closure_defs = {"test": _closure_test, "path_resolver": _closure_path}

    @staticmethod
    def _bad_rhs(c):
        a, r = c.self.t["_point_attr"].t, c.rhs.t
        is_ = lambda name: z3.And(o_is_some(a), o_val(a) == str_const(name), uv_truthy(r))
        return z3.Or(z3.And(is_("_time"), z3.Not(uv_isinst(r, str_const("datetime")))), z3.And(is_("_measurement"), z3.Not(uv_is_str(r))),
                     z3.And(is_("_tags"), z3.Not(uv_is_str(r))), z3.And(is_("_fields"), z3.Not(z3.Or(uv_isinst(r, str_const("int")), uv_isinst(r, str_const("float"))))))

    @staticmethod
    def _no_path(c):
        f = c.self.t
        return z3.Or(z3.And(f["_path_required"].t, l_len(f["_path"].t) == 0), z3.Not(z3.And(o_is_some(f["_point_attr"].t), o_val(f["_point_attr"].t) != EMPTY_STR)))

    raises = {"RuntimeError": staticmethod(lambda c: dict(when=_gsq._no_path(c))),
              "TypeError": staticmethod(lambda c: dict(when=z3.And(z3.Not(_gsq._no_path(c)), _gsq._bad_rhs(c))))}

    @staticmethod
    def ensures(c):
        r, s_ = c.result.t, c.self.t
        return [("components", z3.And(r["_point_attr"].t == o_val(s_["_point_attr"].t), r["_operator"].t == c.operator.t, r["_rhs"].t == c.rhs.t,
                                      r["_test"].t == mk_testfn(c.test_against_rhs.t, c.operator.t, c.rhs.t, c.args.t), r["_path_resolver"].t == mk_pathfn(s_["_path"].t))),
                ("hash_only_if_hashable", r["_hash"].t == z3.If(s_["_hash"].t != h_none, c.hashval.t, h_none))]


def sq_value(r):
    return mk_simple(*[r[a].t for a in ("_point_attr", "_operator", "_rhs", "_test", "_path_resolver", "_hash")])


def _cmp_ctor(meth, sym):
    opn = OPNAMES[sym]

    @contract(_BQ + meth)
    class _c(Contract):
        """C09: true exactly when the addressed value exists (path resolves) and `value <op> rhs` is defined and true; C17: hash-faithful"""
        params = dict(self=BQ, rhs=UV)
        ret = SQ
        theories = QT2
        raises = dict(_gsq.raises)

        @staticmethod
        def ensures(c):
            r, s_ = c.result.t, c.self.t
            q = sq_value(r)
            p = z3.Const(fresh_name("p"), sort_of(Pt))
            path = s_["_path"].t
            v0 = uv_attr(p, o_val(s_["_point_attr"].t))
            x = pfold(path, l_len(path), v0)
            meaning = z3.And(z3.Not(pfold_raises(path, l_len(path), v0)), z3.Not(op_call2_raises(OPS[opn], x, c.rhs.t)), op_call2(OPS[opn], x, c.rhs.t))
            return [("operator", r["_operator"].t == OPS[opn]),
                    ("documented_meaning", forall([p], sem(q, p) == meaning, patterns=[sem(q, p)])),
                    ("hash", r["_hash"].t == z3.If(s_["_hash"].t != h_none, h_cmp(s_["_point_attr"].t, str_const(sym), path, c.rhs.t), h_none)),
                    ("hash_faithful", hash_faithful(q)),
                    ("evaluation_never_raises", forall([p], z3.Not(tf_raises(r["_test"].t, pf_apply(r["_path_resolver"].t, v0))), patterns=[pf_apply(r["_path_resolver"].t, v0)]))]
    return _c


for _m, _s in (("__eq__", "=="), ("__ne__", "!="), ("__lt__", "<"), ("__le__", "<="), ("__gt__", ">"), ("__ge__", ">=")):
    _cmp_ctor(_m, _s)


@contract(_BQ + "test")
class _bq_test(Contract):
    params = dict(self=BQ, func=Op, args=Args)
    ret = SQ
    theories = QT2
    raises = {"RuntimeError": staticmethod(lambda c: dict(when=_gsq._no_path(c)))}

    @staticmethod
    def ensures(c):
        r, s_ = c.result.t, c.self.t
        q = sq_value(r)
        p = z3.Const(fresh_name("p"), sort_of(Pt))
        path = s_["_path"].t
        v0 = uv_attr(p, o_val(s_["_point_attr"].t))
        x = pfold(path, l_len(path), v0)
        ok = z3.Not(pfold_raises(path, l_len(path), v0))
        noraise = z3.Not(z3.If(args_truthy(c.args.t), op_callv_raises(c.func.t, x, c.args.t), op_call1_raises(c.func.t, x)))
        return [("documented_meaning", forall([p], z3.Implies(z3.Implies(ok, noraise), sem(q, p) == z3.And(ok, z3.If(args_truthy(c.args.t), op_callv(c.func.t, x, c.args.t), op_call1(c.func.t, x)))),
                                              patterns=[sem(q, p)])),
                ("hash", r["_hash"].t == z3.If(s_["_hash"].t != h_none, h_test(s_["_point_attr"].t, path, c.func.t, c.args.t), h_none)),
                ("hash_faithful", hash_faithful(q))]


def _regex_ctor(meth, kind):
    def cl(ex, s, st):
        st.env["test"] = Val(Op, mk_regex_op(z3.IntVal(kind), st.env["regex"].t, st.env["flags"].t))

    @contract(_BQ + meth + ".<locals>.test")
    class _t(Contract):
        """the regex test: False on non-strings (never raises), else the documented match (whole value for matches, substring for search)"""
        params = dict(value=UV)
        free_vars = dict(regex=UV, flags=UV)
        ret = TBool
        theories = ("closures",)

        @staticmethod
        def ensures(c):
            return [("is_spec", c.result.t == op_call1(mk_regex_op(z3.IntVal(kind), c.regex.t, c.flags.t), c.value.t))]

    @contract(_BQ + meth)
    class _c(Contract):
        params = dict(self=BQ, regex=UV, flags=UV)
        defaults = dict(flags=lambda ex: Val(UV, z3.Const("uv_int_0", sort_of(UV))))
        ret = SQ
        theories = QT2
        closure_defs = {"test": cl}
        raises = {"RuntimeError": staticmethod(lambda c: dict(when=_gsq._no_path(c)))}

        @staticmethod
        def ensures(c):
            r, s_ = c.result.t, c.self.t
            q = sq_value(r)
            p = z3.Const(fresh_name("p"), sort_of(Pt))
            path = s_["_path"].t
            v0 = uv_attr(p, o_val(s_["_point_attr"].t))
            x = pfold(path, l_len(path), v0)
            ok = z3.Not(pfold_raises(path, l_len(path), v0))
            return [("documented_meaning", forall([p], sem(q, p) == z3.And(ok, uv_is_str(x), re_p(z3.IntVal(kind), c.regex.t, x, c.flags.t)), patterns=[sem(q, p)])),
                    ("hash", r["_hash"].t == z3.If(s_["_hash"].t != h_none, h_regex_f(s_["_point_attr"].t, str_const(meth), path, c.regex.t, c.flags.t), h_none)),
                    ("hash_faithful", hash_faithful(q)),
                    ("evaluation_never_raises", forall([p], z3.Not(tf_raises(r["_test"].t, pf_apply(r["_path_resolver"].t, v0))), patterns=[pf_apply(r["_path_resolver"].t, v0)]))]
    return _c


_regex_ctor("matches", 0)
_regex_ctor("search", 1)


@contract(_BQ + "noop")
class _bq_noop(Contract):
    """C09: noop is true on every point and never raises; its hash is the (falsy) empty tuple"""
    params = dict(self=BQ)
    ret = SQ
    theories = QT2

    @staticmethod
    def ensures(c):
        r = c.result.t
        q = sq_value(r)
        p = z3.Const(fresh_name("p"), sort_of(Pt))
        return [("always_true", forall([p], sem(q, p), patterns=[sem(q, p)])), ("hash_is_empty_tuple", r["_hash"].t == h_unit)]


def _exists(cls):
    @contract(_QM + cls + ".exists")
    class _c(Contract):
        """C09: exists() is true exactly when the key is present (the value itself is not inspected)"""
        params = dict(self=BQ)
        ret = SQ
        theories = QT2
        raises = {"RuntimeError": staticmethod(lambda c: dict(when=_gsq._no_path(c)))}

        @staticmethod
        def ensures(c):
            r, s_ = c.result.t, c.self.t
            q = sq_value(r)
            p = z3.Const(fresh_name("p"), sort_of(Pt))
            path = s_["_path"].t
            v0 = uv_attr(p, o_val(s_["_point_attr"].t))
            return [("documented_meaning", forall([p], sem(q, p) == z3.Not(pfold_raises(path, l_len(path), v0)), patterns=[sem(q, p)])),
                    ("hash", r["_hash"].t == z3.If(s_["_hash"].t != h_none, h_exists(s_["_point_attr"].t, path), h_none)),
                    ("hash_faithful", hash_faithful(q))]


_exists("TagQuery")
_exists("FieldQuery")


def _always_raises(qual, params):
    @contract(qual)
    class _c(Contract):
        pass
    _c.params = params
    _c.raises = {"RuntimeError": staticmethod(lambda c: dict(when=z3.BoolVal(True)))}
    REG = S.REGISTRY[qual]
    REG.params = params
    REG.raises = _c.raises


for _cls in ("FieldQuery", "TimeQuery"):
    for _m in ("matches", "search"):
        _always_raises(_QM + _cls + "." + _m, dict(self=BQ, regex=UV, flags=UV))
for _m, _ps in (("__and__", dict(self=BQ, other=UV)), ("__or__", dict(self=BQ, other=UV)), ("__invert__", dict(self=BQ))):
    _always_raises(_BQ + _m, _ps)

# ---- path parts inside path_resolver
Exec.isinstance_handlers["Part"] = lambda ex, v, names, node, st: part_is_str(v.t) if names == ["str"] else z3.BoolVal(False)


def _uv_index(ex, base, idx, node, st):
    if idx.ty == Part:
        key = part_str(idx.t)
    else:
        key = ex.coerce(idx, TStr, node).t
    ex.hazard("UserError", z3.Not(uv_get_raises(base.t, key)), node, "subscript fails (missing key / not subscriptable)")
    return Val(UV, uv_get(base.t, key))


Exec.index_handlers["UV"] = _uv_index


def _call_part(ex, f, node, st):
    (a,) = [ex.eval(x, st) for x in node.args]
    v = ex.coerce(a, UV, node)
    ex.hazard("UserError", z3.Not(part_apply_raises(f.t, v.t)), node, "map function raises")
    return Val(UV, part_apply(f.t, v.t))


Exec.call_handlers["Part"] = _call_part
