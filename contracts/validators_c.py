"""Contracts for the validation functions of tinyflux/point.py over Any-typed inputs (C14)."""

import z3
from pyvc.core import *  # noqa
from pyvc import spec as S
from pyvc.spec import contract, Contract
from .model import *  # noqa
from .db_model import AnyV, AV_NONE, MP, ODt
from .any_model import *  # noqa

_P = "tinyflux.point."


@contract(_P + "validate_tags")
class _vt(Contract):
    """C14: returns normally exactly for valid tag sets, raises ValueError otherwise"""
    params = dict(tags=AnyV)
    theories = ("any",)
    raises = {"ValueError": staticmethod(lambda c: dict(when=z3.Not(valid_tags(c.tags.t))))}


@contract(_P + "validate_fields")
class _vf(Contract):
    """C14: returns normally exactly for valid field sets (numeric, not bool, or None values), raises ValueError otherwise"""
    params = dict(fields=AnyV)
    theories = ("any",)
    raises = {"ValueError": staticmethod(lambda c: dict(when=z3.Not(valid_fields(c.fields.t))))}

    @staticmethod
    def _inv(c):
        li = c.loop(0)
        v = c.fields.t
        k = z3.Const(fresh_name("k"), sort_of(AnyV))
        val = av_get(v, k)
        num = z3.And(z3.Not(isinst(val, "bool")), z3.Or(isinst(val, "int"), isinst(val, "float")))
        return [("values_so_far_valid", forall([k], z3.Implies(z3.And(z3.Select(av_keys(v), k), li.extra["idx"](k) < li.t), z3.Or(is_none(val), num)), patterns=[z3.Select(av_keys(v), k)]))]

    loops = {0: dict(inv=lambda c: _vf._inv(c))}


_PT = "tinyflux.point.Point."
KW = TDict(TStr, AnyV)
from pyvc.verify import Exec
Exec.coercions.setdefault("AnyV", {})["EmptyDict"] = lambda ex, v: Val(AnyV, AV_EMPTY_MAP)
AV_EMPTY_MAP = z3.Const("av_empty_mapping", sort_of(AnyV))
_k = z3.Const("ax_k_any", sort_of(AnyV))
S.THEORIES["any"] = S.THEORIES["any"] + [isinst(AV_EMPTY_MAP, "Mapping"), forall([_k], z3.Not(z3.Select(av_keys(AV_EMPTY_MAP), _k)), patterns=[z3.Select(av_keys(AV_EMPTY_MAP), _k)]),
                                       AV_EMPTY_MAP != AV_NONE]


def _setter(name, field, ok, conv):
    @contract(_PT + name + ".setter")
    class _c(Contract):
        """C14: attribute assignment rejects a value of the wrong type with ValueError and stores nothing"""
        params = dict(self=MP, value=AnyV)
        modifies = (field,)
        theories = ("any",)
        raises = {"ValueError": staticmethod(lambda c: dict(when=z3.Not(ok(c.value.t))))}

        @staticmethod
        def ensures(c):
            return [("assigned", c.self.t[field].t == conv(c.value.t))]
    return _c


_setter("time", "_time", lambda v: isinst(v, "datetime"), lambda v: o_some(ODt, av_as_dt(v)))
_setter("measurement", "_measurement", lambda v: isinst(v, "str"), lambda v: av_as_str(v))
_setter("tags", "_tags", valid_tags, lambda v: av_as_tags(v))
_setter("fields", "_fields", valid_fields, lambda v: av_as_fields(v))

VALID_KW = ("time", "measurement", "tags", "fields")
Exec.attr_handlers[("Obj_MPoint", "_valid_kwargs")] = lambda ex, v, node, st: _valid_kw_set(ex, st)
Exec.attr_handlers[("Obj_MPoint", "default_measurement_name")] = lambda ex, v, node, st: Val(TStr, str_const("_default"))


def _valid_kw_set(ex, st):
    s_ = z3.Const(fresh_name("valid_kwargs"), sort_of(TSet(TStr)))
    x = z3.Const(fresh_name("x"), sort_of(TStr))
    ex.fact(st, forall([x], z3.Select(s_, x) == z3.Or(*[x == str_const(n) for n in VALID_KW]), patterns=[z3.Select(s_, x)]))
    return Val(TSet(TStr), s_)


def _kw(c, name):
    d = c.kwargs.t
    return z3.Select(d_dom(d), str_const(name)), z3.Select(d_val(d), str_const(name))


def _unexpected(c):
    k = z3.Const(fresh_name("k"), sort_of(TStr))
    return z3.Exists([k], z3.And(z3.Select(d_dom(c.kwargs.t), k), z3.Not(z3.Or(*[k == str_const(n) for n in VALID_KW]))))


def _invalid_kw(c):
    (ht, vt), (hm, vm), (hg, vg), (hf, vf) = [_kw(c, n) for n in VALID_KW]
    return z3.Or(z3.And(ht, z3.Not(isinst(vt, "datetime"))), z3.And(hm, z3.Not(isinst(vm, "str"))), z3.And(hg, z3.Not(valid_tags(vg))), z3.And(hf, z3.Not(valid_fields(vf))))


@contract(_PT + "_validate_kwargs")
class _vk(Contract):
    """C14: unknown keywords -> TypeError; a wrongly-typed time / measurement / tags / fields -> ValueError"""
    params = dict(self=MP, kwargs=KW)
    theories = ("any",)
    raises = {"TypeError": staticmethod(lambda c: dict(when=_unexpected(c))),
              "ValueError": staticmethod(lambda c: dict(when=z3.And(z3.Not(_unexpected(c)), _invalid_kw(c))))}


@contract(_PT + "__init__")
class _pinit(Contract):
    """C14: a Point is only ever constructed from well-typed data; positional arguments are rejected"""
    params = dict(self=MP, args=TU("Args"), kwargs=KW)
    modifies = ("_time", "_measurement", "_tags", "_fields")
    theories = ("any", "time")
    raises = {"TypeError": staticmethod(lambda c: dict(when=z3.Or(z3.Function("args_truthy", sort_of(TU("Args")), z3.BoolSort())(c.args.t), _unexpected(c)))),
              "ValueError": staticmethod(lambda c: dict(when=z3.And(z3.Not(z3.Function("args_truthy", sort_of(TU("Args")), z3.BoolSort())(c.args.t)), z3.Not(_unexpected(c)), _invalid_kw(c))))}

    @staticmethod
    def ensures(c):
        f = c.self.t
        (ht, vt), (hm, vm), (hg, vg), (hf, vf) = [_kw(c, n) for n in VALID_KW]
        k = z3.Const(fresh_name("k"), sort_of(TStr))
        nokw = forall([k], z3.Not(z3.Select(d_dom(c.kwargs.t), k)))
        return [("time", z3.Implies(ht, f["_time"].t == o_some(ODt, av_as_dt(vt)))),
                ("no_keywords_means_no_time", z3.Implies(nokw, o_is_none(f["_time"].t))),
                ("measurement", z3.If(hm, f["_measurement"].t == av_as_str(vm), f["_measurement"].t == str_const("_default"))),
                ("tags", z3.Implies(hg, f["_tags"].t == av_as_tags(vg))), ("fields", z3.Implies(hf, f["_fields"].t == av_as_fields(vf)))]
