"""Contracts for TinyFlux._generate_updater and its closure perform_update (C03 merge semantics,
C14 validation of static and callable-produced values, C08 normalisation of updated times)."""

import ast as _ast
import z3
from pyvc.core import *  # noqa
from pyvc import spec as S
from pyvc.spec import contract, Contract
from pyvc.verify import Exec
from .model import *  # noqa
from .db_model import *  # noqa
from .any_model import *  # noqa
from . import db_c

_av = sort_of(AnyV)
_b = z3.BoolSort()
av_call = z3.Function("av_call", _av, _av, _av)  # result of calling a user callable (when it returns)
av_call_raises = z3.Function("av_call_raises", _av, _av, z3.IntSort())  # 0 returns, 1 raises ValueError, 2 raises something else
av_of_tags = z3.Function("av_of_tags", sort_of(TagsD), _av)
av_of_fields = z3.Function("av_of_fields", sort_of(FldsD), _av)


def updater_axioms():
    v = z3.Const("ax_v", _av)
    t = z3.Const("ax_tagsd", sort_of(TagsD))
    f = z3.Const("ax_fldsd", sort_of(FldsD))
    return [
        forall([v], z3.Implies(isinst(v, "str"), z3.And(z3.Not(av_callable(v)), z3.Not(isinst(v, "Mapping")))), patterns=[isinst(v, "str")]),
        forall([t], z3.And(av_as_tags(av_of_tags(t)) == t), patterns=[av_of_tags(t)]),
        forall([f], z3.And(av_as_fields(av_of_fields(f)) == f), patterns=[av_of_fields(f)]),
        forall([v], z3.Implies(isinst(v, "str"), av_of_str(av_as_str(v)) == v), patterns=[av_as_str(v)]),
        z3.Not(av_truthy(AV_NONE)), z3.Not(av_callable(AV_NONE)),
        z3.Distinct(*CLS.values()),
    ]


S.THEORIES["updater"] = updater_axioms()
Exec.truthy_handlers["AnyV"] = lambda ex, v: av_truthy(v.t)
Exec.b_callable = lambda self, node, st: Val(TBool, av_callable(self.coerce(self.eval(node.args[0], st), AnyV, node).t))
Exec.coercions.setdefault("AnyV", {})[TagsD.key] = lambda ex, v: Val(AnyV, av_of_tags(v.t))
Exec.coercions.setdefault("AnyV", {})[FldsD.key] = lambda ex, v: Val(AnyV, av_of_fields(v.t))
Exec.global_calls["copy.deepcopy"] = lambda ex, node, st: ex.eval(node.args[0], st)


def _call_any(ex, f, node, st):
    (a,) = [ex.eval(x, st) for x in node.args]
    av = ex.coerce(a, AnyV, node)
    ex.hazard("ValueError", av_call_raises(f.t, av.t) != 1, node, "user callable raises ValueError")
    ex.hazard("UserError", av_call_raises(f.t, av.t) == 0, node, "user callable raises")
    return Val(AnyV, av_call(f.t, av.t))


Exec.call_handlers["AnyV"] = _call_any


def _mp_eq(ex, a, b):
    return z3.And(*[ex.equal(a.t[k], b.t[k]) for k in ("_time", "_measurement", "_tags", "_fields")])


S.CLASSES["MPoint"]["eq"] = _mp_eq
S.CLASSES["MPoint"]["alias"] = {"time": "_time", "measurement": "_measurement", "tags": "_tags", "fields": "_fields"}


def S_dict_eq(a, b):
    k = z3.Const(fresh_name("k"), sort_of(a.ty.k))
    return z3.And(d_dom(a.t) == d_dom(b.t), forall([k], z3.Implies(z3.Select(d_dom(a.t), k), z3.Select(d_val(a.t), k) == z3.Select(d_val(b.t), k))))


def unset_pred(u):
    """keys removed by unset_*: the string itself, or every element of the iterable"""
    return lambda k: z3.And(av_truthy(u), z3.If(isinst(u, "str"), av_as_str(u) == k, z3.Select(av_keys(u), av_of_str(k))))


def merged(d1, d0, delta, has_delta, unset, kty=TStr):
    """d1 = (d0 (+) delta) minus the unset keys  (C03: merge key by key, never dropping keys; unset applied last)"""
    k = z3.Const(fresh_name("k"), sort_of(kty))
    dd = z3.And(has_delta, z3.Select(d_dom(delta), k))
    return forall([k], z3.And(
        z3.Select(d_dom(d1), k) == z3.And(z3.Or(z3.Select(d_dom(d0), k), dd), z3.Not(unset(k))),
        z3.Implies(z3.Select(d_dom(d1), k), z3.Select(d_val(d1), k) == z3.If(dd, z3.Select(d_val(delta), k), z3.Select(d_val(d0), k)))),
        patterns=[z3.Select(d_dom(d1), k), z3.Select(d_val(d1), k)])


@contract("tinyflux.database.TinyFlux._generate_updater.<locals>.perform_update")
class _perform_update(Contract):
    """C03: time and measurement are replaced, tags/fields merged key by key, unset_* applied last (also to keys set by the same call);
    static values and callables behave alike; returns whether the point changed.  C14: no ill-typed value is stored.  C08: the new time is normalised to UTC."""
    params = dict(point=MP)
    free_vars = {n: AnyV for n in ARGN}
    ret = TBool
    modifies = ("_time", "_measurement", "_tags", "_fields")
    theories = ("any", "updater", "time")
    raises = {"ValueError": staticmethod(lambda c: dict(when=z3.BoolVal(True), exact=False)), "UserError": staticmethod(lambda c: dict(when=z3.BoolVal(True), exact=False))}

    @staticmethod
    def requires(c):
        return [("static_arguments_validated", static_args_ok(c)), ("stored_point_has_a_time", o_is_some(c.point.t["_time"].t))]

    joins = [("if time:", "after_time"), ("if measurement:", "after_measurement"), ("if tags:", "after_tags"), ("if fields:", "after_fields"),
             ("if unset_tags:", "after_unset_tags"), ("if unset_fields:", "after_unset_fields")]

    @staticmethod
    def _stage(c, upto):
        """the point after the first `upto` blocks of perform_update (each block is a join point)"""
        e = dict(_perform_update._effects(c))
        p0, p1 = c.old.point.t, c.point.t
        no_unset = lambda k: z3.BoolVal(False)
        g = lambda n: getattr(c, n).t
        out = [("time", p1["_time"].t == (e["time"] if upto >= 1 else p0["_time"].t)),
               ("measurement", p1["_measurement"].t == (e["measurement"] if upto >= 2 else p0["_measurement"].t))]
        if upto >= 3:
            out.append(("tags", merged(p1["_tags"].t, p0["_tags"].t, e["dtags"], av_truthy(g("tags")), unset_pred(g("unset_tags")) if upto >= 5 else no_unset)))
        else:
            out.append(("tags", p1["_tags"].t == p0["_tags"].t))
        if upto >= 4:
            out.append(("fields", merged(p1["_fields"].t, p0["_fields"].t, e["dflds"], av_truthy(g("fields")), unset_pred(g("unset_fields")) if upto >= 6 else no_unset)))
        else:
            out.append(("fields", p1["_fields"].t == p0["_fields"].t))
        out.append(("is_point_flag", p1["_is_point"].t == p0["_is_point"].t))
        if c.has("g_tags"):
            out.append(("ghost_tags_snapshot", z3.BoolVal(True) if upto >= 5 else c.g_tags.t == p1["_tags"].t))
            out.append(("ghost_fields_snapshot", z3.BoolVal(True) if upto >= 6 else c.g_fields.t == p1["_fields"].t))
        if c.has("old_point"):
            out.append(("copy_of_old_point", z3.And(*[c.old_point.t[a].t == p0[a].t for a in ("_time", "_measurement", "_tags", "_fields")])))
        return out

    cuts = {name: (lambda n: (lambda c: _perform_update._stage(c, n)))(i + 1) for i, name in enumerate(
        ["after_time", "after_measurement", "after_tags", "after_fields", "after_unset_tags", "after_unset_fields"])}

    @staticmethod
    def _effects(c):
        p0 = c.old.point.t
        g = lambda n: getattr(c, n).t
        tr, ca = av_truthy, av_callable
        t0 = o_val(p0["_time"].t)
        newt = z3.If(ca(g("time")), av_as_dt(av_call(g("time"), av_of_dt(t0))), av_as_dt(g("time")))
        newm = z3.If(ca(g("measurement")), av_as_str(av_call(g("measurement"), av_of_str(p0["_measurement"].t))), av_as_str(g("measurement")))
        dtags = z3.If(ca(g("tags")), av_as_tags(av_call(g("tags"), av_of_tags(p0["_tags"].t))), av_as_tags(g("tags")))
        dflds = z3.If(ca(g("fields")), av_as_fields(av_call(g("fields"), av_of_fields(p0["_fields"].t))), av_as_fields(g("fields")))
        return [("time", z3.If(tr(g("time")), o_some(ODt, dt_utc(newt)), p0["_time"].t)), ("measurement", z3.If(tr(g("measurement")), newm, p0["_measurement"].t)),
                ("dtags", dtags), ("dflds", dflds)]

    @staticmethod
    def ensures(c):
        p0, p1 = c.old.point.t, c.point.t
        g = lambda n: getattr(c, n).t
        tr, ca = av_truthy, av_callable
        t0 = o_val(p0["_time"].t)
        newt = z3.If(ca(g("time")), av_as_dt(av_call(g("time"), av_of_dt(t0))), av_as_dt(g("time")))
        newm = z3.If(ca(g("measurement")), av_as_str(av_call(g("measurement"), av_of_str(p0["_measurement"].t))), av_as_str(g("measurement")))
        dtags = z3.If(ca(g("tags")), av_as_tags(av_call(g("tags"), av_of_tags(p0["_tags"].t))), av_as_tags(g("tags")))
        dflds = z3.If(ca(g("fields")), av_as_fields(av_call(g("fields"), av_of_fields(p0["_fields"].t))), av_as_fields(g("fields")))
        same_pt = z3.And(p1["_time"].t == p0["_time"].t, p1["_measurement"].t == p0["_measurement"].t)
        return [
            ("time_replaced_and_normalised", p1["_time"].t == z3.If(tr(g("time")), o_some(ODt, dt_utc(newt)), p0["_time"].t)),
            ("measurement_replaced", p1["_measurement"].t == z3.If(tr(g("measurement")), newm, p0["_measurement"].t)),
            ("tags_merged_then_unset", merged(p1["_tags"].t, p0["_tags"].t, dtags, tr(g("tags")), unset_pred(g("unset_tags")))),
            ("fields_merged_then_unset", merged(p1["_fields"].t, p0["_fields"].t, dflds, tr(g("fields")), unset_pred(g("unset_fields")))),
            ("returns_whether_changed", c.result.t == z3.Not(z3.And(p1["_time"].t == p0["_time"].t, p1["_measurement"].t == p0["_measurement"].t,
                                                                    S_dict_eq(p1["_tags"], p0["_tags"]), S_dict_eq(p1["_fields"], p0["_fields"])))),
        ]

    ghost_vars = ("g_tags", "g_fields")
    ghost_init = "g_tags = point.tags\ng_fields = point.fields"
    ghost_after = [("if tags:", "g_tags = point.tags"), ("if fields:", "g_fields = point.fields")]

    @staticmethod
    def _inv_unset(c, which, key, field, snap):
        li = c.loop(key)
        u = getattr(c, which).t
        d1, d0 = c.point.t[field].t, getattr(c, snap).t
        k = z3.Const(fresh_name("k"), sort_of(TStr))
        done = z3.And(z3.Select(av_keys(u), av_of_str(k)), li.extra["idx"](av_of_str(k)) < li.t)
        p0, p1 = c.old.point.t, c.point.t
        stage = [x for x in _perform_update._stage(c, 4 if field == "_tags" else 5) if x[0] not in ("tags" if field == "_tags" else "fields", "ghost_tags_snapshot" if field == "_tags" else "ghost_fields_snapshot")]
        snap_ok = [("snapshot_is_merge_result", [x for x in _perform_update._stage(S.Ctx(dict(c._env, point=Val(c.point.ty, dict(c.point.t, **{field: getattr(c, snap)}))), old=c.old, loops=c._loops), 4 if field == "_tags" else 5)
                                                  if x[0] == ("tags" if field == "_tags" else "fields")][0][1])]
        return stage + snap_ok + [("removed_so_far", forall([k], z3.And(z3.Select(d_dom(d1), k) == z3.And(z3.Select(d_dom(d0), k), z3.Not(done)),
                                                      z3.Implies(z3.Select(d_dom(d1), k), z3.Select(d_val(d1), k) == z3.Select(d_val(d0), k))),
                                           patterns=[z3.Select(d_dom(d1), k), z3.Select(d_val(d1), k)])),
                ("elements_are_strings", forall([k], z3.Implies(z3.BoolVal(True), z3.BoolVal(True))))]

    loops = {"for i in unset_tags": dict(inv=lambda c: _perform_update._inv_unset(c, "unset_tags", "for i in unset_tags", "_tags", "g_tags")),
             "for i in unset_fields": dict(inv=lambda c: _perform_update._inv_unset(c, "unset_fields", "for i in unset_fields", "_fields", "g_fields"))}


def _closure_perform_update(ex, s, st):
    st.env["perform_update"] = Val(Upd, db_c.updater_of(*[st.env[a].t for a in db_c.UPD_ARGS]))


@contract("tinyflux.database.TinyFlux._generate_updater")
class _generate_updater(Contract):
    """C14/C11: ill-typed static update arguments are rejected with ValueError before anything else happens;
    otherwise the returned closure is perform_update over exactly these arguments"""
    params = dict(self=DB, query=Q, time=AnyV, measurement=AnyV, tags=AnyV, fields=AnyV, unset_fields=AnyV, unset_tags=AnyV)
    ret = Upd
    theories = ("any", "updater", "queries")
    closure_defs = {"perform_update": _closure_perform_update}
    raises = {"ValueError": staticmethod(lambda c: dict(when=z3.Or(z3.Not(z3.Or(q_kind(c.query.t) == 0, q_kind(c.query.t) == 1)), z3.Not(static_args_ok(c)))))}

    @staticmethod
    def ensures(c):
        return [("closure_of_arguments", c.result.t == db_c.updater_of(*[getattr(c, a).t for a in db_c.UPD_ARGS])), ("arguments_validated", static_args_ok(c))]
