"""Contracts for tinyflux/database.py."""

import z3
from pyvc.core import *  # noqa
from pyvc import spec as S
from pyvc.spec import contract, Contract
from .model import *  # noqa
from .db_model import *  # noqa

_TF = "tinyflux.database.TinyFlux."
OStr = TOpt(TStr)
NONE_STR = lambda ex: Val(OStr, o_none(OStr))


def after_read(c):
    """C06: with automatic indexing on, every read operation leaves the index valid."""
    return [("auto_index_implies_valid", z3.Implies(c.self.t["_auto_index"].t, c.self.t["_index"].t["_valid"].t))] + dbinv(c.self)


def storage_unchanged(c):
    return [("storage_untouched", z3.And(c.self.t["_storage"].t["items"].t == c.old.self.t["_storage"].t["items"].t))]


@contract(_TF + "reindex")
class _reindex(Contract):
    params = dict(self=DB)
    modifies = ("_index",)
    theories = ()
    raises = {"AssertionError": staticmethod(lambda c: None), "OSError": staticmethod(lambda c: dict(when=z3.Not(c.self.t["_storage"].t["readable"].t)))}

    @staticmethod
    def requires(c):
        return dbinv(c.self)

    @staticmethod
    def ensures(c):
        return [("valid", c.self.t["_index"].t["_valid"].t)] + dbinv(c.self)


def _wfquery(c):
    return [("query_wellformed", wfq(c.query.t))]


READ_RAISES = {"OSError": staticmethod(lambda c: dict(when=z3.Not(c.self.t["_storage"].t["readable"].t)))}


@contract(_TF + "count")
class _count(Contract):
    """C01: count = number of stored points selected by the filter and the query, on both paths."""
    params = dict(self=DB, query=Q, measurement=OStr)
    defaults = dict(measurement=NONE_STR)
    ret = TInt
    modifies = ("_index",)
    theories = ("queries", "dbqueries", "count")
    raises = READ_RAISES

    @staticmethod
    def requires(c):
        return dbinv(c.self) + _wfquery(c)

    @staticmethod
    def ghost_defs(c):
        A, facts = selected_set(c.self, c.query, c.measurement)
        return {"Asel": (A, facts)}

    @staticmethod
    def lemmas(c):
        return [("card_is_cnt", card_is_cnt(c.Asel.t, l_len(c.old.self.t["_storage"].t["items"].t)))]

    @staticmethod
    def ensures(c):
        return [("count_is_number_selected", c.result.t == card(c.Asel.t))] + after_read(c) + storage_unchanged(c)

    loops = {0: dict(inv=lambda c: [("count_prefix", c.count.t == cnt(c.Asel.t, c.loop(0).t))] + after_read(c))}


@contract(_TF + "contains")
class _contains(Contract):
    params = dict(self=DB, query=Q, measurement=OStr)
    defaults = dict(measurement=NONE_STR)
    ret = TBool
    modifies = ("_index",)
    theories = ("queries", "dbqueries", "count")
    raises = READ_RAISES

    @staticmethod
    def requires(c):
        return dbinv(c.self) + _wfquery(c)

    @staticmethod
    def ghost_defs(c):
        A, facts = selected_set(c.self, c.query, c.measurement)
        return {"Asel": (A, facts)}

    @staticmethod
    def ensures(c):
        x = z3.Int(fresh_name("x"))
        return [("true_implies_some_selected", z3.Implies(c.result.t, z3.Exists([x], z3.Select(c.Asel.t, x)))),
                ("false_implies_none_selected", z3.Implies(z3.Not(c.result.t), forall([x], z3.Not(z3.Select(c.Asel.t, x)), patterns=[z3.Select(c.Asel.t, x)]))),
                ] + after_read(c) + storage_unchanged(c)

    @staticmethod
    def _inv(c):
        x = z3.Int(fresh_name("x"))
        t = c.loop(0).t
        return [("none_so_far", z3.And(z3.Not(c.contains.t), forall([x], z3.Implies(z3.And(0 <= x, x < t), z3.Not(z3.Select(c.Asel.t, x))), patterns=[z3.Select(c.Asel.t, x)])))] + after_read(c)

    loops = {0: dict(inv=lambda c: _contains._inv(c))}


@contract("tinyflux.database._index_is_exact_for")
class _exact_for(Contract):
    """mirrors the spec predicate exactq (contracts/model.py) on well-formed queries"""
    params = dict(query=Q)
    ret = TBool
    theories = ("queries",)

    @staticmethod
    def requires(c):
        return [("query_wellformed", wfq(c.query.t))]

    @staticmethod
    def ensures(c):
        return [("is_exactq", c.result.t == exactq(c.query.t))]
