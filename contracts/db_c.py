"""Contracts for tinyflux/database.py."""

import z3
from pyvc.core import *  # noqa
from pyvc import spec as S
from pyvc.spec import contract, Contract
from .model import *  # noqa
from .db_model import *  # noqa

_TF = "tinyflux.database.TinyFlux."
OStr = TOpt(TStr)
NONE_STR = lambda ex: Val(OStr, o_none(OStr))


def after_read(c):
    """C06: with automatic indexing on, every read operation leaves the index valid."""
    return [("auto_index_implies_valid", z3.Implies(c.self.t["_auto_index"].t, c.self.t["_index"].t["_valid"].t))] + dbinv(c.self)


def storage_unchanged(c):
    return [("storage_untouched", z3.And(c.self.t["_storage"].t["items"].t == c.old.self.t["_storage"].t["items"].t))]


@contract(_TF + "reindex")
class _reindex(Contract):
    params = dict(self=DB)
    modifies = ("_index",)
    theories = ()
    raises = {"AssertionError": staticmethod(lambda c: None), "OSError": staticmethod(lambda c: dict(when=z3.Not(c.self.t["_storage"].t["readable"].t)))}

    @staticmethod
    def requires(c):
        return dbinv(c.self)

    @staticmethod
    def ensures(c):
        return [("valid", c.self.t["_index"].t["_valid"].t)] + dbinv(c.self)


def _wfquery(c):
    return [("query_wellformed", wfq(c.query.t))]


READ_RAISES = {"OSError": staticmethod(lambda c: dict(when=z3.Not(c.self.t["_storage"].t["readable"].t)))}


@contract(_TF + "count")
class _count(Contract):
    """C01: count = number of stored points selected by the filter and the query, on both paths."""
    params = dict(self=DB, query=Q, measurement=OStr)
    defaults = dict(measurement=NONE_STR)
    ret = TInt
    modifies = ("_index",)
    theories = ("queries", "dbqueries", "count")
    raises = READ_RAISES

    @staticmethod
    def requires(c):
        return dbinv(c.self) + _wfquery(c)

    @staticmethod
    def ghost_defs(c):
        A, facts = selected_set(c.self, c.query, c.measurement)
        return {"Asel": (A, facts)}

    @staticmethod
    def lemmas(c):
        return [("card_is_cnt", card_is_cnt(c.Asel.t, l_len(c.old.self.t["_storage"].t["items"].t)))]

    @staticmethod
    def ensures(c):
        return [("count_is_number_selected", c.result.t == card(c.Asel.t))] + after_read(c) + storage_unchanged(c)

    loops = {0: dict(inv=lambda c: [("count_prefix", c.count.t == cnt(c.Asel.t, c.loop(0).t))] + after_read(c))}


@contract(_TF + "contains")
class _contains(Contract):
    params = dict(self=DB, query=Q, measurement=OStr)
    defaults = dict(measurement=NONE_STR)
    ret = TBool
    modifies = ("_index",)
    theories = ("queries", "dbqueries", "count")
    raises = READ_RAISES

    @staticmethod
    def requires(c):
        return dbinv(c.self) + _wfquery(c)

    @staticmethod
    def ghost_defs(c):
        A, facts = selected_set(c.self, c.query, c.measurement)
        return {"Asel": (A, facts)}

    @staticmethod
    def ensures(c):
        x = z3.Int(fresh_name("x"))
        return [("true_implies_some_selected", z3.Implies(c.result.t, z3.Exists([x], z3.Select(c.Asel.t, x)))),
                ("false_implies_none_selected", z3.Implies(z3.Not(c.result.t), forall([x], z3.Not(z3.Select(c.Asel.t, x)), patterns=[z3.Select(c.Asel.t, x)]))),
                ] + after_read(c) + storage_unchanged(c)

    @staticmethod
    def _inv(c):
        x = z3.Int(fresh_name("x"))
        t = c.loop(0).t
        return [("none_so_far", z3.And(z3.Not(c.contains.t), forall([x], z3.Implies(z3.And(0 <= x, x < t), z3.Not(z3.Select(c.Asel.t, x))), patterns=[z3.Select(c.Asel.t, x)])))] + after_read(c)

    loops = {0: dict(inv=lambda c: _contains._inv(c))}


@contract("tinyflux.database._index_is_exact_for")
class _exact_for(Contract):
    """mirrors the spec predicate exactq (contracts/model.py) on well-formed queries"""
    params = dict(query=Q)
    ret = TBool
    theories = ("queries",)

    @staticmethod
    def requires(c):
        return [("query_wellformed", wfq(c.query.t))]

    @staticmethod
    def ensures(c):
        return [("is_exactq", c.result.t == exactq(c.query.t))]


def _gsrc_inv(found, gsrc, A, items, t):
    """found/gsrc built so far enumerate A ∩ [0,t) in storage order: position i sits at place cnt(A, i)"""
    a, i = z3.Int(fresh_name("a")), z3.Int(fresh_name("i"))
    n = l_len(gsrc)
    return [
        ("ghost_len", z3.And(l_len(found) == n, n == cnt(A, t))),
        ("ghost_sound", forall([a], z3.Implies(z3.And(0 <= a, a < n), z3.And(0 <= l_at(gsrc, a), l_at(gsrc, a) < t, z3.Select(A, l_at(gsrc, a)), cnt(A, l_at(gsrc, a)) == a,
                                                                        l_at(found, a) == dec(l_at(items, l_at(gsrc, a))))),
                               patterns=[l_at(gsrc, a), l_at(found, a)])),
        ("ghost_complete", forall([i], z3.Implies(z3.And(0 <= i, i < t, z3.Select(A, i)), l_at(gsrc, cnt(A, i)) == i), patterns=[z3.Select(A, i)])),
    ]


@contract(_TF + "search")
class _search(Contract):
    """C01: search returns exactly the selected points, once each, in insertion order or stably time-sorted."""
    params = dict(self=DB, query=Q, measurement=OStr, sorted=TBool)
    defaults = dict(measurement=NONE_STR, sorted=lambda ex: mk_bool(True))
    ret = LPt
    modifies = ("_index",)
    theories = ("queries", "dbqueries", "count", "count_lemmas")
    raises = dict(READ_RAISES, ValueError=staticmethod(lambda c: dict(when=z3.Not(z3.Or(q_kind(c.query.t) == 0, q_kind(c.query.t) == 1)), exact=False)))
    locals = dict(found_points=LPt, gsrc=LInt)
    ghost_vars = ("gsrc",)
    ghost_init = "gsrc = []"
    ghost_after = [("found_points.append(self._storage", "gsrc.append(i)"), ("found_points.append(_point)", "gsrc.append(_t)")]
    witness_sig = {"src": ([TInt], TInt), "rank": ([TInt], TInt)}

    @staticmethod
    def requires(c):
        return dbinv(c.self) + _wfquery(c)

    @staticmethod
    def ghost_defs(c):
        A, facts = selected_set(c.self, c.query, c.measurement)
        return {"Asel": (A, facts)}

    @staticmethod
    def witness(c):
        g = c.gsrc.t
        A = c.Asel.t
        ls = c.ghost.get("last_sort")
        if ls is not None:
            return {"src": lambda a: l_at(g, ls["pi"](a)), "rank": lambda i: ls["pinv"](cnt(A, i))}
        return {"src": lambda a: l_at(g, a), "rank": lambda i: cnt(A, i)}

    @staticmethod
    def lemmas(c):
        return [("card_is_cnt", card_is_cnt(c.Asel.t, l_len(c.old.self.t["_storage"].t["items"].t)))]

    @staticmethod
    def ensures(c):
        R = c.result.t
        src = c.wit["src"]
        items = c.old.self.t["_storage"].t["items"].t
        order = z3.If(c.sorted.t, in_stable_time_order(R, src, l_len(R)), in_storage_order(src, l_len(R)))
        return enumerates(R, src, c.wit["rank"], c.Asel.t, items) + [("order", order)] + after_read(c) + storage_unchanged(c)

    @staticmethod
    def _inv_index(c):
        I = c.index_rst.t["_items"].t
        items = c.self.t["_storage"].t["items"].t
        t = c.loop("for i, item in enumerate(self._storage)").t
        x = z3.Int(fresh_name("x"))
        return [("j_counts", c.j.t == l_len(c.gsrc.t)),
                ("index_answer_is_selection", I == c.Asel.t),
                ] + _gsrc_inv(c.found_points.t, c.gsrc.t, c.Asel.t, items, t) + after_read(c)

    @staticmethod
    def _inv_scan(c):
        items = c.self.t["_storage"].t["items"].t
        t = c.loop("for item in self._storage").t
        return _gsrc_inv(c.found_points.t, c.gsrc.t, c.Asel.t, items, t) + after_read(c)

    loops = {
        "for i, item in enumerate(self._storage)": dict(inv=lambda c: _search._inv_index(c)),
        "for item in self._storage": dict(inv=lambda c: _search._inv_scan(c)),
        "for fp in found_points": dict(inv=lambda c: []),
    }


OPt = TOpt(Pt)


@contract(_TF + "get")
class _get(Contract):
    """C01: get returns the first selected point in insertion order, or None when nothing is selected."""
    params = dict(self=DB, query=Q, measurement=OStr)
    defaults = dict(measurement=NONE_STR)
    ret = OPt
    modifies = ("_index",)
    theories = ("queries", "dbqueries", "count", "count_lemmas")
    raises = READ_RAISES
    locals = dict(got_point=OPt, gpos=TInt)
    ghost_vars = ("gpos",)
    ghost_init = "gpos = -1"
    ghost_after = [("got_point = self._storage", "gpos = i"), ("got_point = _point", "gpos = _t")]
    witness_sig = {"pos": ([], TInt)}

    @staticmethod
    def requires(c):
        return dbinv(c.self) + _wfquery(c)

    @staticmethod
    def ghost_defs(c):
        A, facts = selected_set(c.self, c.query, c.measurement)
        return {"Asel": (A, facts)}

    @staticmethod
    def witness(c):
        return {"pos": lambda: c.gpos.t}

    @staticmethod
    def ensures(c):
        x = z3.Int(fresh_name("x"))
        A = c.Asel.t
        pos = c.wit["pos"]()
        items = c.old.self.t["_storage"].t["items"].t
        r = c.result.t
        return [
            ("none_iff_nothing_selected", o_is_none(r) == forall([x], z3.Not(z3.Select(A, x)), patterns=[z3.Select(A, x)])),
            ("first_selected", z3.Implies(o_is_some(r), z3.And(z3.Select(A, pos), o_val(r) == dec(l_at(items, pos)),
                                                              forall([x], z3.Implies(z3.And(0 <= x, x < pos), z3.Not(z3.Select(A, x))), patterns=[z3.Select(A, x)])))),
        ] + after_read(c) + storage_unchanged(c)

    @staticmethod
    def _none_before(c, t):
        x = z3.Int(fresh_name("x"))
        got = c.got_point
        isnone = o_is_none(got.t)
        return [("nothing_found_yet", z3.And(isnone, forall([x], z3.Implies(z3.And(0 <= x, x < t), z3.Not(z3.Select(c.Asel.t, x))), patterns=[z3.Select(c.Asel.t, x)])))]

    loops = {
        "for i, item in enumerate(self._storage)": dict(inv=lambda c: _get._none_before(c, c.loop("for i, item in enumerate(self._storage)").t)
                                                        + [("index_answer_is_selection", c.index_rst.t["_items"].t == c.Asel.t)] + after_read(c)),
        "for item in self._storage": dict(inv=lambda c: _get._none_before(c, c.loop("for item in self._storage").t) + after_read(c)),
    }


@contract(_TF + "__len__")
class _dblen(Contract):
    """C07: len(db) is the number of stored points, from the index or from storage."""
    params = dict(self=DB)
    ret = TInt

    @staticmethod
    def requires(c):
        return dbinv(c.self)

    @staticmethod
    def ensures(c):
        return [("len_is_number_stored", c.result.t == l_len(c.self.t["_storage"].t["items"].t))]


@contract(_TF + "all")
class _all(Contract):
    """C07/C01: all() returns every stored point, in insertion order or stably time-sorted."""
    params = dict(self=DB, sorted=TBool)
    defaults = dict(sorted=lambda ex: mk_bool(True))
    ret = LPt
    modifies = ("_index",)
    raises = READ_RAISES
    witness_sig = {"src": ([TInt], TInt)}

    @staticmethod
    def requires(c):
        return dbinv(c.self)

    @staticmethod
    def witness(c):
        ls = c.ghost.get("last_sort")
        if ls is not None:
            return {"src": lambda a: ls["pi"](a)}
        return {"src": lambda a: a}

    @staticmethod
    def ensures(c):
        R, src = c.result.t, c.wit["src"]
        items = c.old.self.t["_storage"].t["items"].t
        n = l_len(items)
        a, b, i = z3.Int(fresh_name("a")), z3.Int(fresh_name("b")), z3.Int(fresh_name("i"))
        order = z3.If(c.sorted.t, in_stable_time_order(R, src, n), in_storage_order(src, n))
        return [
            ("length", l_len(R) == n),
            ("elements", forall([a], z3.Implies(z3.And(0 <= a, a < n), z3.And(0 <= src(a), src(a) < n, l_at(R, a) == dec(l_at(items, src(a))))), patterns=[l_at(R, a)])),
            ("no_duplicates", forall([a, b], z3.Implies(z3.And(0 <= a, a < b, b < n), src(a) != src(b)), patterns=[z3.MultiPattern(src(a), src(b))])),
            ("order", order),
        ] + after_read(c) + storage_unchanged(c)


def dbinv_no_temp(db):
    return [x for x in dbinv(db) if x[0] != "temp_empty"]


@contract(_TF + "_reset_database")
class _reset_database(Contract):
    """C02: remove_all leaves an empty storage and an index that is empty-and-valid (auto_index) or invalid."""
    params = dict(self=DB)
    modifies = ("_storage", "_index", "_measurements")

    @staticmethod
    def ensures(c):
        return [("storage_empty", l_len(c.self.t["_storage"].t["items"].t) == 0),
                ("temp_untouched", c.self.t["_storage"].t["temp"].t == c.old.self.t["_storage"].t["temp"].t),
                ("index_valid_iff_auto", c.self.t["_index"].t["_valid"].t == c.self.t["_auto_index"].t)] + dbinv_no_temp(c.self)


def removed_view(items1, items0, A):
    """items1 is items0 without the positions in A, order preserved (C02 whole-view postcondition)."""
    i = z3.Int(fresh_name("i"))
    n = l_len(items0)
    return [
        ("length", l_len(items1) == n - cnt(A, n)),
        ("survivors_unmodified_in_order", forall([i], z3.Implies(z3.And(0 <= i, i < n, z3.Not(z3.Select(A, i))), l_at(items1, i - cnt(A, i)) == l_at(items0, i)),
                                                 patterns=[l_at(items0, i), z3.Select(A, i)])),
    ]


@contract(_TF + "_remove_helper")
class _remove_helper(Contract):
    """C02: exactly the selected points are deleted; every other point is kept, unmodified, in order."""
    params = dict(self=DB, query=Q, measurement=OStr)
    defaults = dict(measurement=NONE_STR)
    ret = TInt
    modifies = ("_storage", "_index", "_measurements")
    theories = ("queries", "dbqueries", "count", "count_lemmas", "count_lemmas2")
    locals = dict(removed_items=SInt)
    ghost_after = [("index_rst = self._index.search", "__cut__('index_is_selection')"),
                   ("for i, item in enumerate(self._storage)", "__cut__('removed_is_selection')")]
    cuts = {"index_is_selection": lambda c: [("sets_equal", c.index_rst.t["_items"].t == c.Asel.t)],
            "removed_is_selection": lambda c: [("sets_equal", c.removed_items.t == c.Asel.t)]}

    @staticmethod
    def requires(c):
        return dbinv(c.self) + _wfquery(c) + [("index_valid_when_auto", z3.Implies(c.self.t["_auto_index"].t, c.self.t["_index"].t["_valid"].t))]

    @staticmethod
    def ghost_defs(c):
        A, facts = selected_set(c.self, c.query, c.measurement)
        return {"Asel": (A, facts)}

    @staticmethod
    def lemmas(c):
        return [("card_is_cnt", card_is_cnt(c.Asel.t, l_len(c.old.self.t["_storage"].t["items"].t)))]

    @staticmethod
    def ensures(c):
        items0 = c.old.self.t["_storage"].t["items"].t
        items1 = c.self.t["_storage"].t["items"].t
        A = c.Asel.t
        return [("returns_number_selected", c.result.t == card(A)),
                ("nothing_selected_changes_nothing", z3.Implies(card(A) == 0, items1 == items0))] + removed_view(items1, items0, A) + dbinv_no_temp(c.self)

    @staticmethod
    def _common(c, t):
        A = c.Asel.t
        items = c.old.self.t["_storage"].t["items"].t
        stg = c.self.t["_storage"].t
        temp = stg["temp"].t
        i, x = z3.Int(fresh_name("i")), z3.Int(fresh_name("x"))
        return [
            ("primary_untouched", z3.And(stg["items"].t == items, c.self.t["_index"].t["_valid"].t == c.old.self.t["_index"].t["_valid"].t)),
            ("keep_count", z3.And(c.keep_count.t == t - cnt(A, t), l_len(temp) == c.keep_count.t)),
            ("removed_so_far", forall([x], z3.Select(c.removed_items.t, x) == z3.And(0 <= x, x < t, z3.Select(A, x)), patterns=[z3.Select(c.removed_items.t, x)])),
            ("kept_rows", forall([i], z3.Implies(z3.And(0 <= i, i < t, z3.Not(z3.Select(A, i))), l_at(temp, i - cnt(A, i)) == l_at(items, i)),
                                 patterns=[l_at(items, i), z3.Select(A, i)])),
        ] + dbinv_no_temp(c.self)

    @staticmethod
    def _inv_index(c):
        t = c.loop(0).t
        A = c.Asel.t
        U = c.updated_items.t
        i = z3.Int(fresh_name("i"))
        return [("index_answer_is_selection", c.index_rst.t["_items"].t == A),
                ("index_unchanged", c.self.t["_index"].t["_S"].t == c.old.self.t["_index"].t["_S"].t),
                ("j_counts", c.j.t == cnt(A, t)),
                ("new_position", c.new_position.t == t - cnt(A, t)),
                ("position_map", forall([i], z3.And(z3.Select(d_dom(U), i) == z3.And(0 <= i, i < t, z3.Not(z3.Select(A, i)), cnt(A, i) != 0),
                                                    z3.Implies(z3.Select(d_dom(U), i), z3.Select(d_val(U), i) == i - cnt(A, i))),
                                        patterns=[z3.Select(d_dom(U), i), z3.Select(d_val(U), i)])),
                ] + _remove_helper._common(c, t)

    @staticmethod
    def _inv_scan(c):
        return _remove_helper._common(c, c.loop(1).t)

    loops = {0: dict(inv=lambda c: _remove_helper._inv_index(c)), 1: dict(inv=lambda c: _remove_helper._inv_scan(c))}


WRITE_RAISES = {"OSError": staticmethod(lambda c: dict(when=z3.Not(z3.And(c.self.t["_storage"].t["readable"].t, c.self.t["_storage"].t["writable"].t))))}


@contract(_TF + "remove")
class _remove(Contract):
    """C02 (public entry): as _remove_helper, with the full database invariant re-established."""
    params = dict(self=DB, query=Q, measurement=OStr)
    defaults = dict(measurement=NONE_STR)
    ret = TInt
    modifies = ("_storage", "_index", "_measurements")
    theories = ("queries", "dbqueries", "count")
    raises = WRITE_RAISES

    @staticmethod
    def requires(c):
        return dbinv(c.self) + _wfquery(c)

    @staticmethod
    def ghost_defs(c):
        A, facts = selected_set(c.self, c.query, c.measurement)
        return {"Asel": (A, facts)}

    @staticmethod
    def ensures(c):
        items0 = c.old.self.t["_storage"].t["items"].t
        items1 = c.self.t["_storage"].t["items"].t
        A = c.Asel.t
        return [("returns_number_selected", c.result.t == card(A)),
                ("nothing_selected_changes_nothing", z3.Implies(card(A) == 0, items1 == items0))] + removed_view(items1, items0, A) + dbinv(c.self)


@contract(_TF + "remove_all")
class _remove_all(Contract):
    params = dict(self=DB)
    modifies = ("_storage", "_index", "_measurements")
    raises = {"OSError": staticmethod(lambda c: dict(when=z3.Not(c.self.t["_storage"].t["writable"].t)))}

    @staticmethod
    def requires(c):
        return dbinv(c.self)

    @staticmethod
    def ensures(c):
        return [("storage_empty", l_len(c.self.t["_storage"].t["items"].t) == 0)] + dbinv(c.self)


@contract(_TF + "drop_measurement")
class _drop_measurement(Contract):
    """C02: drop_measurement(name) removes exactly the points whose measurement is name."""
    params = dict(self=DB, name=TStr)
    ret = TInt
    modifies = ("_storage", "_index", "_measurements")
    theories = ("queries", "dbqueries", "count")
    raises = WRITE_RAISES

    @staticmethod
    def requires(c):
        return dbinv(c.self)

    @staticmethod
    def ghost_defs(c):
        OS = TOpt(TStr)
        A, facts = selected_set(c.self, Val(Q, q_meas_eq(c.name.t)), Val(OS, o_some(OS, c.name.t)))
        return {"Asel": (A, facts)}

    @staticmethod
    def ensures(c):
        items0 = c.old.self.t["_storage"].t["items"].t
        items1 = c.self.t["_storage"].t["items"].t
        A = c.Asel.t
        i = z3.Int(fresh_name("i"))
        named = forall([i], z3.Select(A, i) == z3.And(0 <= i, i < l_len(items0), meas(dec(l_at(items0, i))) == c.name.t), patterns=[z3.Select(A, i)])
        return [("dropped_are_exactly_the_named", named), ("returns_number_dropped", c.result.t == card(A))] + removed_view(items1, items0, A) + dbinv(c.self)
