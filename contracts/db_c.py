"""Contracts for tinyflux/database.py."""

import z3
from pyvc.core import *  # noqa
from pyvc import spec as S
from pyvc.spec import contract, Contract
from .model import *  # noqa
from .db_model import *  # noqa

_TF = "tinyflux.database.TinyFlux."
OStr = TOpt(TStr)
NONE_STR = lambda ex: Val(OStr, o_none(OStr))


def after_read(c):
    """C06: with automatic indexing on, every read operation leaves the index valid."""
    return [("auto_index_implies_valid", z3.Implies(c.self.t["_auto_index"].t, c.self.t["_index"].t["_valid"].t))] + dbinv(c.self)


def storage_unchanged(c):
    return [("storage_untouched", z3.And(c.self.t["_storage"].t["items"].t == c.old.self.t["_storage"].t["items"].t))]


@contract(_TF + "reindex")
class _reindex(Contract):
    params = dict(self=DB)
    modifies = ("_index",)
    theories = ()
    raises = {"AssertionError": staticmethod(lambda c: None), "OSError": staticmethod(lambda c: dict(when=z3.Not(c.self.t["_storage"].t["readable"].t))),
              "ReadFault": staticmethod(lambda c: read_fault(c))}

    @staticmethod
    def requires(c):
        return dbinv(c.self)

    @staticmethod
    def ensures(c):
        return [("valid", c.self.t["_index"].t["_valid"].t)] + dbinv(c.self)


def read_fault(c):
    """C13: reading storage may fail at any row (an I/O error, an undecodable row); the error reaches the caller, storage is as it was and the
    database invariant still holds - in particular a half-built index is not left flagged valid"""
    return dict(when=z3.BoolVal(True), exact=False, ensures=lambda c2: dbinv(c2.self) + storage_unchanged(c2))


def untouched_or_invalidated(cc):
    return [("storage_untouched_unless_index_invalidated", z3.Or(cc.self.t["_storage"].t["items"].t == cc.old.self.t["_storage"].t["items"].t, z3.Not(cc.self.t["_index"].t["_valid"].t)))]


def read_fault_rewrite(c, inv=None):
    """C13 for the rewriting operations: a read failure while scanning leaves primary storage and the index as they were; a read failure while
    the index is rebuilt AFTER the rewrite was swapped in leaves the new contents with the index not valid - never a valid index over other contents"""
    return dict(when=z3.BoolVal(True), exact=False, ensures=lambda c2: (inv or dbinv)(c2.self) + untouched_or_invalidated(c2))


def write_fault(c, inv=None):
    """C13 at database level: a storage write that fails raises to the caller and leaves the database invariant intact - in particular the index
    is never left valid over contents it does not describe (storage may hold the old contents, the new ones, or old + a prefix of appended rows)"""
    return dict(when=z3.BoolVal(True), exact=False, ensures=lambda c2: (inv or dbinv)(c2.self))


def _wfquery(c):
    return [("query_wellformed", wfq(c.query.t))]


READ_RAISES = {"OSError": staticmethod(lambda c: dict(when=z3.Not(c.self.t["_storage"].t["readable"].t))), "ReadFault": staticmethod(lambda c: read_fault(c))}


@contract(_TF + "count")
class _count(Contract):
    """C01: count = number of stored points selected by the filter and the query, on both paths."""
    params = dict(self=DB, query=Q, measurement=OStr)
    defaults = dict(measurement=NONE_STR)
    ret = TInt
    modifies = ("_index",)
    theories = ("queries", "dbqueries", "count")
    raises = READ_RAISES

    @staticmethod
    def requires(c):
        return dbinv(c.self) + _wfquery(c)

    @staticmethod
    def ghost_defs(c):
        A, facts = selected_set(c.self, c.query, c.measurement)
        return {"Asel": (A, facts)}

    @staticmethod
    def lemmas(c):
        return [("card_is_cnt", card_is_cnt(c.Asel.t, l_len(c.old.self.t["_storage"].t["items"].t)))]

    @staticmethod
    def ensures(c):
        return [("count_is_number_selected", c.result.t == card(c.Asel.t))] + after_read(c) + storage_unchanged(c)

    loops = {0: dict(inv=lambda c: [("count_prefix", c.count.t == cnt(c.Asel.t, c.loop(0).t))] + after_read(c))}


@contract(_TF + "contains")
class _contains(Contract):
    params = dict(self=DB, query=Q, measurement=OStr)
    defaults = dict(measurement=NONE_STR)
    ret = TBool
    modifies = ("_index",)
    theories = ("queries", "dbqueries", "count")
    raises = READ_RAISES

    @staticmethod
    def requires(c):
        return dbinv(c.self) + _wfquery(c)

    @staticmethod
    def ghost_defs(c):
        A, facts = selected_set(c.self, c.query, c.measurement)
        return {"Asel": (A, facts)}

    @staticmethod
    def ensures(c):
        x = z3.Int(fresh_name("x"))
        return [("true_implies_some_selected", z3.Implies(c.result.t, z3.Exists([x], z3.Select(c.Asel.t, x)))),
                ("false_implies_none_selected", z3.Implies(z3.Not(c.result.t), forall([x], z3.Not(z3.Select(c.Asel.t, x)), patterns=[z3.Select(c.Asel.t, x)]))),
                ] + after_read(c) + storage_unchanged(c)

    @staticmethod
    def _inv(c):
        x = z3.Int(fresh_name("x"))
        t = c.loop(0).t
        return [("none_so_far", z3.And(z3.Not(c.contains.t), forall([x], z3.Implies(z3.And(0 <= x, x < t), z3.Not(z3.Select(c.Asel.t, x))), patterns=[z3.Select(c.Asel.t, x)])))] + after_read(c)

    loops = {0: dict(inv=lambda c: _contains._inv(c))}


@contract("tinyflux.database._index_is_exact_for")
class _exact_for(Contract):
    """mirrors the spec predicate exactq (contracts/model.py) on well-formed queries"""
    params = dict(query=Q)
    ret = TBool
    theories = ("queries",)

    @staticmethod
    def requires(c):
        return [("query_wellformed", wfq(c.query.t))]

    @staticmethod
    def ensures(c):
        return [("is_exactq", c.result.t == exactq(c.query.t))]


def _gsrc_inv(found, gsrc, A, items, t):
    """found/gsrc built so far enumerate A ∩ [0,t) in storage order: position i sits at place cnt(A, i)"""
    a, i = z3.Int(fresh_name("a")), z3.Int(fresh_name("i"))
    n = l_len(gsrc)
    return [
        ("ghost_len", z3.And(l_len(found) == n, n == cnt(A, t))),
        ("ghost_sound", forall([a], z3.Implies(z3.And(0 <= a, a < n), z3.And(0 <= l_at(gsrc, a), l_at(gsrc, a) < t, z3.Select(A, l_at(gsrc, a)), cnt(A, l_at(gsrc, a)) == a,
                                                                        l_at(found, a) == dec(l_at(items, l_at(gsrc, a))))),
                               patterns=[l_at(gsrc, a), l_at(found, a)])),
        ("ghost_complete", forall([i], z3.Implies(z3.And(0 <= i, i < t, z3.Select(A, i)), l_at(gsrc, cnt(A, i)) == i), patterns=[z3.Select(A, i)])),
    ]


@contract(_TF + "search")
class _search(Contract):
    """C01: search returns exactly the selected points, once each, in insertion order or stably time-sorted."""
    params = dict(self=DB, query=Q, measurement=OStr, sorted=TBool)
    defaults = dict(measurement=NONE_STR, sorted=lambda ex: mk_bool(True))
    ret = LPt
    modifies = ("_index",)
    theories = ("queries", "dbqueries", "count", "count_lemmas")
    raises = dict(READ_RAISES, ValueError=staticmethod(lambda c: dict(when=z3.Not(z3.Or(q_kind(c.query.t) == 0, q_kind(c.query.t) == 1)), exact=False)))
    locals = dict(found_points=LPt, gsrc=LInt)
    ghost_vars = ("gsrc",)
    ghost_init = "gsrc = []"
    ghost_after = [("found_points.append(self._storage", "gsrc.append(i)"), ("found_points.append(_point)", "gsrc.append(_t)")]
    witness_sig = {"src": ([TInt], TInt), "rank": ([TInt], TInt)}

    @staticmethod
    def requires(c):
        return dbinv(c.self) + _wfquery(c)

    @staticmethod
    def ghost_defs(c):
        A, facts = selected_set(c.self, c.query, c.measurement)
        return {"Asel": (A, facts)}

    @staticmethod
    def witness(c):
        g = c.gsrc.t
        A = c.Asel.t
        ls = c.ghost.get("last_sort")
        if ls is not None:
            return {"src": lambda a: l_at(g, ls["pi"](a)), "rank": lambda i: ls["pinv"](cnt(A, i))}
        return {"src": lambda a: l_at(g, a), "rank": lambda i: cnt(A, i)}

    @staticmethod
    def lemmas(c):
        return [("card_is_cnt", card_is_cnt(c.Asel.t, l_len(c.old.self.t["_storage"].t["items"].t)))]

    @staticmethod
    def ensures(c):
        R = c.result.t
        src = c.wit["src"]
        items = c.old.self.t["_storage"].t["items"].t
        order = z3.If(c.sorted.t, in_stable_time_order(R, src, l_len(R)), in_storage_order(src, l_len(R)))
        return enumerates(R, src, c.wit["rank"], c.Asel.t, items) + [("order", order)] + after_read(c) + storage_unchanged(c)

    @staticmethod
    def _inv_index(c):
        I = c.index_rst.t["_items"].t
        items = c.self.t["_storage"].t["items"].t
        t = c.loop("for i, item in enumerate(self._storage)").t
        x = z3.Int(fresh_name("x"))
        return [("j_counts", c.j.t == l_len(c.gsrc.t)),
                ("index_answer_is_selection", I == c.Asel.t),
                ] + _gsrc_inv(c.found_points.t, c.gsrc.t, c.Asel.t, items, t) + after_read(c)

    @staticmethod
    def _inv_scan(c):
        items = c.self.t["_storage"].t["items"].t
        t = c.loop("for item in self._storage").t
        return _gsrc_inv(c.found_points.t, c.gsrc.t, c.Asel.t, items, t) + after_read(c)

    loops = {
        "for i, item in enumerate(self._storage)": dict(inv=lambda c: _search._inv_index(c)),
        "for item in self._storage": dict(inv=lambda c: _search._inv_scan(c)),
        "for fp in found_points": dict(inv=lambda c: []),
    }


OPt = TOpt(Pt)


@contract(_TF + "get")
class _get(Contract):
    """C01: get returns the first selected point in insertion order, or None when nothing is selected."""
    params = dict(self=DB, query=Q, measurement=OStr)
    defaults = dict(measurement=NONE_STR)
    ret = OPt
    modifies = ("_index",)
    theories = ("queries", "dbqueries", "count", "count_lemmas")
    raises = READ_RAISES
    locals = dict(got_point=OPt, gpos=TInt)
    ghost_vars = ("gpos",)
    ghost_init = "gpos = -1"
    ghost_after = [("got_point = self._storage", "gpos = i"), ("got_point = _point", "gpos = _t")]
    witness_sig = {"pos": ([], TInt)}

    @staticmethod
    def requires(c):
        return dbinv(c.self) + _wfquery(c)

    @staticmethod
    def ghost_defs(c):
        A, facts = selected_set(c.self, c.query, c.measurement)
        return {"Asel": (A, facts)}

    @staticmethod
    def witness(c):
        return {"pos": lambda: c.gpos.t}

    @staticmethod
    def ensures(c):
        x = z3.Int(fresh_name("x"))
        A = c.Asel.t
        pos = c.wit["pos"]()
        items = c.old.self.t["_storage"].t["items"].t
        r = c.result.t
        return [
            ("none_iff_nothing_selected", o_is_none(r) == forall([x], z3.Not(z3.Select(A, x)), patterns=[z3.Select(A, x)])),
            ("first_selected", z3.Implies(o_is_some(r), z3.And(z3.Select(A, pos), o_val(r) == dec(l_at(items, pos)),
                                                              forall([x], z3.Implies(z3.And(0 <= x, x < pos), z3.Not(z3.Select(A, x))), patterns=[z3.Select(A, x)])))),
        ] + after_read(c) + storage_unchanged(c)

    @staticmethod
    def _none_before(c, t):
        x = z3.Int(fresh_name("x"))
        got = c.got_point
        isnone = o_is_none(got.t)
        return [("nothing_found_yet", z3.And(isnone, forall([x], z3.Implies(z3.And(0 <= x, x < t), z3.Not(z3.Select(c.Asel.t, x))), patterns=[z3.Select(c.Asel.t, x)])))]

    loops = {
        "for i, item in enumerate(self._storage)": dict(inv=lambda c: _get._none_before(c, c.loop("for i, item in enumerate(self._storage)").t)
                                                        + [("index_answer_is_selection", c.index_rst.t["_items"].t == c.Asel.t)] + after_read(c)),
        "for item in self._storage": dict(inv=lambda c: _get._none_before(c, c.loop("for item in self._storage").t) + after_read(c)),
    }


@contract(_TF + "__len__")
class _dblen(Contract):
    """C07: len(db) is the number of stored points, from the index or from storage."""
    params = dict(self=DB)
    ret = TInt

    @staticmethod
    def requires(c):
        return dbinv(c.self)

    @staticmethod
    def ensures(c):
        return [("len_is_number_stored", c.result.t == l_len(c.self.t["_storage"].t["items"].t)),
                # C06 "with automatic indexing on, any read leaves the index valid": len() is a read (known finding KF-20: it is not wrapped by read_op)
                ("index_valid_after_read_when_auto", z3.Implies(c.self.t["_auto_index"].t, c.self.t["_index"].t["_valid"].t))]


@contract(_TF + "all")
class _all(Contract):
    """C07/C01: all() returns every stored point, in insertion order or stably time-sorted."""
    params = dict(self=DB, sorted=TBool)
    defaults = dict(sorted=lambda ex: mk_bool(True))
    ret = LPt
    modifies = ("_index",)
    raises = READ_RAISES
    witness_sig = {"src": ([TInt], TInt)}

    @staticmethod
    def requires(c):
        return dbinv(c.self)

    @staticmethod
    def witness(c):
        ls = c.ghost.get("last_sort")
        if ls is not None:
            return {"src": lambda a: ls["pi"](a)}
        return {"src": lambda a: a}

    @staticmethod
    def ensures(c):
        R, src = c.result.t, c.wit["src"]
        items = c.old.self.t["_storage"].t["items"].t
        n = l_len(items)
        a, b, i = z3.Int(fresh_name("a")), z3.Int(fresh_name("b")), z3.Int(fresh_name("i"))
        order = z3.If(c.sorted.t, in_stable_time_order(R, src, n), in_storage_order(src, n))
        return [
            ("length", l_len(R) == n),
            ("elements", forall([a], z3.Implies(z3.And(0 <= a, a < n), z3.And(0 <= src(a), src(a) < n, l_at(R, a) == dec(l_at(items, src(a))))), patterns=[l_at(R, a)])),
            ("no_duplicates", forall([a, b], z3.Implies(z3.And(0 <= a, a < b, b < n), src(a) != src(b)), patterns=[z3.MultiPattern(src(a), src(b))])),
            ("order", order),
        ] + after_read(c) + storage_unchanged(c)


def dbinv_no_temp(db):
    return [x for x in dbinv(db) if x[0] != "temp_empty"]


@contract(_TF + "_reset_database")
class _reset_database(Contract):
    """C02: remove_all leaves an empty storage and an index that is empty-and-valid (auto_index) or invalid."""
    params = dict(self=DB)
    modifies = ("_storage", "_index", "_measurements")
    raises = {"WriteFault": staticmethod(lambda c: dict(when=z3.BoolVal(True), exact=False, ensures=lambda c2: dbinv_no_temp(c2.self) + [
        ("temp_untouched", c2.self.t["_storage"].t["temp"].t == c2.old.self.t["_storage"].t["temp"].t)]))}

    @staticmethod
    def ensures(c):
        return [("storage_empty", l_len(c.self.t["_storage"].t["items"].t) == 0),
                ("temp_untouched", c.self.t["_storage"].t["temp"].t == c.old.self.t["_storage"].t["temp"].t),
                ("index_valid_iff_auto", c.self.t["_index"].t["_valid"].t == c.self.t["_auto_index"].t)] + dbinv_no_temp(c.self)


def removed_view(items1, items0, A):
    """items1 is items0 without the positions in A, order preserved (C02 whole-view postcondition)."""
    i = z3.Int(fresh_name("i"))
    n = l_len(items0)
    return [
        ("length", l_len(items1) == n - cnt(A, n)),
        ("survivors_unmodified_in_order", forall([i], z3.Implies(z3.And(0 <= i, i < n, z3.Not(z3.Select(A, i))), l_at(items1, i - cnt(A, i)) == l_at(items0, i)),
                                                 patterns=[l_at(items0, i), z3.Select(A, i)])),
    ]


@contract(_TF + "_remove_helper")
class _remove_helper(Contract):
    """C02: exactly the selected points are deleted; every other point is kept, unmodified, in order."""
    params = dict(self=DB, query=Q, measurement=OStr)
    defaults = dict(measurement=NONE_STR)
    ret = TInt
    modifies = ("_storage", "_index", "_measurements")
    theories = ("queries", "dbqueries", "count", "count_lemmas", "count_lemmas2")
    locals = dict(removed_items=SInt)
    raises = {"ReadFault": staticmethod(lambda c: read_fault_rewrite(c, dbinv_no_temp)), "WriteFault": staticmethod(lambda c: write_fault(c, dbinv_no_temp))}
    ghost_after = [("index_rst = self._index.search", "__cut__('index_is_selection')"),
                   ("for i, item in enumerate(self._storage)", "__cut__('removed_is_selection')")]
    cuts = {"index_is_selection": lambda c: [("sets_equal", c.index_rst.t["_items"].t == c.Asel.t)],
            "removed_is_selection": lambda c: [("sets_equal", c.removed_items.t == c.Asel.t)]}

    @staticmethod
    def requires(c):
        return dbinv(c.self) + _wfquery(c) + [("index_valid_when_auto", z3.Implies(c.self.t["_auto_index"].t, c.self.t["_index"].t["_valid"].t))]

    @staticmethod
    def ghost_defs(c):
        A, facts = selected_set(c.self, c.query, c.measurement)
        return {"Asel": (A, facts)}

    @staticmethod
    def lemmas(c):
        return [("card_is_cnt", card_is_cnt(c.Asel.t, l_len(c.old.self.t["_storage"].t["items"].t)))]

    @staticmethod
    def ensures(c):
        items0 = c.old.self.t["_storage"].t["items"].t
        items1 = c.self.t["_storage"].t["items"].t
        A = c.Asel.t
        return [("returns_number_selected", c.result.t == card(A)),
                ("nothing_selected_changes_nothing", z3.Implies(card(A) == 0, items1 == items0))] + removed_view(items1, items0, A) + dbinv_no_temp(c.self)

    @staticmethod
    def _common(c, t):
        A = c.Asel.t
        items = c.old.self.t["_storage"].t["items"].t
        stg = c.self.t["_storage"].t
        temp = stg["temp"].t
        i, x = z3.Int(fresh_name("i")), z3.Int(fresh_name("x"))
        return [
            ("primary_untouched", z3.And(stg["items"].t == items, c.self.t["_index"].t["_valid"].t == c.old.self.t["_index"].t["_valid"].t)),
            ("keep_count", z3.And(c.keep_count.t == t - cnt(A, t), l_len(temp) == c.keep_count.t)),
            ("removed_so_far", forall([x], z3.Select(c.removed_items.t, x) == z3.And(0 <= x, x < t, z3.Select(A, x)), patterns=[z3.Select(c.removed_items.t, x)])),
            ("kept_rows", forall([i], z3.Implies(z3.And(0 <= i, i < t, z3.Not(z3.Select(A, i))), l_at(temp, i - cnt(A, i)) == l_at(items, i)),
                                 patterns=[l_at(items, i), z3.Select(A, i)])),
        ] + dbinv_no_temp(c.self)

    @staticmethod
    def _inv_index(c):
        t = c.loop(0).t
        A = c.Asel.t
        U = c.updated_items.t
        i = z3.Int(fresh_name("i"))
        return [("index_answer_is_selection", c.index_rst.t["_items"].t == A),
                ("index_unchanged", c.self.t["_index"].t["_S"].t == c.old.self.t["_index"].t["_S"].t),
                ("j_counts", c.j.t == cnt(A, t)),
                ("new_position", c.new_position.t == t - cnt(A, t)),
                ("position_map", forall([i], z3.And(z3.Select(d_dom(U), i) == z3.And(0 <= i, i < t, z3.Not(z3.Select(A, i)), cnt(A, i) != 0),
                                                    z3.Implies(z3.Select(d_dom(U), i), z3.Select(d_val(U), i) == i - cnt(A, i))),
                                        patterns=[z3.Select(d_dom(U), i), z3.Select(d_val(U), i)])),
                ] + _remove_helper._common(c, t)

    @staticmethod
    def _inv_scan(c):
        return _remove_helper._common(c, c.loop(1).t)

    loops = {0: dict(inv=lambda c: _remove_helper._inv_index(c)), 1: dict(inv=lambda c: _remove_helper._inv_scan(c))}


WRITE_RAISES = {"OSError": staticmethod(lambda c: dict(when=z3.Not(z3.And(c.self.t["_storage"].t["readable"].t, c.self.t["_storage"].t["writable"].t)))),
                "ReadFault": staticmethod(lambda c: read_fault_rewrite(c)), "WriteFault": staticmethod(lambda c: write_fault(c))}


@contract(_TF + "remove")
class _remove(Contract):
    """C02 (public entry): as _remove_helper, with the full database invariant re-established."""
    params = dict(self=DB, query=Q, measurement=OStr)
    defaults = dict(measurement=NONE_STR)
    ret = TInt
    modifies = ("_storage", "_index", "_measurements")
    theories = ("queries", "dbqueries", "count")
    raises = WRITE_RAISES

    @staticmethod
    def requires(c):
        return dbinv(c.self) + _wfquery(c)

    @staticmethod
    def ghost_defs(c):
        A, facts = selected_set(c.self, c.query, c.measurement)
        return {"Asel": (A, facts)}

    @staticmethod
    def ensures(c):
        items0 = c.old.self.t["_storage"].t["items"].t
        items1 = c.self.t["_storage"].t["items"].t
        A = c.Asel.t
        return [("returns_number_selected", c.result.t == card(A)),
                ("nothing_selected_changes_nothing", z3.Implies(card(A) == 0, items1 == items0))] + removed_view(items1, items0, A) + dbinv(c.self)


@contract(_TF + "remove_all")
class _remove_all(Contract):
    params = dict(self=DB)
    modifies = ("_storage", "_index", "_measurements")
    raises = {"OSError": staticmethod(lambda c: dict(when=z3.Not(c.self.t["_storage"].t["writable"].t))), "WriteFault": staticmethod(lambda c: write_fault(c))}

    @staticmethod
    def requires(c):
        return dbinv(c.self)

    @staticmethod
    def ensures(c):
        return [("storage_empty", l_len(c.self.t["_storage"].t["items"].t) == 0)] + dbinv(c.self)


@contract(_TF + "drop_measurement")
class _drop_measurement(Contract):
    """C02: drop_measurement(name) removes exactly the points whose measurement is name."""
    params = dict(self=DB, name=TStr)
    ret = TInt
    modifies = ("_storage", "_index", "_measurements")
    theories = ("queries", "dbqueries", "count")
    raises = WRITE_RAISES

    @staticmethod
    def requires(c):
        return dbinv(c.self)

    @staticmethod
    def ghost_defs(c):
        OS = TOpt(TStr)
        A, facts = selected_set(c.self, Val(Q, q_meas_eq(c.name.t)), Val(OS, o_some(OS, c.name.t)))
        return {"Asel": (A, facts)}

    @staticmethod
    def ensures(c):
        items0 = c.old.self.t["_storage"].t["items"].t
        items1 = c.self.t["_storage"].t["items"].t
        A = c.Asel.t
        i = z3.Int(fresh_name("i"))
        named = forall([i], z3.Select(A, i) == z3.And(0 <= i, i < l_len(items0), meas(dec(l_at(items0, i))) == c.name.t), patterns=[z3.Select(A, i)])
        return [("dropped_are_exactly_the_named", named), ("returns_number_dropped", c.result.t == card(A))] + removed_view(items1, items0, A) + dbinv(c.self)


# ---------------------------------------------------------------- insert


def norm_point(o, m, now):
    """the point stored for element o: measurement replaced when a (truthy) name is given,
    time normalised to UTC or stamped with the call's insertion time (C08, C10)"""
    t = z3.If(o_is_some(mp_time(o)), dt_utc(o_val(mp_time(o))), now)
    ms = z3.If(truthy_opt_str(m), o_val(m.t), mp_meas(o))
    return mkpt(t, ms, mp_tags(o), mp_fields(o))


def inserted_prefix(items1, items0, points, k, m, now):
    """items1 = items0 ++ [items decoding to the normalised first k points]"""
    j = z3.Int(fresh_name("j"))
    n0 = l_len(items0)
    return [
        ("length", l_len(items1) == n0 + k),
        ("old_items_untouched", forall([j], z3.Implies(z3.And(0 <= j, j < n0), l_at(items1, j) == l_at(items0, j)), patterns=[l_at(items1, j), l_at(items0, j)])),
        ("new_items_decode_to_normalised_points", forall([j], z3.Implies(z3.And(0 <= j, j < k), dec(l_at(items1, n0 + j)) == norm_point(l_at(points, j), m, now)),
                                                         patterns=[l_at(points, j)])),
    ]


def first_non_point(points, k):
    j = z3.Int(fresh_name("j"))
    return z3.And(0 <= k, k < l_len(points), z3.Not(is_point(l_at(points, k))),
                  forall([j], z3.Implies(z3.And(0 <= j, j < k), is_point(l_at(points, j))), patterns=[l_at(points, j)]))


NOW = now_utc(z3.IntVal(0))


@contract(_TF + "_insert_helper")
class _insert_helper(Contract):
    """C06/C08/C10/C11/C16: inserts append the normalised points; the index is extended, or invalidated, never stale."""
    params = dict(self=DB, points=LAny, measurement=OStr, compact_key_prefixes=TBool)
    defaults = dict(compact_key_prefixes=lambda ex: mk_bool(False))
    ret = TInt
    modifies = ("_storage", "_index")
    theories = ("time", "mkpt", "any")
    witness_sig = {"bad": ([], TInt)}

    @staticmethod
    def requires(c):
        return dbinv(c.self)

    @staticmethod
    def witness(c):
        return {"bad": lambda: z3.IntVal(-1)}

    @staticmethod
    def _raises(c):
        k = z3.Int(fresh_name("k"))
        pts = c.points.t
        return dict(when=z3.Exists([k], z3.And(0 <= k, k < l_len(pts), z3.Not(is_point(l_at(pts, k))))), ensures=_insert_helper._exc_ensures)

    @staticmethod
    def _exc_ensures(c):
        # C11: the points before the offending element are stored, nothing else changed, invariant holds
        k = z3.Int(fresh_name("kbad"))
        pts = c.points.t
        items0, items1 = c.old.self.t["_storage"].t["items"].t, c.self.t["_storage"].t["items"].t
        pre = inserted_prefix(items1, items0, pts, k, c.measurement, NOW)
        return [("prefix_before_offending_element_inserted", z3.Exists([k], z3.And(first_non_point(pts, k), *[f for _, f in pre])))] + dbinv(c.self)

    # `points` may be any iterable (insert_multiple is called with generators): producing the next element may raise (C11: the database
    # stays consistent and usable; the points already inserted stay inserted)
    fallible_iter = {"points": "IterFault"}
    raises = {"TypeError": staticmethod(lambda c: _insert_helper._raises(c)),
              "IterFault": staticmethod(lambda c: dict(when=z3.BoolVal(True), exact=False, ensures=lambda c2: dbinv_no_temp(c2.self) + [
                  ("temp_untouched", c2.self.t["_storage"].t["temp"].t == c2.old.self.t["_storage"].t["temp"].t)])),
              "WriteFault": staticmethod(lambda c: dict(when=z3.BoolVal(True), exact=False, ensures=lambda c2: dbinv_no_temp(c2.self) + [
                  ("temp_untouched", c2.self.t["_storage"].t["temp"].t == c2.old.self.t["_storage"].t["temp"].t)]))}

    @staticmethod
    def ensures(c):
        pts = c.points.t
        items0, items1 = c.old.self.t["_storage"].t["items"].t, c.self.t["_storage"].t["items"].t
        ix0, ix1 = c.old.self.t["_index"].t, c.self.t["_index"].t
        auto = c.self.t["_auto_index"].t
        return [("returns_number_of_points", c.result.t == l_len(pts))] + inserted_prefix(items1, items0, pts, l_len(pts), c.measurement, NOW) + [
            ("temp_untouched", c.self.t["_storage"].t["temp"].t == c.old.self.t["_storage"].t["temp"].t),
            ("in_time_order_keeps_index_valid", z3.Implies(z3.And(auto, ix0["_valid"].t, _insert_helper._in_order(c, l_len(pts))), ix1["_valid"].t)),
            ("without_auto_index_nonempty_insert_invalidates", z3.Implies(z3.And(z3.Not(auto), l_len(pts) > 0), z3.Not(ix1["_valid"].t))),
        ] + dbinv(c.self)

    @staticmethod
    def _in_order(c, k):
        """the first k normalised points are not earlier than what precedes them (old index, then each other)"""
        pts = c.points.t
        ix0 = c.old.self.t["_index"].t
        TS0 = ix0["_timestamps"].t
        n0 = l_len(TS0)
        j, j2 = z3.Int(fresh_name("j")), z3.Int(fresh_name("j2"))
        tsn = lambda jj: ts(norm_point(l_at(pts, jj), c.measurement, NOW))
        return z3.And(forall([j], z3.Implies(z3.And(0 <= j, j < k, n0 > 0), l_at(TS0, n0 - 1) <= tsn(j)), patterns=[l_at(pts, j)]),
                      forall([j, j2], z3.Implies(z3.And(0 <= j, j <= j2, j2 < k), tsn(j) <= tsn(j2)), patterns=[z3.MultiPattern(l_at(pts, j), l_at(pts, j2))]))

    @staticmethod
    def _inv(c):
        t = c.loop(0).t
        pts = c.points.t
        items0, items1 = c.old.self.t["_storage"].t["items"].t, c.self.t["_storage"].t["items"].t
        ix0, ix1 = c.old.self.t["_index"].t, c.self.t["_index"].t
        auto = c.self.t["_auto_index"].t
        j = z3.Int(fresh_name("j"))
        TS1 = ix1["_timestamps"].t
        return [
            ("count", c.count.t == t),
            ("now", c.t.t == NOW),
            ("all_points_so_far", forall([j], z3.Implies(z3.And(0 <= j, j < t), is_point(l_at(pts, j))), patterns=[l_at(pts, j)])),
            ("temp_untouched", c.self.t["_storage"].t["temp"].t == c.old.self.t["_storage"].t["temp"].t),
            ("in_time_order_keeps_index_valid", z3.Implies(z3.And(auto, ix0["_valid"].t, _insert_helper._in_order(c, t)), ix1["_valid"].t)),
            ("index_untouched_at_start", z3.Implies(t == 0, z3.And(*[ix1[a].t == ix0[a].t for a in ix0]))),
            ("without_auto_index_invalid_once_a_point_is_stored", z3.Implies(z3.And(z3.Not(auto), t > 0), z3.Not(ix1["_valid"].t))),
            ("latest_indexed_time", z3.Implies(z3.And(auto, ix1["_valid"].t, t > 0), z3.And(l_len(TS1) > 0,
                                                                                            l_at(TS1, l_len(TS1) - 1) == ts(norm_point(l_at(pts, t - 1), c.measurement, NOW))))),
        ] + inserted_prefix(items1, items0, pts, t, c.measurement, NOW) + _insert_helper._dbinv_loop(c)

    @staticmethod
    def _dbinv_loop(c):
        # the database invariant holds after every stored point (fix: with auto_index off the index is invalidated at once, not after the loop),
        # so that an exception from the iterable or from a later point leaves a consistent database
        return dbinv(c.self)

    loops = {0: dict(inv=lambda c: _insert_helper._inv(c))}


APPEND_RAISES = {"OSError": staticmethod(lambda c: dict(when=z3.Not(c.self.t["_storage"].t["appendable"].t))), "WriteFault": staticmethod(lambda c: write_fault(c)),
                 "IterFault": staticmethod(lambda c: write_fault(c))}


@contract(_TF + "insert")
class _insert(Contract):
    """C08/C10/C14: one normalised point is appended; a non-Point is rejected with TypeError and changes nothing."""
    params = dict(self=DB, point=AnyObj, measurement=OStr, compact_key_prefixes=TBool)
    defaults = dict(measurement=NONE_STR, compact_key_prefixes=lambda ex: mk_bool(False))
    ret = TInt
    modifies = ("_storage", "_index")
    theories = ("time", "mkpt", "any")

    @staticmethod
    def requires(c):
        return dbinv(c.self)

    @staticmethod
    def _te(c):
        def ens(cc):
            return [("storage_unchanged", same_elems(cc.self.t["_storage"].t["items"].t, cc.old.self.t["_storage"].t["items"].t))] + dbinv(cc.self)
        return dict(when=z3.And(c.self.t["_storage"].t["appendable"].t, z3.Not(is_point(c.point.t))), ensures=ens)

    raises = dict(APPEND_RAISES, TypeError=staticmethod(lambda c: _insert._te(c)))

    @staticmethod
    def ensures(c):
        items0, items1 = c.old.self.t["_storage"].t["items"].t, c.self.t["_storage"].t["items"].t
        n0 = l_len(items0)
        j = z3.Int(fresh_name("j"))
        return [("returns_one", c.result.t == 1),
                ("one_item_appended", l_len(items1) == n0 + 1),
                ("old_items_untouched", forall([j], z3.Implies(z3.And(0 <= j, j < n0), l_at(items1, j) == l_at(items0, j)), patterns=[l_at(items1, j), l_at(items0, j)])),
                ("stored_point_is_normalised", dec(l_at(items1, n0)) == norm_point(c.point.t, c.measurement, NOW)),
                ] + dbinv(c.self)


@contract(_TF + "insert_multiple")
class _insert_multiple(Contract):
    params = dict(self=DB, points=LAny, measurement=OStr, compact_key_prefixes=TBool)
    defaults = dict(measurement=NONE_STR, compact_key_prefixes=lambda ex: mk_bool(False))
    ret = TInt
    modifies = ("_storage", "_index")
    theories = ("time", "mkpt", "any")
    raises = dict(APPEND_RAISES, TypeError=staticmethod(lambda c: dict(
        when=z3.And(c.self.t["_storage"].t["appendable"].t, _insert_helper._raises(c)["when"]), ensures=_insert_helper._exc_ensures)))

    @staticmethod
    def requires(c):
        return dbinv(c.self)

    @staticmethod
    def ensures(c):
        return _insert_helper.ensures(c)


# ---------------------------------------------------------------- update

UPD_ARGS = ("time", "measurement", "tags", "fields", "unset_fields", "unset_tags")
from .any_model import static_args_ok


class _ArgCtx:
    def __init__(self, vals):
        for n, v in zip(UPD_ARGS, vals):
            setattr(self, n, Val(AnyV, v))


def bad_update_args(*vals):
    """_generate_updater rejects the static arguments (its proved raising condition, for a well-formed query)"""
    return z3.Not(static_args_ok(_ArgCtx(vals)))
updater_of = z3.Function("updater_of", *([sort_of(AnyV)] * 6 + [sort_of(Upd)]))


def updated_view(items1, items0, C, u):
    """C03 whole-view postcondition: same length and order; changed selected points replaced by their update, all others untouched"""
    i = z3.Int(fresh_name("i"))
    n = l_len(items0)
    return [
        ("length_and_order_kept", l_len(items1) == n),
        ("changed_points_updated", forall([i], z3.Implies(z3.And(0 <= i, i < n, z3.Select(C, i)), dec(l_at(items1, i)) == upd_result(u, dec(l_at(items0, i)))),
                                          patterns=[l_at(items1, i), z3.Select(C, i)])),
        ("other_points_untouched", forall([i], z3.Implies(z3.And(0 <= i, i < n, z3.Not(z3.Select(C, i))), l_at(items1, i) == l_at(items0, i)),
                                          patterns=[l_at(items1, i), z3.Select(C, i)])),
    ]


@contract(_TF + "_update_helper")
class _update_helper(Contract):
    """C03/C11: exactly the selected points that actually change are rewritten; count = number changed;
    nothing changes when nothing changes or when the update raises."""
    params = dict(self=DB, update_all=TBool, query=Q, time=AnyV, measurement=AnyV, tags=AnyV, fields=AnyV, _measurement=OStr, unset_fields=AnyV, unset_tags=AnyV)
    ret = TInt
    modifies = ("_storage", "_index")
    theories = ("queries", "dbqueries", "count", "count_lemmas", "count_lemmas2")
    ghost_after = [("index_rst = self._index.search", "__cut__('index_is_selection')")]
    cuts = {"index_is_selection": lambda c: [("sets_equal", c.index_rst.t["_items"].t == c.Asel.t)]}

    @staticmethod
    def requires(c):
        return dbinv(c.self) + _wfquery(c) + [("index_valid_when_auto", z3.Implies(c.self.t["_auto_index"].t, c.self.t["_index"].t["_valid"].t)),
                                              ("update_all_has_no_filter", z3.Implies(c.update_all.t, z3.Not(truthy_opt_str(c._measurement))))]

    @staticmethod
    def _u(c):
        return updater_of(*[getattr(c, a).t for a in UPD_ARGS])

    @staticmethod
    def ghost_defs(c):
        items = c.self.t["_storage"].t["items"].t
        A0, facts = selected_set(c.self, c.query, c._measurement)
        # update_all selects every position
        A = z3.Const(fresh_name("Aupd"), sort_of(SInt))
        i = z3.Int(fresh_name("i"))
        fa = forall([i], z3.Select(A, i) == z3.If(c.update_all.t, z3.And(0 <= i, i < l_len(items)), z3.Select(A0.t, i)), patterns=[z3.Select(A, i), l_at(items, i)])
        C, cfacts = changed_set(items, _update_helper._u(c), A)
        return {"Asel0": (A0, facts), "Asel": (Val(SInt, A), [fa, card_is_cnt(A, l_len(items))] + card_facts(A)), "Chg": (Val(SInt, C), cfacts)}

    @staticmethod
    def _exc(c):
        # a raising callable / late validation: primary storage and index untouched (C11)
        i = z3.Int(fresh_name("i"))
        items = c.self.t["_storage"].t["items"].t
        u = _update_helper._u(c)
        when = z3.Exists([i], z3.And(z3.Select(c.Asel.t, i), upd_raises(u, dec(l_at(items, i)))))

        def ens(cc):
            return [("primary_storage_untouched", cc.self.t["_storage"].t["items"].t == cc.old.self.t["_storage"].t["items"].t)] + dbinv_no_temp(cc.self)
        return dict(when=when, ensures=ens, exact=False)

    raises = {"ValueError": staticmethod(lambda c: dict(when=bad_update_args(*[getattr(c, a).t for a in UPD_ARGS]),
                                                        ensures=lambda cc: [("nothing_changed", z3.And(cc.self.t["_storage"].t["items"].t == cc.old.self.t["_storage"].t["items"].t,
                                                                                                     cc.self.t["_storage"].t["temp"].t == cc.old.self.t["_storage"].t["temp"].t))] + dbinv(cc.self))),
              "UserError": staticmethod(lambda c: _update_helper._exc(c)), "ReadFault": staticmethod(lambda c: read_fault_rewrite(c, dbinv_no_temp)),
              "WriteFault": staticmethod(lambda c: write_fault(c, dbinv_no_temp))}

    @staticmethod
    def ensures(c):
        items0, items1 = c.old.self.t["_storage"].t["items"].t, c.self.t["_storage"].t["items"].t
        C = c.Chg.t
        return [("returns_number_changed", c.result.t == card(C)),
                ("no_change_leaves_storage_untouched", z3.Implies(card(C) == 0, items1 == items0)),
                ] + updated_view(items1, items0, C, _update_helper._u(c)) + dbinv_no_temp(c.self)

    @staticmethod
    def _common(c, t):
        items = c.old.self.t["_storage"].t["items"].t
        stg = c.self.t["_storage"].t
        temp = stg["temp"].t
        C, u = c.Chg.t, _update_helper._u(c)
        i = z3.Int(fresh_name("i"))
        return [
            ("updater", c.perform_update.t == u),
            ("primary_untouched", z3.And(stg["items"].t == items, *[c.self.t["_index"].t[a].t == c.old.self.t["_index"].t[a].t for a in c.old.self.t["_index"].t])),
            ("update_count", c.update_count.t == cnt(C, t)),
            ("temp_len", l_len(temp) == t),
            ("temp_changed", forall([i], z3.Implies(z3.And(0 <= i, i < t, z3.Select(C, i)), dec(l_at(temp, i)) == upd_result(u, dec(l_at(items, i)))),
                                    patterns=[l_at(temp, i), z3.Select(C, i)])),
            ("temp_others", forall([i], z3.Implies(z3.And(0 <= i, i < t, z3.Not(z3.Select(C, i))), l_at(temp, i) == l_at(items, i)),
                                   patterns=[l_at(temp, i), z3.Select(C, i)])),
            ("no_raise_so_far", forall([i], z3.Implies(z3.And(0 <= i, i < t, z3.Select(c.Asel.t, i)), z3.Not(upd_raises(u, dec(l_at(items, i))))), patterns=[z3.Select(c.Asel.t, i)])),
        ]

    @staticmethod
    def _inv_index(c):
        t = c.loop(0).t
        A, C = c.Asel.t, c.Chg.t
        return [("index_answer_is_selection", c.index_rst.t["_items"].t == c.Asel0.t), ("not_update_all", z3.Not(c.update_all.t)),
                ("j_counts_unchanged_candidates", c.j.t == cnt(A, t) - cnt(C, t))] + _update_helper._common(c, t)

    loops = {0: dict(inv=lambda c: _update_helper._inv_index(c)), 1: dict(inv=lambda c: _update_helper._common(c, c.loop(1).t))}


def _upd_view(c):
    """present update()/update_all() arguments as _update_helper's"""
    class V:
        def __getattr__(self, n):
            if n == "old":
                return _upd_view(c.old) if c.old is not None else None
            return getattr(c, n)
    return V()


def _update_public(name, is_all):
    class _c(Contract):
        params = dict(self=DB, **({} if is_all else dict(query=Q)), time=AnyV, measurement=AnyV, tags=AnyV, fields=AnyV, unset_fields=AnyV, unset_tags=AnyV,
                      **({} if is_all else dict(_measurement=OStr)))
        defaults = dict({a: (lambda ex: Val(AnyV, AV_NONE)) for a in UPD_ARGS}, _measurement=NONE_STR)
        ret = TInt
        modifies = ("_storage", "_index")
        theories = ("queries", "dbqueries", "count")

        @staticmethod
        def _h(c):
            """context for the helper's clauses"""
            extra = {}
            if is_all:
                extra = dict(query=Val(Q, q_noop_tags), _measurement=Val(OStr, o_none(OStr)), update_all=mk_bool(True))
            else:
                extra = dict(update_all=mk_bool(False))

            class V:
                def __getattr__(self, n):
                    if n in extra:
                        return extra[n]
                    if n == "old":
                        return _c._h(c.old) if c.old is not None else None
                    return getattr(c, n)
            return V()

        @staticmethod
        def requires(c):
            return dbinv(c.self) + ([] if is_all else _wfquery(c))

        @staticmethod
        def ghost_defs(c):
            return _update_helper.ghost_defs(_c._h(c))

        @staticmethod
        def ensures(c):
            h = _c._h(c)
            items0, items1 = c.old.self.t["_storage"].t["items"].t, c.self.t["_storage"].t["items"].t
            C = c.Chg.t
            return [("returns_number_changed", c.result.t == card(C)), ("no_change_leaves_storage_untouched", z3.Implies(card(C) == 0, items1 == items0)),
                    ] + updated_view(items1, items0, C, _update_helper._u(h)) + dbinv(c.self)

        @staticmethod
        def _exc(c, which):
            h = _c._h(c)
            spec = _update_helper.raises[which](h)
            ok = z3.And(c.self.t["_storage"].t["readable"].t, c.self.t["_storage"].t["writable"].t)

            def ens(cc):
                # C11: an operation that raises leaves the database as it was, and still usable
                return [("primary_storage_untouched", cc.self.t["_storage"].t["items"].t == cc.old.self.t["_storage"].t["items"].t)] + dbinv(cc.self)
            return dict(when=z3.And(ok, spec["when"]), ensures=ens, exact=spec.get("exact", True))

        raises = dict(WRITE_RAISES, ValueError=staticmethod(lambda c: _c._exc(c, "ValueError")), UserError=staticmethod(lambda c: _c._exc(c, "UserError")))

    contract(_TF + name)(_c)
    return _c


_update = _update_public("update", False)
_update_all = _update_public("update_all", True)


# ------------------------------------------------------------------------------------------ closing (C04: "once the database is closed")
def _closed_post(c):
    return [("marked_closed", z3.Not(c.self.t["_open"].t))] + storage_unchanged(c) + dbinv(c.self)


@contract(_TF + "close")
class _close(Contract):
    """close marks the database closed and closes the storage - contents, index and invariant as they were; a failing close reaches the caller"""
    params = dict(self=DB)
    modifies = ("_open",)
    raises = {"WriteFault": staticmethod(lambda c: dict(when=z3.BoolVal(True), exact=False, ensures=lambda c2: dbinv(c2.self) + storage_unchanged(c2)))}
    requires = staticmethod(lambda c: dbinv(c.self))
    ensures = staticmethod(_closed_post)


@contract(_TF + "__exit__")
class _exit(Contract):
    """leaving the context closes an open database exactly once and returns None (exceptions are not suppressed)"""
    params = dict(self=DB, args=TU("Opaque"))
    modifies = ("_open",)
    raises = _close.raises
    requires = staticmethod(lambda c: dbinv(c.self))
    ensures = staticmethod(_closed_post)


@contract(_TF + "__enter__")
class _enter(Contract):
    params = dict(self=DB)
    ret = DB
    requires = staticmethod(lambda c: dbinv(c.self))

    @staticmethod
    def ensures(c):
        return [("returns_the_database", z3.And(c.result.t["_open"].t == c.self.t["_open"].t, c.result.t["_storage"].t["items"].t == c.self.t["_storage"].t["items"].t,
                                                c.result.t["_index"].t["_valid"].t == c.self.t["_index"].t["_valid"].t))] + dbinv(c.result)
