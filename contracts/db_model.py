"""Abstract storage, database invariant and counting vocabulary (DESIGN 3.3, 3.5, 3.6)."""

import z3
from pyvc.core import *  # noqa
from pyvc import spec as S
from pyvc.spec import register_class
from .model import *  # noqa

Item = TU("Item")  # what a storage holds and yields (csv rows / Point objects)
LItem = TList(Item)
_item = sort_of(Item)
dec = z3.Function("dec", _item, sort_of(Pt))  # the point an item decodes to

STG = TObj("Storage")
DB = TObj("TinyFlux")
Cache = TU("HandleCache")

register_class("Storage", "tinyflux.storages", dict(
    items=LItem,  # GHOST: what iterating the storage yields
    temp=LItem,  # GHOST: contents of temporary storage
    readable=TBool, writable=TBool, appendable=TBool,  # GHOST: what the access mode allows
))
register_class("TinyFlux", "tinyflux.database", dict(
    _auto_index=TBool, _storage=STG, _index=TObj("Index"), _measurements=Cache, _open=TBool,
))

q_and = z3.Function("q_and", sort_of(Q), sort_of(Q), sort_of(Q))  # a & b
q_meas_eq = z3.Function("q_meas_eq", sort_of(TStr), sort_of(Q))  # MeasurementQuery() == m
q_meas_ne = z3.Function("q_meas_ne", sort_of(TStr), sort_of(Q))  # MeasurementQuery() != m

cnt = z3.Function("cnt", sort_of(SInt), z3.IntSort(), z3.IntSort())  # |A ∩ [0,i)|
card = z3.Function("card_Int", sort_of(SInt), z3.IntSort())


def count_axioms():
    A = z3.Const("ax_A", sort_of(SInt))
    i = z3.Int("ax_i")
    return [
        forall([A], cnt(A, 0) == 0, patterns=[cnt(A, 0)]),
        forall([A, i], z3.Implies(i > 0, cnt(A, i) == cnt(A, i - 1) + z3.If(z3.Select(A, i - 1), 1, 0)), patterns=[cnt(A, i)]),
    ]


S.THEORIES["count"] = count_axioms()


def card_is_cnt(A, n):
    """ASSUMED axiom about Python sets (DESIGN 3.6): len(A) = |A ∩ [0,n)| when A ⊆ [0,n)."""
    x = z3.Int(fresh_name("x"))
    return z3.Implies(z3.And(n >= 0, forall([x], z3.Implies(z3.Select(A, x), z3.And(0 <= x, x < n)), patterns=[z3.Select(A, x)])), card(A) == cnt(A, n))


def card_facts(A):
    """ASSUMED facts about len() of a Python set: non-negative, and zero exactly for the empty set."""
    x = z3.Int(fresh_name("x"))
    w = z3.Int(fresh_name("member"))
    return [card(A) >= 0, z3.Implies(card(A) > 0, z3.Select(A, w)),
            z3.Implies(card(A) == 0, forall([x], z3.Not(z3.Select(A, x)), patterns=[z3.Select(A, x)])),
            z3.Implies(forall([x], z3.Not(z3.Select(A, x)), patterns=[z3.Select(A, x)]), card(A) == 0)]


def view_link(ix, stg):
    """the index's ghost view is the decoded storage contents"""
    V, items = ix.t["_S"].t, stg.t["items"].t
    j = z3.Int(fresh_name("j"))
    return z3.And(l_len(V) == l_len(items), forall([j], z3.Implies(z3.And(0 <= j, j < l_len(items), S.Tr(j)), l_at(V, j) == dec(l_at(items, j))),
                                                   patterns=[l_at(V, j), l_at(items, j)]))


def dbinv(db):
    """DBInv (DESIGN 3.5): a valid index represents the decoded storage; no temporary content between operations."""
    ix, stg = db.t["_index"], db.t["_storage"]
    valid = ix.t["_valid"].t
    out = [("ix:" + l, z3.Implies(valid, f)) for l, f in repr_self(ix)]
    out.append(("ix:view_is_storage", z3.Implies(valid, view_link(ix, stg))))
    out.append(("temp_empty", l_len(stg.t["temp"].t) == 0))
    return out


def truthy_opt_str(m):
    return z3.And(o_is_some(m.t), o_val(m.t) != EMPTY_STR)


def selm(m, p):
    """measurement filter as the database applies it (None and "" mean: no filter; see KF-19)"""
    return z3.Or(z3.Not(truthy_opt_str(m)), meas(p) == o_val(m.t))


selset = z3.Function("selected", sort_of(LItem), sort_of(Q), sort_of(TOpt(TStr)), sort_of(SInt))  # ghost: the selected positions


def selected_set(db_old, query, measurement, name="Asel"):
    """ghost definition: A = { i | 0 <= i < n, filter(i), sem(query, S[i]) } as a function of (items, query, filter)"""
    items = db_old.t["_storage"].t["items"].t
    A = selset(items, query.t, measurement.t)
    i = z3.Int(fresh_name("i"))
    body = z3.Select(A, i) == z3.And(0 <= i, i < l_len(items), selm(measurement, dec(l_at(items, i))), sem(query.t, dec(l_at(items, i))))
    return Val(SInt, A), [forall([i], body, patterns=[z3.Select(A, i), l_at(items, i)]), card_is_cnt(A, l_len(items))] + card_facts(A)


def count_lemmas():
    """Monotonicity of the counting function (DESIGN 3.6). Proved by induction in
    contracts/lemmas.py (base + step obligations, run as `lemma:count`); used here as axioms."""
    A = z3.Const("ax_A", sort_of(SInt))
    a, b, i = z3.Int("ax_a"), z3.Int("ax_b"), z3.Int("ax_i2")
    return [
        forall([A, a, b], z3.Implies(z3.And(0 <= a, a <= b), cnt(A, a) <= cnt(A, b)), patterns=[z3.MultiPattern(cnt(A, a), cnt(A, b))]),
        forall([A, i, b], z3.Implies(z3.And(0 <= i, i < b, z3.Select(A, i)), cnt(A, i) < cnt(A, b)), patterns=[z3.MultiPattern(z3.Select(A, i), cnt(A, b))]),
        forall([A, a], z3.Implies(0 <= a, z3.And(0 <= cnt(A, a), cnt(A, a) <= a)), patterns=[cnt(A, a)]),
    ]


S.THEORIES["count_lemmas"] = count_lemmas()


def count_lemmas2():
    """Further counting lemmas (DESIGN 3.6), proved by induction in contracts/lemmas.py."""
    A = z3.Const("ax_A", sort_of(SInt))
    a, b, p, n = z3.Int("ax_a"), z3.Int("ax_b"), z3.Int("ax_p"), z3.Int("ax_n")
    i = z3.Int("ax_i3")
    return [
        # Lipschitz: at most one member per position
        forall([A, a, b], z3.Implies(z3.And(0 <= a, a <= b), cnt(A, b) - cnt(A, a) <= b - a), patterns=[z3.MultiPattern(cnt(A, a), cnt(A, b))]),
        # rank is strictly increasing over non-members
        forall([A, i, b], z3.Implies(z3.And(0 <= i, i < b, z3.Not(z3.Select(A, i))), i - cnt(A, i) < b - cnt(A, b)), patterns=[z3.MultiPattern(z3.Select(A, i), cnt(A, b))]),
        # rank i - cnt(A, i) is onto [0, n - cnt(A, n)) over the non-members below n
        forall([A, n, p], z3.Implies(z3.And(0 <= p, p < n - cnt(A, n), S.Tr(p)),
                                     z3.Exists([i], z3.And(0 <= i, i < n, z3.Not(z3.Select(A, i)), i - cnt(A, i) == p))),
               patterns=[z3.MultiPattern(cnt(A, n), S.Tr(p))]),
    ]


S.THEORIES["count_lemmas2"] = count_lemmas2()


def enumerates(R, src, rank, A, items, n_R=None):
    """R lists the decoded items at the positions of A exactly once each: src(a) is the storage
    position of R[a] and rank(i) the place of storage position i in R (mutually inverse)."""
    a, i = z3.Int(fresh_name("a")), z3.Int(fresh_name("i"))
    nR = l_len(R) if n_R is None else n_R
    return [
        ("elements_are_selected_once", forall([a], z3.Implies(z3.And(0 <= a, a < nR), z3.And(z3.Select(A, src(a)), l_at(R, a) == dec(l_at(items, src(a))), rank(src(a)) == a)),
                                              patterns=[l_at(R, a), src(a)])),
        ("every_selected_listed", forall([i], z3.Implies(z3.Select(A, i), z3.And(0 <= rank(i), rank(i) < nR, src(rank(i)) == i)),
                                         patterns=[z3.Select(A, i), rank(i)])),
    ]


def in_storage_order(src, nR):
    a, b = z3.Int(fresh_name("a")), z3.Int(fresh_name("b"))
    return forall([a, b], z3.Implies(z3.And(0 <= a, a < b, b < nR), src(a) < src(b)), patterns=[z3.MultiPattern(src(a), src(b))])


def in_stable_time_order(R, src, nR):
    a, b = z3.Int(fresh_name("a")), z3.Int(fresh_name("b"))
    ta, tb = ts(l_at(R, a)), ts(l_at(R, b))
    return forall([a, b], z3.Implies(z3.And(0 <= a, a < b, b < nR), z3.And(ta <= tb, z3.Implies(ta == tb, src(a) < src(b)))),
                  patterns=[z3.MultiPattern(l_at(R, a), l_at(R, b))])


# ---------------------------------------------------------------- mutable points at the API boundary

AnyObj = TU("AnyObj")  # an element handed to insert_multiple: a Point or anything else
LAny = TList(AnyObj)
_any = sort_of(AnyObj)
ODt = TOpt(Dt)
is_point = z3.Function("is_point", _any, z3.BoolSort())
mp_time = z3.Function("mp_time", _any, sort_of(ODt))
mp_meas = z3.Function("mp_meas", _any, sort_of(TStr))
mp_tags = z3.Function("mp_tags", _any, sort_of(TagsD))
mp_fields = z3.Function("mp_fields", _any, sort_of(FldsD))
mkpt = z3.Function("mkpt", sort_of(Dt), sort_of(TStr), sort_of(TagsD), sort_of(FldsD), sort_of(Pt))
now_utc = z3.Function("now_utc", z3.IntSort(), sort_of(Dt))  # datetime.now(timezone.utc) of the n-th call

MP = TObj("MPoint")
register_class("MPoint", "tinyflux.point", dict(_time=ODt, _measurement=TStr, _tags=TagsD, _fields=FldsD, _is_point=TBool), props=())
S.CLASSES["MPoint"]["source_class"] = "Point"


def mkpt_axioms():
    t = z3.Const("ax_t", sort_of(Dt))
    m = z3.Const("ax_m2", sort_of(TStr))
    tg = z3.Const("ax_tg", sort_of(TagsD))
    fl = z3.Const("ax_fl", sort_of(FldsD))
    p = mkpt(t, m, tg, fl)
    return [forall([t, m, tg, fl], z3.And(time_of(p) == t, meas(p) == m, tagsd(p) == tg, fldsd(p) == fl), patterns=[p])]


S.THEORIES["mkpt"] = mkpt_axioms()


def pt_of(rec):
    """the Pt value of a mutable point record (its time must be set)"""
    f = rec.t
    return mkpt(o_val(f["_time"].t), f["_measurement"].t, f["_tags"].t, f["_fields"].t)


# ---------------------------------------------------------------- updates

AnyV = TU("AnyV")  # opaque update arguments (datetime / str / mapping / callable / None)
Upd = TU("Updater")  # the closure returned by _generate_updater
_upd = sort_of(Upd)
upd_raises = z3.Function("upd_raises", _upd, sort_of(Pt), z3.BoolSort())  # perform_update(point) raises
upd_result = z3.Function("upd_result", _upd, sort_of(Pt), sort_of(Pt))  # the point after a successful perform_update
chgset = z3.Function("changed", sort_of(LItem), _upd, sort_of(SInt), sort_of(SInt))  # ghost: selected positions whose point changes


def changed_set(items, u, A):
    """ghost definition: C = { i in A | upd(S[i]) != S[i] }"""
    C = chgset(items, u, A)
    i = z3.Int(fresh_name("i"))
    body = z3.Select(C, i) == z3.And(z3.Select(A, i), upd_result(u, dec(l_at(items, i))) != dec(l_at(items, i)))
    return C, [forall([i], body, patterns=[z3.Select(C, i), l_at(items, i)]), card_is_cnt(C, l_len(items))] + card_facts(C)

AV_NONE = z3.Const("av_none", sort_of(AnyV))
q_noop_tags = z3.Const("TagQuery().noop()", sort_of(Q))
q_noop_meas = z3.Const("MeasurementQuery().noop()", sort_of(Q))
