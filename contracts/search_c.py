"""Contracts for the search half of tinyflux/index.py (C01) and IndexResult."""

import z3
from pyvc.core import *  # noqa
from pyvc import spec as S
from pyvc.spec import contract, Contract
from .model import *  # noqa
from .index_c import IX

IR = TObj("IndexResult")


@contract("tinyflux.index.IndexResult.__init__")
class _ir_init(Contract):
    params = dict(self=IR, items=SInt, index_count=TInt)
    modifies = ("_items", "_index_count")

    @staticmethod
    def ensures(c):
        return [("items", c.self.t["_items"].t == c.items.t), ("index_count", c.self.t["_index_count"].t == c.index_count.t)]


@contract("tinyflux.index.IndexResult.items")
class _ir_items(Contract):
    params = dict(self=IR)
    ret = SInt

    @staticmethod
    def ensures(c):
        return [("is_items", c.result.t == c.self.t["_items"].t)]


def _setalg(name, f):
    class _c(Contract):
        params = dict(self=IR, other=IR) if name != "__invert__" else dict(self=IR)
        ret = IR

        @staticmethod
        def ensures(c):
            x = z3.Int(fresh_name("x"))
            a = c.self.t["_items"].t
            n = c.self.t["_index_count"].t
            r = c.result.t["_items"].t
            if name == "__invert__":
                body = z3.Select(r, x) == z3.And(0 <= x, x < n, z3.Not(z3.Select(a, x)))
            else:
                b = c.other.t["_items"].t
                body = z3.Select(r, x) == f(z3.Select(a, x), z3.Select(b, x))
            return [("items", forall([x], body, patterns=[z3.Select(r, x)])), ("index_count", c.result.t["_index_count"].t == n)]

    contract("tinyflux.index.IndexResult." + name)(_c)
    return _c


_setalg("__and__", z3.And)
_setalg("__or__", z3.Or)
_setalg("__invert__", None)


def exact_set(s, n, P, q, extra=None):
    """s = { i | 0 <= i < n and sem(q, S[i]) [and extra(i)] }"""
    i = z3.Int(fresh_name("i"))
    rhs = z3.And(0 <= i, i < n, sem(q, P(i)))
    if extra is not None:
        rhs = z3.And(rhs, extra(i))
    return forall([i], z3.Select(s, i) == rhs, patterns=[z3.Select(s, i), P(i)])


def _elig(c, attr):
    q = c.query.t
    return [("query_wellformed", wfq(q)), ("query_simple", q_kind(q) == 0), ("query_index_eligible", q_hash_truthy(q)), ("query_attr", q_attr(q) == attr)]


@contract("tinyflux.index.Index._search_helper")
class _search_helper(Contract):
    """C01: for a query the index answers exactly, the result is exactly the matching positions."""
    params = dict(self=IX, query=Q)
    ret = IR
    theories = ("queries",)

    @staticmethod
    def requires(c):
        return repr_self(c.self) + [("query_wellformed", wfq(c.query.t)), ("query_exact_for_index", exactq(c.query.t))]

    @staticmethod
    def ensures(c):
        n, P = view_of(c.self)
        return [("exact", exact_set(c.result.t["_items"].t, n, P, c.query.t)), ("index_count", c.result.t["_index_count"].t == n)]


@contract("tinyflux.index.Index.search")
class _search(Contract):
    params = dict(self=IX, query=Q)
    ret = IR
    theories = ("queries",)
    requires = staticmethod(_search_helper.requires)
    ensures = staticmethod(_search_helper.ensures)


@contract("tinyflux.index.Index._search_measurement")
class _search_measurement(Contract):
    params = dict(self=IX, query=Q)
    ret = SInt
    theories = ("queries",)

    @staticmethod
    def requires(c):
        n, P = view_of(c.self)
        return [("view_len", n >= 0)] + repr_meas(c.self.t["_measurements"], n, P) + _elig(c, A_MEAS)

    @staticmethod
    def ensures(c):
        n, P = view_of(c.self)
        return [("exact", exact_set(c.result.t, n, P, c.query.t))]

    @staticmethod
    def _inv(c):
        n, P = view_of(c.self)
        li = c.loop(0)
        M = c.self.t["_measurements"]
        done = lambda i: z3.And(z3.Select(d_dom(M.t), meas(P(i))), li.extra["idx"](meas(P(i))) < li.t)
        return [("prefix_exact", exact_set(c.rst_items.t, n, P, c.query.t, extra=done))]

    loops = {0: dict(inv=lambda c: _search_measurement._inv(c))}


@contract("tinyflux.index.Index._search_tags")
class _search_tags(Contract):
    params = dict(self=IX, query=Q)
    ret = SInt
    theories = ("queries",)

    @staticmethod
    def requires(c):
        n, P = view_of(c.self)
        return [("view_len", n >= 0)] + repr_tags(c.self.t["_tags"], n, P) + _elig(c, A_TAGS)

    @staticmethod
    def ensures(c):
        n, P = view_of(c.self)
        return [("exact", exact_set(c.result.t, n, P, c.query.t))]

    @staticmethod
    def _done0(c):
        T = c.self.t["_tags"]
        l0 = c.loop(0)
        key = q_key(c.query.t)
        return z3.And(z3.Select(d_dom(T.t), key), l0.extra["idx"](key) < l0.t)

    @staticmethod
    def _inv0(c):
        n, P = view_of(c.self)
        d0 = _search_tags._done0(c)
        return [("prefix_exact", exact_set(c.rst_items.t, n, P, c.query.t, extra=lambda i: d0))]

    @staticmethod
    def _inv1(c):
        n, P = view_of(c.self)
        T = c.self.t["_tags"]
        l0, l1 = c.loop(0), c.loop(1)
        q = c.query.t
        key = q_key(q)
        cur = c.tag_key.t
        d0 = _search_tags._done0(c)
        inner = z3.Select(d_val(T.t), cur)
        extra = lambda i: z3.Or(d0, z3.And(cur == key, l1.extra["idx"](tag(P(i), key)) < l1.t))
        return [("current_key", z3.And(z3.Select(d_dom(T.t), cur), l0.extra["idx"](cur) == l0.t, c.tag_values.t == inner)),
                ("prefix_exact", exact_set(c.rst_items.t, n, P, q, extra=extra))]

    loops = {0: dict(inv=lambda c: _search_tags._inv0(c)), 1: dict(inv=lambda c: _search_tags._inv1(c))}


@contract("tinyflux.index.Index._search_fields")
class _search_fields(Contract):
    params = dict(self=IX, query=Q)
    ret = SInt
    theories = ("queries",)

    @staticmethod
    def requires(c):
        n, P = view_of(c.self)
        return [("view_len", n >= 0)] + repr_fields(c.self.t["_fields"], n, P) + _elig(c, A_FIELDS)

    @staticmethod
    def ensures(c):
        n, P = view_of(c.self)
        return [("exact", exact_set(c.result.t, n, P, c.query.t))]

    @staticmethod
    def _done0(c):
        F = c.self.t["_fields"]
        l0 = c.loop(0)
        key = q_key(c.query.t)
        return z3.And(z3.Select(d_dom(F.t), key), l0.extra["idx"](key) < l0.t)

    @staticmethod
    def _inv0(c):
        n, P = view_of(c.self)
        d0 = _search_fields._done0(c)
        return [("prefix_exact", exact_set(c.rst_items.t, n, P, c.query.t, extra=lambda i: d0))]

    @staticmethod
    def _inv1(c):
        n, P = view_of(c.self)
        F = c.self.t["_fields"]
        l0, l1 = c.loop(0), c.loop(1)
        q = c.query.t
        key = q_key(q)
        cur = c.field_key.t
        d0 = _search_fields._done0(c)
        items = c.items.t
        j = z3.Int(fresh_name("j"))
        seen = lambda i: z3.Exists([j], z3.And(0 <= j, j < l1.t, t_get(l_at(items, j), 0) == i))
        extra = lambda i: z3.Or(d0, z3.And(cur == key, seen(i)))
        return [("current_key", z3.And(z3.Select(d_dom(F.t), cur), l0.extra["idx"](cur) == l0.t, items == z3.Select(d_val(F.t), cur),
                                       cur == key, q_single(q))),
                ("prefix_exact", exact_set(c.rst_items.t, n, P, q, extra=extra))]

    loops = {0: dict(inv=lambda c: _search_fields._inv0(c)), 1: dict(inv=lambda c: _search_fields._inv1(c))}


@contract("tinyflux.index.Index._search_timestamps")
class _search_timestamps(Contract):
    params = dict(self=IX, query=Q)
    ret = SInt
    theories = ("queries", "time")
    locals = dict(items=SInt)

    @staticmethod
    def requires(c):
        n, P = view_of(c.self)
        f = c.self.t
        return [("view_len", n >= 0)] + repr_time(f["_timestamps"], f["_storage_pos_sorted_by_ts"], n, P) + _elig(c, A_TIME)

    @staticmethod
    def lemmas(c):
        # Tr is universally true: every element asked about in the result is marked, which gives the existential clause time_pos_onto
        # (and the Skolem position below) a term to match on - without it the `!=`/no-match path was decided only by luck of the solver
        i = z3.Int(fresh_name("i"))
        n, _ = view_of(c.self)
        p = c.self.t["_storage_pos_sorted_by_ts"].t
        pinv = z3.Function("position_in_time_order", p.sort(), z3.IntSort(), z3.IntSort())
        t_ = c.self.t["_timestamps"].t
        _, P = view_of(c.self)
        return [("queried_elements_marked", forall([i], S.Tr(i), patterns=[z3.Select(c.result.t, i)])),
                # requires[time_values] once more, triggered by the position list as well (the set-membership witness gives a term pos[j], not ts[j])
                ("time_values_by_position", forall([i], z3.Implies(z3.And(0 <= i, i < n), l_at(t_, i) == ts(P(l_at(p, i)))), patterns=[l_at(p, i)])),
                # conservative: the Skolemised form of requires[time_pos_onto]
                ("skolem_of_time_pos_onto", forall([i], z3.Implies(z3.And(0 <= i, i < n), z3.And(0 <= pinv(p, i), pinv(p, i) < n, l_at(p, pinv(p, i)) == i, S.Tr(pinv(p, i)))),
                                                   patterns=[S.Tr(i)]))]

    @staticmethod
    def ensures(c):
        n, P = view_of(c.self)
        return [("exact", exact_set(c.result.t, n, P, c.query.t))]

    @staticmethod
    def _dup_inv(c, k):
        """results = positions of the timestamps equal to x among the first `match` entries,
        and the entry just before `match` is equal to x (the run is contiguous)."""
        f = c.self.t
        TSl, POS = f["_timestamps"].t, f["_storage_pos_sorted_by_ts"].t
        n, P = view_of(c.self)
        x = dt_ts(q_rhs_dt(c.query.t))
        match = o_val(c.match.t) if isinstance(c.match.ty, TOpt) else c.match.t
        j, i = z3.Int(fresh_name("j")), z3.Int(fresh_name("i"))
        return [
            ("match_is_some", o_is_some(c.match.t) if isinstance(c.match.ty, TOpt) else z3.BoolVal(True)),
            ("run_bounds", z3.And(0 < match, match <= n, l_at(TSl, match - 1) == x)),
            ("results_are_equal_prefix", forall([i], z3.Select(c.results.t, i) == z3.Exists([j], z3.And(0 <= j, j < match, l_at(TSl, j) == x, l_at(POS, j) == i)),
                                                patterns=[z3.Select(c.results.t, i)])),
        ]

    @staticmethod
    def _other_inv(c):
        f = c.self.t
        TSl, POS = f["_timestamps"].t, f["_storage_pos_sorted_by_ts"].t
        n, P = view_of(c.self)
        t = c.loop(2).t
        i, j = z3.Int(fresh_name("i")), z3.Int(fresh_name("j"))
        q = c.query.t
        return [("prefix_exact", forall([i], z3.Select(c.items.t, i) == z3.And(0 <= i, i < n, sem(q, P(i)), z3.Exists([j], z3.And(0 <= j, j < t, l_at(POS, j) == i))),
                                           patterns=[z3.Select(c.items.t, i)]))]

    loops = {
        0: dict(inv=lambda c: _search_timestamps._dup_inv(c, 0), decreases=lambda c: l_len(c.self.t["_timestamps"].t) - (o_val(c.match.t) if isinstance(c.match.ty, TOpt) else c.match.t)),
        1: dict(inv=lambda c: _search_timestamps._dup_inv(c, 1), decreases=lambda c: l_len(c.self.t["_timestamps"].t) - (o_val(c.match.t) if isinstance(c.match.ty, TOpt) else c.match.t)),
        2: dict(inv=lambda c: _search_timestamps._other_inv(c)),
    }
