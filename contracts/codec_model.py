"""Specification vocabulary for the Point <-> CSV row codec (C05), over z3 strings.

Strings are z3 `String` values (exact: concatenation, indexing, slicing, length, equality on
arbitrary Unicode text).  Everything whose meaning lives in C code is an uninterpreted function
with an ASSUMED law (listed in TEXT_LAWS and repeated in the evidence):

  datetime:  iso(naive) / iso_parse        -- datetime.isoformat / fromisoformat on naive values
             naive_of / as_utc             -- .replace(tzinfo=None) / .replace(tzinfo=timezone.utc)
  numbers:   to_float, fstr, fparse        -- float(v), repr of a float, float(text)
             isdigit, int_ok, int_parse    -- str.isdigit, int(text)

The row FORMAT itself (prefixes, "_none", cell positions) is spelled out here from the property
statement, not from the code: `is_tag_cell`, `tag_key`, `dec_tv`, ... ; the real encoder and
decoder are proved against it.
"""

import z3
from pyvc.core import *  # noqa
from pyvc import spec as S
from pyvc.spec import register_class

Str = TString
OStr = TOpt(TString)
TagsC = TDict(TString, OStr)
Num = TU("Num")  # a Python int or float
ONum = TOpt(Num)
FieldsC = TDict(TString, ONum)
CDt = TU("CDt")  # an aware datetime
NDt = TU("NaiveDt")  # a naive datetime (wall-clock fields only)
OCDt = TOpt(CDt)
F64 = TU("F64")  # a float value
Row = TList(TString)
LStr = TList(TString)
CP = TObj("CPoint")

register_class("CPoint", "tinyflux.point", dict(_time=OCDt, _measurement=TString, _tags=TagsC, _fields=FieldsC), props=())
S.CLASSES["CPoint"]["source_class"] = "Point"

_s, _b, _i = z3.StringSort(), z3.BoolSort(), z3.IntSort()
_num, _f, _cdt, _ndt = sort_of(Num), sort_of(F64), sort_of(CDt), sort_of(NDt)

naive_of = z3.Function("naive_of", _cdt, _ndt)
as_utc = z3.Function("as_utc", _ndt, _cdt)
is_utc = z3.Function("is_utc", _cdt, _b)  # tzinfo is UTC (offset 0)
iso = z3.Function("iso", _ndt, _s)
iso_ok = z3.Function("iso_ok", _s, _b)
iso_parse = z3.Function("iso_parse", _s, _ndt)

to_float = z3.Function("to_float", _num, _f)  # float(v)
float_ok = z3.Function("float_ok", _num, _b)  # float(v) does not raise OverflowError
num_of_f = z3.Function("num_of_f", _f, _num)  # the float as a Python number
fstr = z3.Function("fstr", _f, _s)  # str(float) == repr(float)
fparse_ok = z3.Function("fparse_ok", _s, _b)  # float(text) does not raise
fparse = z3.Function("fparse", _s, _f)
isdigit = z3.Function("isdigit", _s, _b)  # str.isdigit
int_ok = z3.Function("int_ok", _s, _b)  # int(text) does not raise
int_parse = z3.Function("int_parse", _s, _num)
num_eq = z3.Function("num_eq", _num, _num, _b)  # Python ==
is_nan = z3.Function("is_nan", _num, _b)
representable = z3.Function("representable", _num, _b)  # a float, or an int that float() represents exactly

NONE_S = z3.StringVal("_none")


def at(s, i):
    return z3.SubString(s, i, 1)


def drop(s, n):
    return z3.SubString(s, n, z3.Length(s) - n)


# ---- the row format, from the property statement -------------------------------------------
TAG_PREFIXES = ("_tag_", "t_")
FIELD_PREFIXES = ("_field_", "f_")


def is_tag_cell(c):
    return z3.Or(*[z3.PrefixOf(z3.StringVal(p), c) for p in TAG_PREFIXES])


def is_field_cell(c):
    return z3.Or(*[z3.PrefixOf(z3.StringVal(p), c) for p in FIELD_PREFIXES])


def tag_key(c):
    return z3.If(z3.PrefixOf(z3.StringVal(TAG_PREFIXES[0]), c), drop(c, len(TAG_PREFIXES[0])), drop(c, len(TAG_PREFIXES[1])))


def field_key(c):
    return z3.If(z3.PrefixOf(z3.StringVal(FIELD_PREFIXES[0]), c), drop(c, len(FIELD_PREFIXES[0])), drop(c, len(FIELD_PREFIXES[1])))


# the four cell codecs are named functions, so that reasoning about row structure (folds, positions) does not have to look inside them;
# their definitions (theory 'codec_cells') are given to the solver only where the cell contents matter
enc_tv = z3.Function("enc_tv", sort_of(OStr), _s)
dec_tv = z3.Function("dec_tv", _s, sort_of(OStr))
enc_fv = z3.Function("enc_fv", sort_of(ONum), _s)
dec_fv = z3.Function("dec_fv", _s, sort_of(ONum))


def enc_tv_def(v):
    """cell of a tag value: '_none' for None, the string itself otherwise"""
    return z3.If(o_is_some(v), o_val(v), NONE_S)


def dec_tv_def(c):
    return z3.If(c == NONE_S, o_none(OStr), o_some(OStr, c))


def enc_fv_def(v):
    """cell of a field value: '_none' for None, the text of float(v) otherwise"""
    return z3.If(o_is_some(v), fstr(to_float(o_val(v))), NONE_S)


def digit_form(c):
    return z3.Or(isdigit(c), z3.And(at(c, 0) == z3.StringVal("-"), isdigit(drop(c, 1))))


def dec_fv_def(c):
    """an integer literal reads as an int, other float text as a float, anything else as None"""
    return z3.If(digit_form(c), o_some(ONum, int_parse(c)), z3.If(fparse_ok(c), o_some(ONum, num_of_f(fparse(c))), o_none(ONum)))


def cell_axioms():
    c = z3.Const("ax_cell", _s)
    tv = z3.Const("ax_tv", sort_of(OStr))
    fv = z3.Const("ax_fv", sort_of(ONum))
    return [forall([tv], enc_tv(tv) == enc_tv_def(tv), patterns=[enc_tv(tv)]), forall([c], dec_tv(c) == dec_tv_def(c), patterns=[dec_tv(c)]),
            forall([fv], enc_fv(fv) == enc_fv_def(fv), patterns=[enc_fv(fv)]), forall([c], dec_fv(c) == dec_fv_def(c), patterns=[dec_fv(c)])]


S.THEORIES["codec_cells"] = cell_axioms()

tagfold = z3.Function("tagfold", sort_of(Row), _i, sort_of(TagsC))  # tags read from the first n tag pairs
fieldfold = z3.Function("fieldfold", sort_of(Row), _i, _i, sort_of(FieldsC))  # fields read from n pairs after nt tag pairs


def d_store(ty, d, k, v):
    return d_mk(ty, z3.Store(d_dom(d), k, True), z3.Store(d_val(d), k, v))


def deq(a, b, veq=None):
    """dict equality: same keys, equal values on them"""
    ksort = d_dom(a).sort().domain()
    k = z3.Const(fresh_name("k"), ksort)
    va, vb = z3.Select(d_val(a), k), z3.Select(d_val(b), k)
    return z3.And(d_dom(a) == d_dom(b), forall([k], z3.Implies(z3.Select(d_dom(a), k), va == vb if veq is None else veq(va, vb)), patterns=[z3.Select(d_dom(a), k)]))


def fold_axioms():
    r = z3.Const("ax_row", sort_of(Row))
    n, nt = z3.Int("ax_n"), z3.Int("ax_nt")
    return [
        forall([r], d_dom(tagfold(r, 0)) == z3.K(_s, False), patterns=[tagfold(r, 0)]),
        forall([r, n], z3.Implies(n > 0, tagfold(r, n) == d_store(TagsC, tagfold(r, n - 1), tag_key(l_at(r, 2 * n)), dec_tv(l_at(r, 2 * n + 1)))),
               patterns=[tagfold(r, n)]),
        forall([r, nt], d_dom(fieldfold(r, nt, 0)) == z3.K(_s, False), patterns=[fieldfold(r, nt, 0)]),
        forall([r, nt, n], z3.Implies(n > 0, fieldfold(r, nt, n) == d_store(FieldsC, fieldfold(r, nt, n - 1), field_key(l_at(r, 2 * (nt + n))), dec_fv(l_at(r, 2 * (nt + n) + 1)))),
               patterns=[fieldfold(r, nt, n)]),
    ]


S.THEORIES["codec_folds"] = fold_axioms()

TEXT_LAWS = [
    "datetime (C): fromisoformat(x.isoformat()) == x for every naive datetime x, and never raises on such text",
    "datetime (C): t.replace(tzinfo=None).replace(tzinfo=timezone.utc) == t when t's tzinfo is UTC",
    "float (C): float(repr(f)) is f for every float f (shortest round-trip repr), and never raises on such text; str(f) == repr(f)",
    "float (C): repr(f) is never empty, never all digits, and never '-' followed by digits only (it contains '.', 'e', 'inf' or 'nan')",
    "float (C): float('_none') raises ValueError; '_none'.isdigit() is False",
    "numbers: float(v) == v for a float v that is not NaN and for an int v that float64 represents exactly (|v| <= 2**53, or a multiple of a suitable power of two); "
    "float(v) raises OverflowError only for ints beyond the float range (not representable)",
]


def text_laws():
    n = z3.Const("ax_nd", _ndt)
    t = z3.Const("ax_cdt", _cdt)
    f = z3.Const("ax_f", _f)
    x = z3.Const("ax_num", _num)
    return [
        forall([n], z3.And(iso_ok(iso(n)), iso_parse(iso(n)) == n), patterns=[iso(n)]),
        forall([t], z3.Implies(is_utc(t), as_utc(naive_of(t)) == t), patterns=[naive_of(t)]),
        forall([f], z3.And(fparse_ok(fstr(f)), fparse(fstr(f)) == f, z3.Not(isdigit(fstr(f))), z3.Length(fstr(f)) >= 1,
                           z3.Implies(at(fstr(f), 0) == z3.StringVal("-"), z3.Not(isdigit(drop(fstr(f), 1))))), patterns=[fstr(f)]),
        z3.Not(fparse_ok(NONE_S)), z3.Not(isdigit(NONE_S)),
        forall([x], z3.Implies(representable(x), z3.And(float_ok(x), num_eq(num_of_f(to_float(x)), x))), patterns=[to_float(x)]),
    ]


S.THEORIES["codec_text"] = text_laws()


# ---- points ---------------------------------------------------------------------------------
def stored_point(p):
    """a point as the database stores it: time present and UTC-normalised (C08), no NaN field value"""
    k = z3.Const(fresh_name("k"), _s)
    fl = p.t["_fields"].t
    v = z3.Select(d_val(fl), k)
    return [("time_set", o_is_some(p.t["_time"].t)), ("time_is_utc", is_utc(o_val(p.t["_time"].t))),
            ("no_nan_field", forall([k], z3.Implies(z3.And(z3.Select(d_dom(fl), k), o_is_some(v)), z3.Not(is_nan(o_val(v)))), patterns=[z3.Select(d_dom(fl), k)]))]
