"""Models of Python values that are not plain containers: abstract points,
datetimes, queries.  Registered into the executor's extension tables."""

import z3
from pyvc.core import *  # noqa
from pyvc.verify import Exec
from .model import *  # noqa

# ---- points (immutable view, used by index and read paths)
Exec.attr_handlers[("Pt", "measurement")] = lambda ex, p, node, st: Val(TStr, meas(p.t))
Exec.attr_handlers[("Pt", "tags")] = lambda ex, p, node, st: tags_of(p.t)
Exec.attr_handlers[("Pt", "fields")] = lambda ex, p, node, st: fields_of(p.t)
Exec.attr_handlers[("Pt", "time")] = lambda ex, p, node, st: Val(Dt, time_of(p.t))
Exec.truthy_handlers["Dt"] = lambda ex, v: z3.BoolVal(True)
Exec.method_handlers[("Dt", "timestamp")] = lambda ex, v, node, st, rn: Val(TReal, dt_ts(v.t))

# ---- query objects (abstract; DESIGN 3.2)
import ast as _ast
from pyvc.core import Unsupported


def _q_isinstance(ex, v, names, node, st):
    cs = []
    if "SimpleQuery" in names:
        cs.append(q_kind(v.t) == 0)
    if "CompoundQuery" in names:
        cs.append(q_kind(v.t) == 1)
    if not cs:
        return z3.BoolVal(False)
    return z3.Or(*cs)


Exec.isinstance_handlers["Q"] = _q_isinstance
Exec.attr_handlers[("Q", "operator")] = lambda ex, v, node, st: Val(Op, q_op(v.t))
Exec.attr_handlers[("Q", "_operator")] = lambda ex, v, node, st: Val(Op, q_op(v.t))
Exec.attr_handlers[("Q", "query1")] = lambda ex, v, node, st: Val(Q, q_q1(v.t))
Exec.attr_handlers[("Q", "point_attr")] = lambda ex, v, node, st: Val(TStr, q_attr(v.t))
Exec.attr_handlers[("Q", "_point_attr")] = lambda ex, v, node, st: Val(TStr, q_attr(v.t))
Exec.attr_handlers[("Q", "_rhs")] = lambda ex, v, node, st: Val(Dt, q_rhs_dt(v.t))
Exec.attr_handlers[("Q", "_hash")] = lambda ex, v, node, st: Val(TU("H"), z3.Function("q_hashv", sort_of(Q), sort_of(TU("H")))(v.t))
Exec.truthy_handlers["Q"] = lambda ex, v: z3.BoolVal(True)  # query classes define neither __bool__ nor __len__
QOPT = TOpt(Q)
Exec.attr_handlers[("Q", "query2")] = lambda ex, v, node, st: Val(QOPT, z3.If(q_has2(v.t), o_some(QOPT, q_q2(v.t)), o_none(QOPT)))
for _n, _c in OPS.items():
    Exec.global_values["operator." + _n] = (lambda c: (lambda ex, st: Val(Op, c)))(_c)


def inject(ex, v, node):
    k = v.ty.key
    if k == "UV":
        return v.t
    if v.ty == TStr:
        return uv_str(v.t)
    if v.ty == TagV:
        return uv_tagv(v.t)
    if v.ty == FldV:
        return uv_fldv(v.t)
    if v.ty == TReal:
        return uv_fldv(o_some(FldV, v.t))
    if v.ty == Dt:
        return uv_dt(v.t)
    raise Unsupported("value of type %s passed to a query function" % v.ty, node)


def _q_test(ex, recv, node, st, rn):
    (a,) = [ex.eval(x, st) for x in node.args]
    return Val(TBool, q_test(recv.t, inject(ex, a, node)))


def _q_path(ex, recv, node, st, rn):
    (an,) = node.args
    if isinstance(an, _ast.Dict) and len(an.keys) == 1:
        k = ex.coerce(ex.eval(an.keys[0], st), TStr, node)
        v = inject(ex, ex.eval(an.values[0], st), node)
        ex.hazard("UserError", z3.Not(q_path1_raises(recv.t, k.t, v)), node, "path resolver raises")
        return Val(UV, q_path1(recv.t, k.t, v))
    v = inject(ex, ex.eval(an, st), node)
    ex.hazard("UserError", z3.Not(q_path0_raises(recv.t, v)), node, "path resolver raises")
    return Val(UV, q_path0(recv.t, v))


Exec.method_handlers[("Q", "_test")] = _q_test
Exec.method_handlers[("Q", "_path_resolver")] = _q_path

# ---- datetime conversions used by the index
def _fromtimestamp(ex, node, st):
    (a,) = [ex.eval(x, st) for x in node.args]
    return Val(Dt, dt_from_ts(ex.coerce(a, TReal, node).t))


Exec.global_calls["datetime.datetime.fromtimestamp"] = _fromtimestamp
Exec.global_values["datetime.timezone.utc"] = lambda ex, st: Val(TU("Tz"), z3.Const("tz_utc", sort_of(TU("Tz"))))
Exec.method_handlers[("Dt", "astimezone")] = lambda ex, v, node, st, rn: Val(Dt, dt_utc(v.t))

# ---- database level: storage iteration, query construction and evaluation
from .db_model import *  # noqa


def _iter_storage(ex, v, s, st):
    items = v.t["items"]
    # reading storage may fail at any row (C13): every loop over a storage has an exceptional edge 'ReadFault' at an arbitrary iteration
    return l_len(items.t), items, (lambda j: Val(Item, l_at(items.t, j))), {"fallible": "ReadFault"}


Exec.iter_handlers["Obj_Storage"] = _iter_storage
Exec.listof_handlers["Obj_Storage"] = lambda ex, v, node, st: v.t["items"]



def db_query_axioms():
    a, b = z3.Const("ax_a", sort_of(Q)), z3.Const("ax_b", sort_of(Q))
    m = z3.Const("ax_m", sort_of(TStr))
    p = z3.Const("ax_p2", sort_of(Pt))
    x = q_and(a, b)
    y = q_meas_eq(m)
    return [
        forall([a, b], z3.And(q_kind(x) == 1, q_op(x) == OPS["and_"], q_q1(x) == a, q_q2(x) == b, q_has2(x),
                              wfq(x) == z3.And(wfq(a), wfq(b))), patterns=[q_and(a, b)]),
        forall([m], z3.And(q_kind(y) == 0, wfq(y), q_hash_truthy(y), q_attr(y) == A_MEAS, q_op(y) == OPS["eq"]), patterns=[q_meas_eq(m)]),
        forall([m, p], sem(y, p) == (meas(p) == m), patterns=[sem(y, p)]),
        forall([m], z3.And(q_kind(q_meas_ne(m)) == 0, wfq(q_meas_ne(m)), q_hash_truthy(q_meas_ne(m)), q_attr(q_meas_ne(m)) == A_MEAS, q_op(q_meas_ne(m)) == OPS["ne"]), patterns=[q_meas_ne(m)]),
        forall([m, p], sem(q_meas_ne(m), p) == (meas(p) != m), patterns=[sem(q_meas_ne(m), p)]),
    ]


S.THEORIES["dbqueries"] = db_query_axioms()

BaseMQ = TU("MeasurementQueryBase")
Exec.global_calls["tinyflux.queries.MeasurementQuery"] = lambda ex, node, st: Val(BaseMQ, z3.Const("MeasurementQuery()", sort_of(BaseMQ)))


def _mq_eq(ex, a, b, node, st):
    if a.ty != BaseMQ:
        a, b = b, a
    m = ex.coerce(b, TStr, node, "MeasurementQuery comparison value")
    return q_meas_eq(m.t)


def _mq_compare(ex, a, b, node, st):
    return _mq_eq(ex, a, b, node, st)


# `MeasurementQuery() == m` evaluates to a query object, not a bool
_orig_compare = Exec.compare


def _compare(self, op, a, b, node, st):
    if isinstance(op, _ast.Eq) and (a.ty == BaseMQ or b.ty == BaseMQ):
        raise _QueryValue(Val(Q, _mq_eq(self, a, b, node, st)))
    if isinstance(op, _ast.NotEq) and (a.ty == BaseMQ or b.ty == BaseMQ):
        other = b if a.ty == BaseMQ else a
        raise _QueryValue(Val(Q, q_meas_ne(self.coerce(other, TStr, node, "MeasurementQuery comparison value").t)))
    return _orig_compare(self, op, a, b, node, st)


class _QueryValue(Exception):
    def __init__(self, val):
        self.val = val


_orig_e_compare = Exec.e_Compare


def _e_compare(self, node, st):
    try:
        return _orig_e_compare(self, node, st)
    except _QueryValue as q:
        return q.val


Exec.compare = _compare
Exec.e_Compare = _e_compare
Exec.binop_handlers[("BitAnd", "Q", "Q")] = lambda ex, a, b, node, st: Val(Q, q_and(a.t, b.t))


def _q_call(ex, q, node, st):
    (a,) = [ex.eval(x, st) for x in node.args]
    if a.ty != Pt:
        raise Unsupported("query called on %s" % a.ty, node)
    return Val(TBool, sem(q.t, a.t))


Exec.call_handlers["Q"] = _q_call

# ---- sort keys: (x.time is None, x.time) orders by instant (ASSUMED, DESIGN 4.3: aware datetimes compare by instant)
_KT = TTuple([TBool, Dt])
Exec.sortkey_handlers[_KT.key] = lambda ex, k: Val(TReal, z3.If(t_get(k.t, 0), dt_ts(t_get(k.t, 1)) + 1e18, dt_ts(t_get(k.t, 1))))
Exec.isnone_handlers["Dt"] = lambda ex, v: z3.BoolVal(False)
Exec.isnone_handlers["Pt"] = lambda ex, v: z3.BoolVal(False)
Exec.method_handlers[("Dt", "replace")] = lambda ex, v, node, st, rn: Val(Dt, z3.Function("dt_replace_tz", sort_of(Dt), sort_of(Dt))(v.t))
Exec.truthy_handlers["Pt"] = lambda ex, v: z3.BoolVal(True)
Exec.method_handlers[("HandleCache", "clear")] = lambda ex, v, node, st, rn: ex._mutate(rn, Val(Cache, z3.Const("empty_handle_cache", sort_of(Cache))), st, node)
# the handle cache of TinyFlux is abstract: membership is unconstrained, deletion keeps it abstract
Exec.contains_handlers["HandleCache"] = lambda ex, cont, x, node, st: z3.Const(fresh_name("in_handle_cache"), z3.BoolSort())
Exec.delitem_handlers["HandleCache"] = lambda ex, t, base, st: ex.assign_to(t.value, Val(Cache, z3.Const(fresh_name("handle_cache"), sort_of(Cache))), st)

# ---- mutable points (insert path): records bound from AnyObj elements


def _iter_anyobj_list(ex, v, s, st):
    def elem(j):
        o = l_at(v.t, j)
        return Val(MP, dict(_time=Val(ODt, mp_time(o)), _measurement=Val(TStr, mp_meas(o)), _tags=Val(TagsD, mp_tags(o)),
                            _fields=Val(FldsD, mp_fields(o)), _is_point=Val(TBool, is_point(o))))
    return l_len(v.t), v, elem, {}


Exec.iter_handlers[LAny.key] = _iter_anyobj_list
S.CLASSES["MPoint"]["isinstance"] = lambda ex, v, names: v.t["_is_point"].t if "Point" in names else z3.BoolVal(False)
def _mp_as_value(ex, v, node):
    ex.hazard("TypeError", o_is_some(v.t["_time"].t), node, "point.time is None")
    return Val(Pt, pt_of(v))


S.CLASSES["MPoint"]["as_value"] = _mp_as_value
Exec.global_calls["datetime.datetime.now"] = lambda ex, node, st: Val(Dt, now_utc(z3.IntVal(0)))
Exec.truthy_handlers["Tz"] = lambda ex, v: z3.BoolVal(True)


def _dt_cmp(ex, op, a, b, node, st):
    x, y = dt_ts(a.t), dt_ts(b.t)
    return {_ast.Lt: x < y, _ast.LtE: x <= y, _ast.Gt: x > y, _ast.GtE: x >= y}[type(op)]


Exec.cmp_handlers[("Dt", "Dt")] = _dt_cmp
Exec.isinstance_handlers["Dt"] = lambda ex, v, names, node, st: z3.BoolVal("datetime" in names)

# ---- the updater closure: perform_update(point) mutates its argument and reports whether it changed
def _call_updater(ex, u, node, st):
    (an,) = node.args
    p = ex.eval(an, st)
    if p.ty != Pt:
        raise Unsupported("perform_update on %s" % p.ty, node)
    ex.hazard("UserError", z3.Not(upd_raises(u.t, p.t)), node, "update callable / validation raises")
    new = Val(Pt, upd_result(u.t, p.t))
    if node is not ex.root_call:
        raise Unsupported("perform_update must be the root call of a statement", node)
    ex.assign_to(an, new, st, check_owned=False)
    return Val(TBool, new.t != p.t)


Exec.call_handlers["Updater"] = _call_updater
Exec.truthy_handlers["AnyV"] = lambda ex, v: z3.Function("av_truthy", sort_of(AnyV), z3.BoolSort())(v.t)

# ---- None passed where an opaque update argument is expected; noop queries
Exec.coercions.setdefault("AnyV", {})["None"] = lambda ex, v: Val(AnyV, AV_NONE)
BaseTQ = TU("TagQueryBase")
Exec.global_calls["tinyflux.queries.TagQuery"] = lambda ex, node, st: Val(BaseTQ, z3.Const("TagQuery()", sort_of(BaseTQ)))
Exec.method_handlers[("TagQueryBase", "noop")] = lambda ex, v, node, st, rn: Val(Q, q_noop_tags)
Exec.method_handlers[("MeasurementQueryBase", "noop")] = lambda ex, v, node, st, rn: Val(Q, q_noop_meas)


def noop_axioms():
    p = z3.Const("ax_p3", sort_of(Pt))
    out = []
    for q_, attr in ((q_noop_tags, A_TAGS), (q_noop_meas, A_MEAS)):
        out += [z3.And(q_kind(q_) == 0, wfq(q_), z3.Not(q_hash_truthy(q_)), q_attr(q_) == attr), forall([p], sem(q_, p), patterns=[sem(q_, p)])]
    return out


S.THEORIES["dbqueries"] = S.THEORIES["dbqueries"] + noop_axioms()
