"""Models of Python values that are not plain containers: abstract points,
datetimes, queries.  Registered into the executor's extension tables."""

import z3
from pyvc.core import *  # noqa
from pyvc.verify import Exec
from .model import *  # noqa

# ---- points (immutable view, used by index and read paths)
Exec.attr_handlers[("Pt", "measurement")] = lambda ex, p, node, st: Val(TStr, meas(p.t))
Exec.attr_handlers[("Pt", "tags")] = lambda ex, p, node, st: tags_of(p.t)
Exec.attr_handlers[("Pt", "fields")] = lambda ex, p, node, st: fields_of(p.t)
Exec.attr_handlers[("Pt", "time")] = lambda ex, p, node, st: Val(Dt, time_of(p.t))
Exec.truthy_handlers["Dt"] = lambda ex, v: z3.BoolVal(True)
Exec.method_handlers[("Dt", "timestamp")] = lambda ex, v, node, st, rn: Val(TReal, dt_ts(v.t))
