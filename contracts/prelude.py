"""Models of Python values that are not plain containers: abstract points,
datetimes, queries.  Registered into the executor's extension tables."""

import z3
from pyvc.core import *  # noqa
from pyvc.verify import Exec
from .model import *  # noqa

# ---- points (immutable view, used by index and read paths)
Exec.attr_handlers[("Pt", "measurement")] = lambda ex, p, node, st: Val(TStr, meas(p.t))
Exec.attr_handlers[("Pt", "tags")] = lambda ex, p, node, st: tags_of(p.t)
Exec.attr_handlers[("Pt", "fields")] = lambda ex, p, node, st: fields_of(p.t)
Exec.attr_handlers[("Pt", "time")] = lambda ex, p, node, st: Val(Dt, time_of(p.t))
Exec.truthy_handlers["Dt"] = lambda ex, v: z3.BoolVal(True)
Exec.method_handlers[("Dt", "timestamp")] = lambda ex, v, node, st, rn: Val(TReal, dt_ts(v.t))

# ---- query objects (abstract; DESIGN 3.2)
import ast as _ast
from pyvc.core import Unsupported


def _q_isinstance(ex, v, names, node, st):
    cs = []
    if "SimpleQuery" in names:
        cs.append(q_kind(v.t) == 0)
    if "CompoundQuery" in names:
        cs.append(q_kind(v.t) == 1)
    if not cs:
        return z3.BoolVal(False)
    return z3.Or(*cs)


Exec.isinstance_handlers["Q"] = _q_isinstance
Exec.attr_handlers[("Q", "operator")] = lambda ex, v, node, st: Val(Op, q_op(v.t))
Exec.attr_handlers[("Q", "_operator")] = lambda ex, v, node, st: Val(Op, q_op(v.t))
Exec.attr_handlers[("Q", "query1")] = lambda ex, v, node, st: Val(Q, q_q1(v.t))
Exec.attr_handlers[("Q", "point_attr")] = lambda ex, v, node, st: Val(TStr, q_attr(v.t))
Exec.attr_handlers[("Q", "_point_attr")] = lambda ex, v, node, st: Val(TStr, q_attr(v.t))
Exec.attr_handlers[("Q", "_rhs")] = lambda ex, v, node, st: Val(Dt, q_rhs_dt(v.t))
Exec.attr_handlers[("Q", "_hash")] = lambda ex, v, node, st: Val(TU("QHash"), v.t)
Exec.truthy_handlers["QHash"] = lambda ex, v: q_hash_truthy(v.t)
Exec.truthy_handlers["Q"] = lambda ex, v: z3.BoolVal(True)  # query classes define neither __bool__ nor __len__
QOPT = TOpt(Q)
Exec.attr_handlers[("Q", "query2")] = lambda ex, v, node, st: Val(QOPT, z3.If(q_has2(v.t), o_some(QOPT, q_q2(v.t)), o_none(QOPT)))
for _n, _c in OPS.items():
    Exec.global_values["operator." + _n] = (lambda c: (lambda ex, st: Val(Op, c)))(_c)


def inject(ex, v, node):
    k = v.ty.key
    if k == "UV":
        return v.t
    if v.ty == TStr:
        return uv_str(v.t)
    if v.ty == TagV:
        return uv_tagv(v.t)
    if v.ty == FldV:
        return uv_fldv(v.t)
    if v.ty == TReal:
        return uv_fldv(o_some(FldV, v.t))
    if v.ty == Dt:
        return uv_dt(v.t)
    raise Unsupported("value of type %s passed to a query function" % v.ty, node)


def _q_test(ex, recv, node, st, rn):
    (a,) = [ex.eval(x, st) for x in node.args]
    return Val(TBool, q_test(recv.t, inject(ex, a, node)))


def _q_path(ex, recv, node, st, rn):
    (an,) = node.args
    if isinstance(an, _ast.Dict) and len(an.keys) == 1:
        k = ex.coerce(ex.eval(an.keys[0], st), TStr, node)
        v = inject(ex, ex.eval(an.values[0], st), node)
        ex.hazard("UserError", z3.Not(q_path1_raises(recv.t, k.t, v)), node, "path resolver raises")
        return Val(UV, q_path1(recv.t, k.t, v))
    v = inject(ex, ex.eval(an, st), node)
    ex.hazard("UserError", z3.Not(q_path0_raises(recv.t, v)), node, "path resolver raises")
    return Val(UV, q_path0(recv.t, v))


Exec.method_handlers[("Q", "_test")] = _q_test
Exec.method_handlers[("Q", "_path_resolver")] = _q_path

# ---- datetime conversions used by the index
def _fromtimestamp(ex, node, st):
    (a,) = [ex.eval(x, st) for x in node.args]
    return Val(Dt, dt_from_ts(ex.coerce(a, TReal, node).t))


Exec.global_calls["datetime.datetime.fromtimestamp"] = _fromtimestamp
Exec.global_values["datetime.timezone.utc"] = lambda ex, st: Val(TU("Tz"), z3.Const("tz_utc", sort_of(TU("Tz"))))
Exec.method_handlers[("Dt", "astimezone")] = lambda ex, v, node, st, rn: Val(Dt, dt_utc(v.t))
