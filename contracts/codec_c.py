"""Contracts for the Point <-> CSV row codec in tinyflux/point.py (C05), in string mode."""

import ast
import z3
from pyvc.core import *  # noqa
from pyvc import spec as S
from pyvc.spec import contract, Contract
from pyvc.verify import Exec
from .codec_model import *  # noqa

_PT = "tinyflux.point.Point."
ALIASES = {"TagSet": TagsC, "FieldSet": FieldsC}

# ---- library calls on the abstract sorts --------------------------------------------------------
Exec.truthy_handlers["CDt"] = lambda ex, v: z3.BoolVal(True)  # datetime objects are always truthy


def _kw_tzinfo(ex, node):
    if node.args or len(node.keywords) != 1 or node.keywords[0].arg != "tzinfo":
        raise Unsupported("datetime.replace with other arguments than tzinfo=", node)
    v = node.keywords[0].value
    if isinstance(v, ast.Constant) and v.value is None:
        return None
    if ex.dotted(v) in ("datetime.timezone.utc", "timezone.utc"):
        return "utc"
    raise Unsupported("datetime.replace(tzinfo=<not None/timezone.utc>)", node)


def _cdt_replace(ex, v, node, st, rn):
    if _kw_tzinfo(ex, node) is None:
        return Val(NDt, naive_of(v.t))
    raise Unsupported("aware.replace(tzinfo=utc)", node)


def _ndt_replace(ex, v, node, st, rn):
    if _kw_tzinfo(ex, node) == "utc":
        return Val(CDt, as_utc(v.t))
    return v


Exec.method_handlers[("CDt", "replace")] = _cdt_replace
Exec.method_handlers[("NaiveDt", "replace")] = _ndt_replace
Exec.method_handlers[("NaiveDt", "isoformat")] = lambda ex, v, node, st, rn: Val(TString, iso(v.t))
Exec.method_handlers[("String", "isdigit")] = lambda ex, v, node, st, rn: Val(TBool, isdigit(v.t))


def _fromiso(ex, node, st):
    (a,) = [ex.eval(x, st) for x in node.args]
    if a.ty != TString:
        raise Unsupported("fromisoformat of %s" % a.ty, node)
    ex.hazard("ValueError", iso_ok(a.t), node, "datetime.fromisoformat")
    return Val(NDt, iso_parse(a.t))


_prev_fromiso = Exec.global_calls.get("datetime.datetime.fromisoformat")
Exec.global_calls["datetime.datetime.fromisoformat"] = lambda ex, node, st: _fromiso(ex, node, st) if ex.string_mode else _prev_fromiso(ex, node, st)


def _float_of_num(ex, x, node, st):
    ex.hazard("OverflowError", float_ok(x.t), node, "float(int too large)")
    return Val(F64, to_float(x.t))


def _float_of_str(ex, x, node, st):
    ex.hazard("ValueError", fparse_ok(x.t), node, "float(text)")
    return Val(Num, num_of_f(fparse(x.t)))


def _int_of_str(ex, x, node, st):
    ex.hazard("ValueError", int_ok(x.t), node, "int(text)")
    return Val(Num, int_parse(x.t))


Exec.conv_handlers[("float", "Num")] = _float_of_num
Exec.conv_handlers[("float", "String")] = _float_of_str
Exec.conv_handlers[("int", "String")] = _int_of_str
Exec.conv_handlers[("str", "F64")] = lambda ex, x, node, st: Val(TString, fstr(x.t))


# ---- the encoder -------------------------------------------------------------------------------
def _prefixes(compact):
    tpre = z3.If(compact, z3.StringVal(TAG_PREFIXES[1]), z3.StringVal(TAG_PREFIXES[0]))
    fpre = z3.If(compact, z3.StringVal(FIELD_PREFIXES[1]), z3.StringVal(FIELD_PREFIXES[0]))
    return tpre, fpre


def tag_pair(row, p, compact, tk, j):
    """the j-th tag pair of the row: prefixed key cell, value cell"""
    tags = p.t["_tags"].t
    return z3.And(l_at(row, 2 + 2 * j) == z3.Concat(_prefixes(compact)[0], l_at(tk, j)),
                  l_at(row, 3 + 2 * j) == enc_tv(z3.Select(d_val(tags), l_at(tk, j))))


def field_pair(row, p, compact, tk, fk, j):
    fields = p.t["_fields"].t
    nt = l_len(tk)
    return z3.And(l_at(row, 2 + 2 * nt + 2 * j) == z3.Concat(_prefixes(compact)[1], l_at(fk, j)),
                  l_at(row, 3 + 2 * nt + 2 * j) == enc_fv(z3.Select(d_val(fields), l_at(fk, j))))


def layout(row, p, compact, tk, fk):
    """row = [iso(time), measurement, (tag prefix + key, value cell)*, (field prefix + key, value cell)*]
    with the tags in the order tk and the fields in the order fk (C05 'row layout')."""
    j = z3.Int(fresh_name("j"))
    nt, nf = l_len(tk), l_len(fk)
    return [
        ("length", l_len(row) == 2 + 2 * nt + 2 * nf),
        ("time_cell", l_at(row, 0) == iso(naive_of(o_val(p.t["_time"].t)))),
        ("tag_cells", forall([j], z3.Implies(z3.And(0 <= j, j < nt), tag_pair(row, p, compact, tk, j)), patterns=[l_at(tk, j)])),
        ("field_cells", forall([j], z3.Implies(z3.And(0 <= j, j < nf), field_pair(row, p, compact, tk, fk, j)), patterns=[l_at(fk, j)])),
    ]


def enumerates(keys, pos, d):
    """keys lists the key set of d exactly once each; pos is the position of a key"""
    j = z3.Int(fresh_name("j"))
    k = z3.Const(fresh_name("k"), z3.StringSort())
    n = l_len(keys)
    return z3.And(
        forall([j], z3.Implies(z3.And(0 <= j, j < n), z3.And(z3.Select(d_dom(d), l_at(keys, j)), pos(l_at(keys, j)) == j)), patterns=[l_at(keys, j)]),
        forall([k], z3.Implies(z3.Select(d_dom(d), k), z3.And(0 <= pos(k), pos(k) < n, l_at(keys, pos(k)) == k)), patterns=[z3.Select(d_dom(d), k)]),
        forall([k], z3.Implies(z3.Select(d_dom(d), k), z3.And(0 <= pos(k), pos(k) < n, l_at(keys, pos(k)) == k)), patterns=[pos(k)]))


@contract(_PT + "_serialize_to_list")
class _ser(Contract):
    """C05 encoder: the row layout of a stored point, for both prefix styles"""
    params = dict(self=CP, compact_key_prefixes=TBool)
    defaults = {"compact_key_prefixes": lambda ex: Val(TBool, z3.BoolVal(False))}
    ret = Row
    string_mode = True
    type_aliases = ALIASES
    theories = ("codec_text", "codec_cells")
    modifies = ()
    witness_sig = {"tk": ([], LStr), "tpos": ([TString], TInt), "fk": ([], LStr), "fpos": ([TString], TInt)}

    @staticmethod
    def requires(c):
        return stored_point(c.self)

    @staticmethod
    def witness(c):
        its = c.ghost.get("dict_iters", [])
        if len(its) != 2:
            raise Unsupported("encoder: expected exactly two dict iterations (tags, fields), found %d" % len(its))
        (a, b) = its
        return {"tk": lambda: a["keys"].t, "tpos": a["idx"], "fk": lambda: b["keys"].t, "fpos": b["idx"]}

    @staticmethod
    def ensures(c):
        w = c.wit
        tk, fk = w["tk"](), w["fk"]()
        m = c.self.t["_measurement"].t
        row = c.result.t
        out = layout(row, c.self, c.compact_key_prefixes.t, tk, fk)
        out += [("tags_enumerated", enumerates(tk, w["tpos"], c.self.t["_tags"].t)),
                ("fields_enumerated", enumerates(fk, w["fpos"], c.self.t["_fields"].t)),
                # the measurement cell is the measurement: split so that the one known failing input ("" is written as "_none", KF-16) has its own obligation
                ("measurement_cell_nonempty", z3.Implies(z3.Length(m) > 0, l_at(row, 1) == m)),
                ("measurement_cell_empty", z3.Implies(z3.Length(m) == 0, l_at(row, 1) == m))]
        return out


# ---- the decoder -------------------------------------------------------------------------------
def wf_row(row, nt, j0=None):
    """a row in the format: time and measurement cells, nt tag pairs, then field pairs (either prefix style per cell);
    with j0 given, the universally quantified clauses are stated for that one (arbitrary) cell index instead"""
    j = z3.Int(fresh_name("j")) if j0 is None else j0
    forall = (lambda vs, body, patterns=None: body) if j0 is not None else globals()["forall"]
    n = l_len(row)
    npairs = z3.Int(fresh_name("npairs"))
    return [
        ("shape", z3.And(nt >= 0, n >= 2 + 2 * nt, (n - 2) % 2 == 0)),
        ("time_cell_parses", iso_ok(l_at(row, 0))),
        ("tag_cells", forall([j], z3.Implies(z3.And(2 <= j, j < 2 + 2 * nt, j % 2 == 0), is_tag_cell(l_at(row, j))), patterns=[l_at(row, j)])),
        ("field_cells", forall([j], z3.Implies(z3.And(2 + 2 * nt <= j, j < n, j % 2 == 0), is_field_cell(l_at(row, j))), patterns=[l_at(row, j)])),
        ("field_values_readable", forall([j], z3.Implies(z3.And(2 + 2 * nt <= j, j < n, j % 2 == 1), z3.And(
            z3.Length(l_at(row, j)) >= 1, z3.Implies(digit_form(l_at(row, j)), int_ok(l_at(row, j))))), patterns=[l_at(row, j)])),
    ]


@contract(_PT + "_deserialize_from_list")
class _des(Contract):
    """C05 decoder: reads exactly what the format says (tag pairs by prefix, then field pairs; '_none' is None; integer text is an int, float text a float)"""
    params = dict(self=CP, row=Row, _ghost_nt=TInt)
    ret = CP
    string_mode = True
    type_aliases = ALIASES
    theories = ("codec_folds", "codec_cells")
    modifies = ("_time", "_measurement", "_tags", "_fields")

    @staticmethod
    def requires(c):
        return wf_row(c.row.t, c._ghost_nt.t)

    @staticmethod
    def decoded(c, p):
        row, nt = c.row.t, c._ghost_nt.t
        nf = (l_len(row) - 2 - 2 * nt) / 2
        return [("time", z3.And(o_is_some(p.t["_time"].t), o_val(p.t["_time"].t) == as_utc(iso_parse(l_at(row, 0))))),
                ("measurement", p.t["_measurement"].t == l_at(row, 1)),
                ("tags", deq(p.t["_tags"].t, tagfold(row, nt))),
                ("fields", deq(p.t["_fields"].t, fieldfold(row, nt, nf)))]

    @staticmethod
    def ensures(c):
        return _des.decoded(c, c.self) + [("returns_self:" + l, f) for l, f in _des.decoded(c, c.result)]

    @staticmethod
    def _inv0(c):
        t = c.loop(0).t
        return [("i", c.i.t == 2 + 2 * t), ("t_le_nt", t <= c._ghost_nt.t), ("row_len", c.row_len.t == l_len(c.row.t)),
                ("tags_so_far", deq(c.p_tags.t, tagfold(c.row.t, t))), ("no_fields_yet", d_dom(c.p_fields.t) == z3.K(z3.StringSort(), False))]

    @staticmethod
    def _inv1(c):
        t = c.loop(1).t
        nt = c._ghost_nt.t
        return [("i", c.i.t == 2 + 2 * nt + 2 * t), ("in_range", c.i.t <= l_len(c.row.t)), ("row_len", c.row_len.t == l_len(c.row.t)),
                ("tags_done", deq(c.p_tags.t, tagfold(c.row.t, nt))), ("fields_so_far", deq(c.p_fields.t, fieldfold(c.row.t, nt, t)))]

    loops = {0: dict(inv=lambda c: _des._inv0(c), decreases=lambda c: c.row_len.t - c.i.t),
             1: dict(inv=lambda c: _des._inv1(c), decreases=lambda c: c.row_len.t - c.i.t)}


# ---- CSVStorage's one-line forwarders to the codec (storages.py) ---------------------------------
from .io_model import CSV as _CSV  # the CSVStorage class model (its file-system ghost fields are irrelevant here and framed out)
_CSQ = "tinyflux.storages.CSVStorage."
KW = TDict(TString, TBool)
_prev_point_ctor = Exec.global_calls.get("tinyflux.point.Point")


def _new_cpoint(ex, node, st):
    """Point() in string mode: a fresh point object (the decoder overwrites all four attributes)"""
    if node.args or node.keywords:
        raise Unsupported("Point(...) with arguments in string mode", node)
    return fresh(CP, "new_point", ex.classes_fields())


Exec.global_calls["tinyflux.point.Point"] = lambda ex, node, st: _new_cpoint(ex, node, st) if ex.string_mode else (_prev_point_ctor(ex, node, st) if _prev_point_ctor else ex.construct("tinyflux.point.Point", node, st))


@contract(_CSQ + "_serialize_point")
class _csv_serialize_point(Contract):
    """C05: the stored item of a point is the encoder's row, with the compact prefixes exactly when the keyword asks for them"""
    params = dict(self=_CSV, point=CP, args=TU("Opaque"), kwargs=KW)
    ret = Row
    string_mode = True
    modifies = ()
    theories = ("codec_text", "codec_cells")
    witness_sig = _ser.witness_sig

    @staticmethod
    def requires(c):
        return stored_point(c.point)

    class _V:
        def __init__(self, c):
            self._c = c
            self.self = c.point
            kw = (c.old if getattr(c, "old", None) is not None else c).kwargs.t
            key = z3.StringVal("compact_key_prefixes")
            self.compact_key_prefixes = Val(TBool, z3.And(z3.Select(d_dom(kw), key), z3.Select(d_val(kw), key)))

        def __getattr__(self, n):
            return getattr(self._c, n)

    @staticmethod
    def witness(c):
        return c.ghost.get("wit:" + _PT + "_serialize_to_list")

    @staticmethod
    def ensures(c):
        return _ser.ensures(_csv_serialize_point._V(c))


@contract(_CSQ + "_deserialize_storage_item")
class _csv_deserialize_item(Contract):
    """C05: reading an item back is the decoder applied to the row"""
    params = dict(self=_CSV, row=Row, _ghost_nt=TInt)
    ret = CP
    string_mode = True
    modifies = ()
    theories = ("codec_folds", "codec_cells")

    @staticmethod
    def requires(c):
        return wf_row(c.row.t, c._ghost_nt.t)

    @staticmethod
    def ensures(c):
        return _des.decoded(c, c.result)


@contract(_CSQ + "_deserialize_measurement")
class _csv_deserialize_measurement(Contract):
    """the measurement cell of the row (cell 1): what the decoder reads as the measurement"""
    params = dict(self=_CSV, row=Row)
    ret = TString
    string_mode = True
    modifies = ()

    @staticmethod
    def requires(c):
        return [("has_cells", l_len(c.row.t) >= 2)]

    @staticmethod
    def ensures(c):
        return [("measurement_cell", c.result.t == l_at(c.row.t, 1))]


@contract(_CSQ + "_deserialize_timestamp")
class _csv_deserialize_timestamp(Contract):
    """the time cell of the row (cell 0) parsed as a naive datetime: marking it UTC gives the decoder's time"""
    params = dict(self=_CSV, row=Row)
    ret = NDt
    string_mode = True
    modifies = ()

    @staticmethod
    def requires(c):
        return [("has_cells", l_len(c.row.t) >= 1), ("time_cell_parses", iso_ok(l_at(c.row.t, 0)))]

    @staticmethod
    def ensures(c):
        return [("time_cell", c.result.t == iso_parse(l_at(c.row.t, 0)))]
