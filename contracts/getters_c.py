"""C07: exploration getters answered from the index or from storage report exactly what is stored."""

import z3
from pyvc.core import *  # noqa
from pyvc import spec as S
from pyvc.spec import contract, Contract
from .model import *  # noqa
from .db_model import *  # noqa
from .index_c import IX
from . import db_c

_str = sort_of(TStr)
LStrU = TList(TStr)


def names_of(view_len, P, member, wit):
    """member(m)  <=>  some stored point has measurement m   (wit(m): a position of such a point)"""
    m = z3.Const(fresh_name("m"), _str)
    i = z3.Int(fresh_name("i"))
    return [("only_stored_names", forall([m], z3.Implies(member(m), z3.And(0 <= wit(m), wit(m) < view_len, meas(P(wit(m))) == m)), patterns=[member(m)])),
            ("every_stored_name", forall([i], z3.Implies(z3.And(0 <= i, i < view_len), member(meas(P(i)))), patterns=[P(i)]))]


@contract("tinyflux.index.Index.get_measurements")
class _ix_get_measurements(Contract):
    """C07: exactly the measurement names of the represented points"""
    params = dict(self=IX)
    ret = SStr
    modifies = ()
    witness_sig = {"at": ([TStr], TInt)}

    @staticmethod
    def requires(c):
        return repr_self(c.self, parts=("num", "meas"))

    @staticmethod
    def witness(c):
        M = c.self.t["_measurements"].t
        return {"at": lambda m: l_at(z3.Select(d_val(M), m), 0)}

    @staticmethod
    def ensures(c):
        n, P = view_of(c.self)
        return names_of(n, P, lambda m: z3.Select(c.result.t, m), c.wit["at"])


@contract("tinyflux.database.TinyFlux.get_measurements")
class _db_get_measurements(Contract):
    """C07: the sorted, duplicate-free list of the measurement names in storage - the same via a valid index and via a scan"""
    params = dict(self=DB)
    ret = LStrU
    modifies = ("_index",)
    theories = ()
    raises = db_c.READ_RAISES
    witness_sig = {"at": ([TStr], TInt), "pos": ([TStr], TInt)}
    # ghost: where each name was (last) seen during the scan
    ghost_vars = ("gat",)
    ghost_init = "gat = {}"
    ghost_after = [("names.add(", "gat[self._storage._deserialize_measurement(item)] = _t")]
    locals = dict(gat=TDict(TStr, TInt), names=SStr)

    @staticmethod
    def requires(c):
        return dbinv(c.self)

    @staticmethod
    def witness(c):
        ss = c.ghost.get("last_sorted_set")
        on_index = "if1:T" in c.path  # `if self._index.valid:` taken: the answer (and the witness) comes from Index.get_measurements
        at = (c.ghost.get("wit:tinyflux.index.Index.get_measurements") or {"at": z3.Function(fresh_name("no_witness"), _str, z3.IntSort())})["at"] if on_index else (lambda m: z3.Select(d_val(c.gat.t), m))
        return {"pos": ss["pos"], "at": at}

    @staticmethod
    def _inv(c):
        t = c.loop(0).t
        items = c.self.t["_storage"].t["items"].t
        m = z3.Const(fresh_name("m"), _str)
        j = z3.Int(fresh_name("j"))
        g = lambda mm: z3.Select(d_val(c.gat.t), mm)
        return [("seen_names_only", forall([m], z3.Implies(z3.Select(c.names.t, m), z3.And(0 <= g(m), g(m) < t, meas(dec(l_at(items, g(m)))) == m)), patterns=[z3.Select(c.names.t, m)])),
                ("all_seen_names", forall([j], z3.Implies(z3.And(0 <= j, j < t), z3.Select(c.names.t, meas(dec(l_at(items, j))))), patterns=[l_at(items, j)]))]

    loops = {0: dict(inv=lambda c: _db_get_measurements._inv(c))}

    @staticmethod
    def ensures(c):
        items = c.old.self.t["_storage"].t["items"].t
        r = c.result.t
        a, b = z3.Int(fresh_name("a")), z3.Int(fresh_name("b"))
        member = lambda m: z3.And(0 <= c.wit["pos"](m), c.wit["pos"](m) < l_len(r), l_at(r, c.wit["pos"](m)) == m)
        return names_of(l_len(items), lambda i: dec(l_at(items, i)), member, c.wit["at"]) + [
            ("ascending_no_duplicates", forall([a, b], z3.Implies(z3.And(0 <= a, a < b, b < l_len(r)), S.str_lt(l_at(r, a), l_at(r, b))), patterns=[z3.MultiPattern(l_at(r, a), l_at(r, b))])),
        ] + dbinv(c.self) + db_c.storage_unchanged(c)


def keys_of(n, P, has, m, member, wit):
    """member(k) <=> some stored point (of measurement m, when m is given and non-empty) carries key k; wit(k): a position of such a point"""
    k = z3.Const(fresh_name("k"), _str)
    i = z3.Int(fresh_name("i"))
    sel = lambda p: selm(m, p)
    return [("only_stored_keys", forall([k], z3.Implies(member(k), z3.And(0 <= wit(k), wit(k) < n, has(P(wit(k)), k), sel(P(wit(k))))), patterns=[member(k)])),
            ("every_stored_key", forall([i, k], z3.Implies(z3.And(0 <= i, i < n, has(P(i), k), sel(P(i))), member(k)), patterns=[has(P(i), k)]))]


OStrU = TOpt(TStr)


@contract("tinyflux.index.Index.get_field_keys")
class _ix_get_field_keys(Contract):
    """C07: exactly the field keys carried by the represented points (of the given measurement)"""
    params = dict(self=IX, measurement=OStrU)
    defaults = dict(measurement=lambda ex: Val(OStrU, o_none(OStrU)))
    ret = SStr
    modifies = ()
    witness_sig = {"at": ([TStr], TInt)}
    ghost_vars = ("gat", "gi")
    ghost_init = "gat = {}"
    locals = dict(gat=TDict(TStr, TInt), rst=SStr)
    ghost_after = [("rst.add(field_key)", "gat[field_key] = __choose__(measurement_items.intersection(set([gi[0] for gi in items])))")]

    @staticmethod
    def requires(c):
        return repr_self(c.self, parts=("num", "meas", "fields"))

    @staticmethod
    def _inv(c):
        li = c.loop(0)
        t = li.t
        n, P = view_of(c.self)
        F = c.self.t["_fields"].t
        m = o_val(c.measurement.t)
        k = z3.Const(fresh_name("k"), _str)
        i = z3.Int(fresh_name("i"))
        g = lambda kk: z3.Select(d_val(c.gat.t), kk)
        return [("found_keys_only", forall([k], z3.Implies(z3.Select(c.rst.t, k), z3.And(0 <= g(k), g(k) < n, has_fld(P(g(k)), k), meas(P(g(k))) == m)), patterns=[z3.Select(c.rst.t, k)])),
                ("all_keys_so_far", forall([i, k], z3.Implies(z3.And(z3.Select(d_dom(F), k), li.extra["idx"](k) < t, 0 <= i, i < n, has_fld(P(i), k), meas(P(i)) == m), z3.Select(c.rst.t, k)),
                                           patterns=[has_fld(P(i), k)]))]

    loops = {0: dict(inv=lambda c: _ix_get_field_keys._inv(c))}

    @staticmethod
    def witness(c):
        F = c.self.t["_fields"].t
        first = lambda k: t_get(l_at(z3.Select(d_val(F), k), 0), 0)
        return {"at": (lambda k: z3.Select(d_val(c.gat.t), k)) if c.has("gat") and "loop0:exit" in c.path else first}

    @staticmethod
    def ensures(c):
        n, P = view_of(c.self)
        return keys_of(n, P, has_fld, c.measurement, lambda k: z3.Select(c.result.t, k), c.wit["at"])


@contract("tinyflux.index.Index.get_tag_keys")
class _ix_get_tag_keys(Contract):
    """C07: exactly the tag keys carried by the represented points (of the given measurement)"""
    params = dict(self=IX, measurement=OStrU)
    defaults = dict(measurement=lambda ex: Val(OStrU, o_none(OStrU)))
    ret = SStr
    modifies = ()
    witness_sig = {"at": ([TStr], TInt)}
    ghost_vars = ("gat",)
    ghost_init = "gat = {}"
    locals = dict(gat=TDict(TStr, TInt), rst=SStr)
    ghost_after = [("rst.add(tag_key)", "gat[tag_key] = __choose__(measurement_items.intersection(set(items)))")]

    @staticmethod
    def requires(c):
        return repr_self(c.self, parts=("num", "meas", "tags"))

    _some_value = z3.Function("some_tag_value_under", sort_of(TDict(TStr, TDict(TagV, TList(TInt)))) if False else z3.IntSort(), _str, sort_of(TagV)) if False else None

    @staticmethod
    def _ch(c):
        """Skolem function of the precondition clause tags_no_empty_inner (every key of the tag index has at least one value)"""
        T = c.self.t["_tags"].t
        return z3.Function("some_value_under_key", T.sort(), _str, sort_of(TagV))

    @staticmethod
    def lemmas(c):
        T = c.self.t["_tags"].t
        ch = _ix_get_tag_keys._ch(c)
        k = z3.Const(fresh_name("k"), _str)
        inner = z3.Select(d_val(T), k)
        # conservative: it is the Skolemised form of requires[tags_no_empty_inner]
        return [("skolem_of_tags_no_empty_inner", forall([k], z3.Implies(z3.Select(d_dom(T), k), z3.Select(d_dom(inner), ch(T, k))), patterns=[z3.Select(d_dom(T), k)]))]

    @staticmethod
    def witness(c):
        T = c.self.t["_tags"].t
        ch = _ix_get_tag_keys._ch(c)
        first = lambda k: l_at(z3.Select(d_val(z3.Select(d_val(T), k)), ch(T, k)), 0)
        return {"at": (lambda k: z3.Select(d_val(c.gat.t), k)) if "loop0:exit" in c.path else first}

    @staticmethod
    def ensures(c):
        n, P = view_of(c.self)
        return keys_of(n, P, has_tag, c.measurement, lambda k: z3.Select(c.result.t, k), c.wit["at"])

    @staticmethod
    def _found(c):
        n, P = view_of(c.self)
        m = o_val(c.measurement.t)
        k = z3.Const(fresh_name("k"), _str)
        g = lambda kk: z3.Select(d_val(c.gat.t), kk)
        return ("found_keys_only", forall([k], z3.Implies(z3.Select(c.rst.t, k), z3.And(0 <= g(k), g(k) < n, has_tag(P(g(k)), k), meas(P(g(k))) == m)), patterns=[z3.Select(c.rst.t, k)]))

    @staticmethod
    def _inv0(c):
        li = c.loop(0)
        n, P = view_of(c.self)
        T = c.self.t["_tags"].t
        m = o_val(c.measurement.t)
        k = z3.Const(fresh_name("k"), _str)
        i = z3.Int(fresh_name("i"))
        return [_ix_get_tag_keys._found(c),
                ("all_keys_so_far", forall([i, k], z3.Implies(z3.And(z3.Select(d_dom(T), k), li.extra["idx"](k) < li.t, 0 <= i, i < n, has_tag(P(i), k), meas(P(i)) == m), z3.Select(c.rst.t, k)),
                                           patterns=[has_tag(P(i), k)]))]

    @staticmethod
    def _inv1(c):
        lo, li = c.loop(0), c.loop(1)
        n, P = view_of(c.self)
        T = c.self.t["_tags"].t
        m = o_val(c.measurement.t)
        k = z3.Const(fresh_name("k"), _str)
        i = z3.Int(fresh_name("i"))
        kk = c.tag_key.t
        inner_idx = li.extra["idx"]
        return [_ix_get_tag_keys._found(c),
                ("all_keys_so_far", forall([i, k], z3.Implies(z3.And(z3.Select(d_dom(T), k), lo.extra["idx"](k) < lo.t, 0 <= i, i < n, has_tag(P(i), k), meas(P(i)) == m), z3.Select(c.rst.t, k)),
                                           patterns=[has_tag(P(i), k)])),
                ("this_key_so_far", forall([i], z3.Implies(z3.And(0 <= i, i < n, has_tag(P(i), kk), meas(P(i)) == m, inner_idx(tag(P(i), kk)) < li.t), z3.Select(c.rst.t, kk)),
                                           patterns=[has_tag(P(i), kk)])),
                ("outer_key", z3.And(z3.Select(d_dom(T), kk), lo.extra["idx"](kk) == lo.t, c.tag_values.t == z3.Select(d_val(T), kk)))]

    loops = {0: dict(inv=lambda c: _ix_get_tag_keys._inv0(c)), 1: dict(inv=lambda c: _ix_get_tag_keys._inv1(c))}


def _db_keys_getter(name, has, dictof, loopvar):
    """TinyFlux.get_tag_keys / get_field_keys: sorted duplicate-free list of exactly the stored keys (of the measurement), via index and via scan"""
    ixq = "tinyflux.index.Index." + name

    class _c(Contract):
        params = dict(self=DB, measurement=OStrU)
        defaults = dict(measurement=lambda ex: Val(OStrU, o_none(OStrU)))
        ret = LStrU
        modifies = ("_index",)
        theories = ()
        raises = db_c.READ_RAISES
        witness_sig = {"at": ([TStr], TInt), "pos": ([TStr], TInt)}
        ghost_vars = ("gat", "gj")
        ghost_init = "gat = {}; gj = 0"
        ghost_after = [("_point = self._storage._deserialize_storage_item(item)", "gj = _t"), ("rst.add(%s)" % loopvar, "gat[%s] = gj" % loopvar)]
        locals = dict(gat=TDict(TStr, TInt), gj=TInt, rst=SStr)

        @staticmethod
        def requires(c):
            return dbinv(c.self)

        @staticmethod
        def witness(c):
            ss = c.ghost.get("last_sorted_set")
            on_index = "if1:T" in c.path
            # (if the index getter was not the one called, an unconstrained function: the obligations then fail instead of the checker)
            at = (c.ghost.get("wit:" + ixq) or {"at": z3.Function(fresh_name("no_witness"), _str, z3.IntSort())})["at"] if on_index else (lambda k: z3.Select(d_val(c.gat.t), k))
            return {"pos": ss["pos"], "at": at}

        @staticmethod
        def _outer(c, t):
            items = c.self.t["_storage"].t["items"].t
            P = lambda j: dec(l_at(items, j))
            k = z3.Const(fresh_name("k"), _str)
            j = z3.Int(fresh_name("j"))
            g = lambda kk: z3.Select(d_val(c.gat.t), kk)
            return [("found_keys_only", forall([k], z3.Implies(z3.Select(c.rst.t, k), z3.And(0 <= g(k), g(k) < t, has(P(g(k)), k), selm(c.measurement, P(g(k))))), patterns=[z3.Select(c.rst.t, k)])),
                    ("all_keys_so_far", forall([j, k], z3.Implies(z3.And(0 <= j, j < c.loop(0).t, has(P(j), k), selm(c.measurement, P(j))), z3.Select(c.rst.t, k)), patterns=[has(P(j), k)]))]

        @staticmethod
        def _inv0(c):
            return _c._outer(c, c.loop(0).t)

        @staticmethod
        def _inv1(c):
            lo, li = c.loop(0), c.loop(1)
            items = c.self.t["_storage"].t["items"].t
            p = dec(l_at(items, lo.t))
            k = z3.Const(fresh_name("k"), _str)
            return _c._outer(c, lo.t + 1) + [
                ("current_point", z3.And(c._point.t == p, c.gj.t == lo.t, lo.t < l_len(items), selm(c.measurement, p))),
                ("this_point_so_far", forall([k], z3.Implies(z3.And(has(p, k), li.extra["idx"](k) < li.t), z3.Select(c.rst.t, k)), patterns=[has(p, k)]))]

        loops = {0: dict(inv=lambda c: _c._inv0(c)), 1: dict(inv=lambda c: _c._inv1(c))}

        @staticmethod
        def ensures(c):
            items = c.old.self.t["_storage"].t["items"].t
            r = c.result.t
            a, b = z3.Int(fresh_name("a")), z3.Int(fresh_name("b"))
            member = lambda k: z3.And(0 <= c.wit["pos"](k), c.wit["pos"](k) < l_len(r), l_at(r, c.wit["pos"](k)) == k)
            return keys_of(l_len(items), lambda i: dec(l_at(items, i)), has, c.measurement, member, c.wit["at"]) + [
                ("ascending_no_duplicates", forall([a, b], z3.Implies(z3.And(0 <= a, a < b, b < l_len(r)), S.str_lt(l_at(r, a), l_at(r, b))), patterns=[z3.MultiPattern(l_at(r, a), l_at(r, b))])),
            ] + dbinv(c.self) + db_c.storage_unchanged(c)

    _c.__doc__ = "C07: the sorted, duplicate-free list of exactly the stored keys (of the measurement) - the same via a valid index and via a scan"
    return contract("tinyflux.database.TinyFlux." + name)(_c)


DB_GET_TAG_KEYS = _db_keys_getter("get_tag_keys", has_tag, tagsd, "tk")
DB_GET_FIELD_KEYS = _db_keys_getter("get_field_keys", has_fld, fldsd, "fk")

# C10 for the getters: the Measurement forwarders are the database getters restricted to the handle's name
from .measurement_c import forward
forward("get_tag_keys", DB_GET_TAG_KEYS, LStrU, {})
forward("get_field_keys", DB_GET_FIELD_KEYS, LStrU, {})


# ---------------------------------------------------------------------------------------------- timestamps
LReal = TList(TReal)


def in_insertion_order(R, L, n, P, m, value, src, rank, proj=lambda x: x, sel=None):
    """R lists value(point) for exactly the stored points selected (by the measurement filter, and by `sel` when given), in storage
    (insertion) order: src(a) is the storage position behind R[a] (strictly increasing); every selected point i appears, at rank(i)
    (rank=None: at some place)"""
    a, b, i = z3.Int(fresh_name("a")), z3.Int(fresh_name("b")), z3.Int(fresh_name("i"))
    chosen = (lambda p: selm(m, p)) if sel is None else (lambda p: z3.And(selm(m, p), sel(p)))
    if rank is not None:
        appears = lambda i_: z3.And(0 <= rank(i_), rank(i_) < L, src(rank(i_)) == i_)
    else:
        appears = lambda i_: z3.Exists([a], z3.And(S.Tr(a), 0 <= a, a < L, src(a) == i_), patterns=[S.Tr(a), src(a)])
    return [("each_is_a_selected_point", forall([a], z3.Implies(z3.And(0 <= a, a < L), z3.And(0 <= src(a), src(a) < n, chosen(P(src(a))), proj(l_at(R, a)) == value(P(src(a))))), patterns=[l_at(R, a)])),
            ("insertion_order", forall([a, b], z3.Implies(z3.And(0 <= a, a < b, b < L), src(a) < src(b)), patterns=[z3.MultiPattern(src(a), src(b))])),
            ("every_selected_point", forall([i], z3.Implies(z3.And(0 <= i, i < n, S.Tr(i), chosen(P(i))), appears(i)), patterns=[P(i)]))]


@contract("tinyflux.index.Index.get_timestamps")
class _ix_get_timestamps(Contract):
    """C07/C08: the POSIX timestamps of exactly the represented points (of the given measurement), in insertion order"""
    params = dict(self=IX, measurement=OStrU)
    defaults = dict(measurement=lambda ex: Val(OStrU, o_none(OStrU)))
    ret = LReal
    modifies = ()
    witness_sig = {"src": ([TInt], TInt), "rank": ([TInt], TInt)}

    @staticmethod
    def requires(c):
        return repr_self(c.self, parts=("num", "meas", "time"))

    @staticmethod
    def _posinv(c):
        return z3.Function("position_in_time_order", c.self.t["_storage_pos_sorted_by_ts"].t.sort(), z3.IntSort(), z3.IntSort())

    @staticmethod
    def lemmas(c):
        # conservative: the Skolemised form of requires[time_pos_onto]
        p = c.self.t["_storage_pos_sorted_by_ts"].t
        n, _ = view_of(c.self)
        i = z3.Int(fresh_name("i"))
        pinv = _ix_get_timestamps._posinv(c)
        return [("skolem_of_time_pos_onto", forall([i], z3.Implies(z3.And(0 <= i, i < n), z3.And(0 <= pinv(p, i), pinv(p, i) < n, l_at(p, pinv(p, i)) == i)), patterns=[pinv(p, i)]))]

    @staticmethod
    def witness(c):
        p = c.self.t["_storage_pos_sorted_by_ts"].t
        posinv = lambda i: _ix_get_timestamps._posinv(c)(p, i)
        ls, lf = c.ghost.get("last_sort"), c.ghost.get("last_filter")
        if ls is None:  # `return []`
            return {"src": lambda a: a, "rank": lambda i: i}
        if "if0:T" in c.path:  # no filter
            return {"src": lambda a: l_at(p, ls["pi"](a)), "rank": lambda i: ls["pinv"](posinv(i))}
        return {"src": lambda a: l_at(p, lf["s"](ls["pi"](a))), "rank": lambda i: ls["pinv"](lf["inv"](posinv(i)))}

    @staticmethod
    def ensures(c):
        n, P = view_of(c.self)
        return in_insertion_order(c.result.t, l_len(c.result.t), n, P, c.measurement, ts, c.wit["src"], c.wit["rank"])


LDt = TList(Dt)


@contract("tinyflux.storages.Storage._deserialize_timestamp")
class _abs_deserialize_timestamp(Contract):
    """ASSUMED (abstract Storage contract): the item's time as the storage reads it; once marked UTC (.replace(tzinfo=utc), what every caller does) it is the time of the decoded point"""
    params = dict(self=STG, item=Item)
    ret = Dt
    assumed = True

    @staticmethod
    def ensures(c):
        return [("time_of_item", z3.Function("dt_replace_tz", sort_of(Dt), sort_of(Dt))(c.result.t) == time_of(dec(c.item.t)))]


@contract("tinyflux.database.TinyFlux.get_timestamps")
class _db_get_timestamps(Contract):
    """C07/C08: the instants (as timestamp() sees them) of exactly the stored points (of the measurement), in insertion order - the same via a valid index and via a scan"""
    params = dict(self=DB, measurement=OStrU)
    defaults = dict(measurement=lambda ex: Val(OStrU, o_none(OStrU)))
    ret = LDt
    modifies = ("_index",)
    theories = ("time",)
    raises = db_c.READ_RAISES
    witness_sig = {"src": ([TInt], TInt), "rank": ([TInt], TInt)}
    ghost_vars = ("gsrc", "grank")
    ghost_init = "gsrc = []; grank = {}"
    ghost_after = [("rst.append(", "gsrc.append(_t); grank[_t] = len(rst) - 1")]
    locals = dict(gsrc=TList(TInt), grank=TDict(TInt, TInt), rst=LDt)

    @staticmethod
    def requires(c):
        return dbinv(c.self)

    @staticmethod
    def witness(c):
        if "if1:T" in c.path:
            w = c.ghost.get("wit:tinyflux.index.Index.get_timestamps") or {}
            nf = lambda nm: z3.Function(fresh_name("no_witness_" + nm), z3.IntSort(), z3.IntSort())
            return {"src": w["src"] if "src" in w else nf("src"), "rank": w["rank"] if "rank" in w else nf("rank")}
        return {"src": lambda a: l_at(c.gsrc.t, a), "rank": lambda i: z3.Select(d_val(c.grank.t), i)}

    @staticmethod
    def _inv(c):
        t = c.loop(0).t
        items = c.self.t["_storage"].t["items"].t
        P = lambda j: dec(l_at(items, j))
        src = lambda a: l_at(c.gsrc.t, a)
        rank = lambda i: z3.Select(d_val(c.grank.t), i)
        return [("ghost_len", l_len(c.gsrc.t) == l_len(c.rst.t))] + in_insertion_order(c.rst.t, l_len(c.rst.t), t, P, c.measurement, ts, src, rank, proj=dt_ts)

    loops = {0: dict(inv=lambda c: _db_get_timestamps._inv(c))}

    @staticmethod
    def ensures(c):
        items = c.old.self.t["_storage"].t["items"].t
        return in_insertion_order(c.result.t, l_len(c.result.t), l_len(items), lambda i: dec(l_at(items, i)), c.measurement, ts, c.wit["src"], c.wit["rank"], proj=dt_ts) + dbinv(c.self) + db_c.storage_unchanged(c)


forward("get_timestamps", _db_get_timestamps, LDt, {})


# ---------------------------------------------------------------------------------------------- field values
LFldV = TList(FldV)


@contract("tinyflux.index.Index.get_field_values")
class _ix_get_field_values(Contract):
    """C07: the values of the field key for exactly the represented points that carry it (of the given measurement), in insertion order"""
    params = dict(self=IX, field_key=TStr, measurement=OStrU)
    defaults = dict(measurement=lambda ex: Val(OStrU, o_none(OStrU)))
    ret = LFldV
    modifies = ()
    witness_sig = {"src": ([TInt], TInt)}
    ghost_vars = ("gsi",)
    ghost_init = "gsi = []"
    ghost_after = [("rst.extend(", "gsi = __filter_indices__()")]  # which entries of the key's posting list were kept
    locals = dict(gsi=TList(TInt), rst=LFldV)

    @staticmethod
    def requires(c):
        return repr_self(c.self, parts=("num", "meas", "fields"))

    @staticmethod
    def _spec(c, R, src):
        n, P = view_of(c.self)
        k = c.field_key.t
        return in_insertion_order(R, l_len(R), n, P, c.measurement, lambda p: fld(p, k), src, None, sel=lambda p: has_fld(p, k))

    @staticmethod
    def witness(c):
        F = c.self.t["_fields"].t
        k = c.field_key.t
        if "loop0:exit" in c.path:
            return {"src": lambda a: t_get(l_at(z3.Select(d_val(F), k), l_at(c.gsi.t, a)), 0)}
        return {"src": lambda a: t_get(l_at(z3.Select(d_val(F), k), a), 0)}

    @staticmethod
    def _inv(c):
        li = c.loop(0)
        F = c.self.t["_fields"].t
        k = c.field_key.t
        seen = z3.And(z3.Select(d_dom(F), k), li.extra["idx"](k) < li.t)
        spec = _ix_get_field_values._spec(c, c.rst.t, lambda a: t_get(l_at(z3.Select(d_val(F), k), l_at(c.gsi.t, a)), 0))
        return [("ghost_len", l_len(c.gsi.t) == l_len(c.rst.t)), ("nothing_before_the_key", z3.Implies(z3.Not(seen), l_len(c.rst.t) == 0))] + \
               [(label, z3.Implies(seen, f)) for label, f in spec]

    loops = {0: dict(inv=lambda c: _ix_get_field_values._inv(c))}

    @staticmethod
    def ensures(c):
        return _ix_get_field_values._spec(c, c.result.t, c.wit["src"])


@contract("tinyflux.database.TinyFlux.get_field_values")
class _db_get_field_values(Contract):
    """C07: the values of the field key for exactly the stored points that carry it (of the measurement), in insertion order - the same via a valid index and via a scan"""
    params = dict(self=DB, field_key=TStr, measurement=OStrU)
    defaults = dict(measurement=lambda ex: Val(OStrU, o_none(OStrU)))
    ret = LFldV
    modifies = ("_index",)
    theories = ()
    raises = db_c.READ_RAISES
    witness_sig = {"src": ([TInt], TInt)}
    ghost_vars = ("gsrc", "gj")
    ghost_init = "gsrc = []; gj = 0"
    ghost_after = [("_point = self._storage._deserialize_storage_item(item)", "gj = _t"), ("rst.append(fv)", "gsrc.append(gj)")]
    locals = dict(gsrc=TList(TInt), gj=TInt, rst=LFldV)

    @staticmethod
    def requires(c):
        return dbinv(c.self)

    @staticmethod
    def _spec(c, R, n, src, items=None):
        items = c.self.t["_storage"].t["items"].t if items is None else items
        k = c.field_key.t
        return in_insertion_order(R, l_len(R), n, lambda i: dec(l_at(items, i)), c.measurement, lambda p: fld(p, k), src, None, sel=lambda p: has_fld(p, k))

    @staticmethod
    def witness(c):
        if "if1:T" in c.path:
            w = c.ghost.get("wit:tinyflux.index.Index.get_field_values") or {}
            return {"src": w["src"] if "src" in w else z3.Function(fresh_name("no_witness_src"), z3.IntSort(), z3.IntSort())}
        return {"src": lambda a: l_at(c.gsrc.t, a)}

    @staticmethod
    def _inv0(c):
        return [("ghost_len", l_len(c.gsrc.t) == l_len(c.rst.t))] + _db_get_field_values._spec(c, c.rst.t, c.loop(0).t, lambda a: l_at(c.gsrc.t, a))

    @staticmethod
    def _inv1(c):
        lo, li = c.loop(0), c.loop(1)
        items = c.self.t["_storage"].t["items"].t
        p = dec(l_at(items, lo.t))
        k = c.field_key.t
        seen = z3.And(has_fld(p, k), li.extra["idx"](k) < li.t)
        src = lambda a: l_at(c.gsrc.t, a)
        before = _db_get_field_values._spec(c, c.rst.t, lo.t, src)
        after = _db_get_field_values._spec(c, c.rst.t, lo.t + 1, src)
        return [("ghost_len", l_len(c.gsrc.t) == l_len(c.rst.t)),
                ("current_point", z3.And(c._point.t == p, c.gj.t == lo.t, lo.t < l_len(items), selm(c.measurement, p)))] + \
               [(lb, z3.If(seen, fa, fb)) for (lb, fb), (_, fa) in zip(before, after)]

    loops = {0: dict(inv=lambda c: _db_get_field_values._inv0(c)), 1: dict(inv=lambda c: _db_get_field_values._inv1(c))}

    @staticmethod
    def ensures(c):
        items = c.old.self.t["_storage"].t["items"].t
        return _db_get_field_values._spec(c, c.result.t, l_len(items), c.wit["src"], items=items) + dbinv(c.self) + db_c.storage_unchanged(c)


forward("get_field_values", _db_get_field_values, LFldV, dict(field_key=TStr))


# ---------------------------------------------------------------------------------------------- tag values
TagVals = TDict(TStr, TSet(TagV))
LStrKeys = TList(TStr)


def tag_values_spec(D, n, P, m, tag_keys, asked, dom=None, has=None, partial=None, listed=None):
    """D maps tag keys to the set of values stored under them among the selected points.
    asked (a Bool): specific keys were requested - then D has exactly those keys (also the ones no point carries);
    otherwise D has exactly the keys some selected point carries.
    dom/has: how membership is read off the result (a dict of sets by default);
    partial=(j0, seen): the points are 0..n-1 plus point j0, which counts only for the keys k with seen(k) (a scan in progress)."""
    k = z3.Const(fresh_name("k"), _str)
    v = z3.Const(fresh_name("v"), sort_of(TagV))
    i, j = z3.Int(fresh_name("i")), z3.Int(fresh_name("j"))
    dom = dom or (lambda kk: z3.Select(d_dom(D), kk))
    has = has or (lambda kk, vv: z3.Select(z3.Select(d_val(D), kk), vv))
    sel = lambda p: selm(m, p)
    if partial is None:
        counts = lambda ii, kk: z3.And(0 <= ii, ii < n)
    else:
        j0, seen = partial
        counts = lambda ii, kk: z3.Or(z3.And(0 <= ii, ii < n), z3.And(ii == j0, seen(kk)))
    carried = lambda kk: z3.Exists([i], z3.And(S.Tr(i), counts(i, kk), sel(P(i)), has_tag(P(i), kk)), patterns=[S.Tr(i)])
    listed = listed or (lambda kk: z3.Exists([j], z3.And(S.Tr(j), 0 <= j, j < l_len(tag_keys), l_at(tag_keys, j) == kk), patterns=[S.Tr(j)]))
    return [
        ("keys_only", forall([k], z3.Implies(dom(k), z3.If(asked, listed(k), carried(k))), patterns=[dom(k)])),
        ("every_requested_key", forall([j], z3.Implies(z3.And(asked, 0 <= j, j < l_len(tag_keys)), dom(l_at(tag_keys, j))), patterns=[l_at(tag_keys, j)])),
        ("every_carried_key", forall([i, k], z3.Implies(z3.And(z3.Not(asked), counts(i, k), sel(P(i)), has_tag(P(i), k)), dom(k)), patterns=[has_tag(P(i), k)])),
        ("values_only", forall([k, v], z3.Implies(z3.And(dom(k), has(k, v)),
                                                   z3.Exists([i], z3.And(S.Tr(i), counts(i, k), sel(P(i)), has_tag(P(i), k), tag(P(i), k) == v), patterns=[S.Tr(i)])), patterns=[has(k, v)])),
        ("every_value", forall([i, k], z3.Implies(z3.And(counts(i, k), sel(P(i)), has_tag(P(i), k), dom(k)), has(k, tag(P(i), k))), patterns=[has_tag(P(i), k)])),
    ]


@contract("tinyflux.index.Index.get_tag_values")
class _ix_get_tag_values(Contract):
    """C07: for each requested tag key (or, when none is requested, each tag key carried by a selected point) exactly the set of values the
    selected points store under it; requested keys nobody carries map to the empty set"""
    params = dict(self=IX, tag_keys=LStrKeys, measurement=OStrU)
    defaults = dict(tag_keys=lambda ex: ex.empty_of(LStrKeys), measurement=lambda ex: Val(OStrU, o_none(OStrU)))
    ret = TagVals
    modifies = ()
    locals = dict(rst=TagVals, gd0=TagVals)
    ghost_vars = ("gd0",)
    ghost_init = "gd0 = {}"
    ghost_after = [("rst = {i: set({}) for i in tag_keys}", "gd0 = rst")]

    @staticmethod
    def requires(c):
        return repr_self(c.self, parts=("num", "meas", "tags"))

    @staticmethod
    def lemmas(c):
        # Tr is universally true: marking the positions in the posting lists gives the existential clauses a term to match on
        T = c.self.t["_tags"].t
        k = z3.Const(fresh_name("k"), _str)
        v = z3.Const(fresh_name("v"), sort_of(TagV))
        j = z3.Int(fresh_name("j"))
        lst = z3.Select(d_val(z3.Select(d_val(T), k)), v)
        return [("positions_marked", forall([k, v, j], S.Tr(l_at(lst, j)), patterns=[l_at(lst, j)])),
                ("first_position_marked", forall([k, v], S.Tr(l_at(lst, 0)), patterns=[z3.Select(d_dom(z3.Select(d_val(T), k)), v)]))]

    # ---- vocabulary shared by the eight loop invariants
    @staticmethod
    def _v(c):
        n, P = view_of(c.self)
        T = c.self.t["_tags"].t
        D = c.rst.t
        m = c.measurement
        o = type("V", (), {})()
        o.n, o.P, o.T, o.D, o.m = n, P, T, D, m
        o.k = z3.Const(fresh_name("k"), _str)
        o.v = z3.Const(fresh_name("v"), sort_of(TagV))
        o.i = z3.Int(fresh_name("i"))
        o.domT = lambda kk: z3.Select(d_dom(T), kk)
        o.inner = lambda kk: z3.Select(d_val(T), kk)
        o.idom = lambda kk, vv: z3.Select(d_dom(o.inner(kk)), vv)
        o.dom = lambda kk: z3.Select(d_dom(D), kk)
        o.has = lambda kk, vv: z3.Select(z3.Select(d_val(D), kk), vv)
        o.sel = lambda p: selm(m, p)
        o.point = lambda kk, vv: z3.Exists([o.i], z3.And(S.Tr(o.i), 0 <= o.i, o.i < n, o.sel(P(o.i)), has_tag(P(o.i), kk), tag(P(o.i), kk) == vv), patterns=[S.Tr(o.i)])
        o.carried = lambda kk: z3.Exists([o.i], z3.And(S.Tr(o.i), 0 <= o.i, o.i < n, o.sel(P(o.i)), has_tag(P(o.i), kk)), patterns=[S.Tr(o.i)])
        return o

    @staticmethod
    def _inv(c, outer, inner, asked, filtered):
        """invariant of the outer loop (inner=None) or of the inner loop of one of the four branches"""
        o = _ix_get_tag_values._v(c)
        lo = c.loop(outer)
        k, v, i = o.k, o.v, o.i
        idx_o = lo.extra["idx"]
        if inner is None:
            done = lambda kk: z3.And(o.domT(kk), idx_o(kk) < lo.t)
            cur = None
        else:
            li = c.loop(inner)
            kk0 = c.tag_key.t
            done = lambda kk: z3.And(o.domT(kk), idx_o(kk) < lo.t)  # the current key has idx == lo.t: not yet `done`
            cur = (kk0, li.extra["idx"], li.t)
        out = []
        if asked:
            out.append(("keys_as_requested", d_dom(o.D) == d_dom(c.gd0.t)))
        else:
            extra = (lambda kk: kk == cur[0]) if (cur and not filtered) else (lambda kk: z3.BoolVal(False))
            if not filtered:
                out.append(("keys_so_far", forall([k], o.dom(k) == z3.Or(done(k), extra(k)), patterns=[o.dom(k)])))
            else:
                out.append(("keys_only_carried", forall([k], z3.Implies(o.dom(k), z3.And(z3.Or(done(k), k == cur[0]) if cur else done(k), o.carried(k))), patterns=[o.dom(k)])))
        # values present are values of selected points
        out.append(("values_only", forall([k, v], z3.Implies(z3.And(o.dom(k), o.has(k, v)), o.point(k, v)), patterns=[o.has(k, v)])))
        # keys not yet reached hold nothing
        out.append(("untouched_keys_empty", forall([k, v], z3.Implies(z3.And(o.dom(k), z3.Not(done(k)), (k != cur[0]) if cur else z3.BoolVal(True)), z3.Not(o.has(k, v))), patterns=[o.has(k, v)])))
        # finished keys hold every value of the selected points (and, when no keys were requested, are present)
        want = (lambda kk: o.dom(kk)) if asked else (lambda kk: z3.BoolVal(True))
        out.append(("finished_keys_complete", forall([i, k], z3.Implies(z3.And(done(k), want(k), 0 <= i, i < o.n, o.sel(o.P(i)), has_tag(o.P(i), k)),
                                                                     z3.And(o.dom(k), o.has(k, tag(o.P(i), k)))), patterns=[has_tag(o.P(i), k)])))
        out += _ix_get_tag_values.lemmas(c)  # (trivially true markers; carried in the invariant so that the loop obligations have them too)
        if cur:
            kk0, idx_i, ti = cur
            out.append(("outer_key", z3.And(o.domT(kk0), idx_o(kk0) == lo.t)))
            out.append(("current_key_so_far", forall([i], z3.Implies(z3.And(want(kk0), 0 <= i, i < o.n, o.sel(o.P(i)), has_tag(o.P(i), kk0), idx_i(tag(o.P(i), kk0)) < ti),
                                                                   z3.And(o.dom(kk0), o.has(kk0, tag(o.P(i), kk0)))), patterns=[has_tag(o.P(i), kk0)])))
        return out

    loops = {
        0: dict(inv=lambda c: _ix_get_tag_values._inv(c, 0, None, False, False)), 1: dict(inv=lambda c: _ix_get_tag_values._inv(c, 0, 1, False, False)),
        2: dict(inv=lambda c: _ix_get_tag_values._inv(c, 2, None, False, True)), 3: dict(inv=lambda c: _ix_get_tag_values._inv(c, 2, 3, False, True)),
        # (ordinals follow pyvc's numbering, tools/loops.py: 4 and 7 are the loops of the third branch, 5 and 6 those of the fourth)
        4: dict(inv=lambda c: _ix_get_tag_values._inv(c, 4, None, True, False)), 7: dict(inv=lambda c: _ix_get_tag_values._inv(c, 4, 7, True, False)),
        5: dict(inv=lambda c: _ix_get_tag_values._inv(c, 5, None, True, True)), 6: dict(inv=lambda c: _ix_get_tag_values._inv(c, 5, 6, True, True)),
    }

    @staticmethod
    def ensures(c):
        n, P = view_of(c.self)
        asked = l_len(c.tag_keys.t) > 0
        return tag_values_spec(c.result.t, n, P, c.measurement, c.tag_keys.t, asked)


TagValLists = TDict(TStr, TList(TagV))


@contract("tinyflux.database.TinyFlux.get_tag_values")
class _db_get_tag_values(Contract):
    """C07: for each requested tag key (or each key carried by a stored point of the measurement) the duplicate-free list of exactly the values stored
    under it, strings ascending and None last - the same via a valid index and via a scan"""
    params = dict(self=DB, tag_keys=LStrKeys, measurement=OStrU)
    defaults = dict(tag_keys=lambda ex: ex.empty_of(LStrKeys), measurement=lambda ex: Val(OStrU, o_none(OStrU)))
    ret = TagValLists
    modifies = ("_index",)
    theories = ()
    raises = db_c.READ_RAISES
    witness_sig = {"lpos": ([TStr, TagV], TInt)}
    locals = dict(rst=TagVals, relevant_tags=SStr)

    @staticmethod
    def requires(c):
        return dbinv(c.self)

    @staticmethod
    def witness(c):
        ss = c.ghost.get("last_sorted_set")
        return {"lpos": (lambda k, v: ss["posf"](k, v))}

    @staticmethod
    def _scan(c, n, partial=None):
        items = c.self.t["_storage"].t["items"].t
        asked = l_len(c.tag_keys.t) > 0
        rel = c.relevant_tags.t
        return tag_values_spec(c.rst.t, n, lambda i: dec(l_at(items, i)), c.measurement, c.tag_keys.t, asked, partial=partial, listed=lambda kk: z3.Select(rel, kk))

    @staticmethod
    def _rel(c):
        """relevant_tags is empty exactly when no key was requested"""
        rel = c.relevant_tags.t
        x = z3.Const(fresh_name("x"), _str)
        asked = l_len(c.tag_keys.t) > 0
        return [("relevant_iff_asked", z3.And(z3.Implies(asked, z3.Select(rel, l_at(c.tag_keys.t, 0))), z3.Implies(z3.Not(asked), forall([x], z3.Not(z3.Select(rel, x)), patterns=[z3.Select(rel, x)]))))]

    @staticmethod
    def _inv0(c):
        return _db_get_tag_values._scan(c, c.loop(0).t) + _db_get_tag_values._rel(c)

    @staticmethod
    def _inv1(c):
        lo, li = c.loop(0), c.loop(1)
        items = c.self.t["_storage"].t["items"].t
        p = dec(l_at(items, lo.t))
        seen = lambda kk: z3.And(has_tag(p, kk), li.extra["idx"](kk) < li.t)
        return _db_get_tag_values._scan(c, lo.t, partial=(lo.t, seen)) + _db_get_tag_values._rel(c) + [("current_point", z3.And(c._point.t == p, lo.t < l_len(items), selm(c.measurement, p), S.Tr(lo.t)))]

    loops = {0: dict(inv=lambda c: _db_get_tag_values._inv0(c)), 1: dict(inv=lambda c: _db_get_tag_values._inv1(c))}

    @staticmethod
    def ensures(c):
        items = c.old.self.t["_storage"].t["items"].t
        R = c.result.t
        lpos = c.wit["lpos"]
        asked = l_len(c.tag_keys.t) > 0
        lst = lambda kk: z3.Select(d_val(R), kk)
        has = lambda kk, vv: z3.And(0 <= lpos(kk, vv), lpos(kk, vv) < l_len(lst(kk)), l_at(lst(kk), lpos(kk, vv)) == vv)
        k = z3.Const(fresh_name("k"), _str)
        a, b = z3.Int(fresh_name("a")), z3.Int(fresh_name("b"))
        lt = lambda x, y: z3.Or(z3.And(o_is_some(x), o_is_none(y)), z3.And(o_is_some(x), o_is_some(y), S.str_lt(o_val(x), o_val(y))))
        return tag_values_spec(R, l_len(items), lambda i: dec(l_at(items, i)), c.measurement, c.tag_keys.t, asked, has=has) + [
            ("each_list_ascending_none_last_no_duplicates", forall([k, a, b], z3.Implies(z3.And(z3.Select(d_dom(R), k), 0 <= a, a < b, b < l_len(lst(k))), lt(l_at(lst(k), a), l_at(lst(k), b))),
                                                                   patterns=[z3.MultiPattern(l_at(lst(k), a), l_at(lst(k), b))])),
        ] + dbinv(c.self) + db_c.storage_unchanged(c)


forward("get_tag_values", _db_get_tag_values, TagValLists, dict(tag_keys=LStrKeys), dict(tag_keys=lambda ex: ex.empty_of(LStrKeys)))


# ---------------------------------------------------------------------------------------------- iteration, per-measurement length and all()
from .measurement_c import MS
from .db_model import in_stable_time_order


def valid_after_read(db):
    """C06: with automatic indexing on, any read leaves the index valid (known finding KF-20 for len()/iteration, which are not wrapped by read_op)"""
    return [("index_valid_after_read_when_auto", z3.Implies(db.t["_auto_index"].t, db.t["_index"].t["_valid"].t))]


def name_only(name):
    """the per-measurement views compare the measurement with the handle's name directly (`== self._name`)"""
    return lambda p: meas(p) == name


@contract("tinyflux.database.TinyFlux.__iter__")
class _db_iter(Contract):
    """C07: iteration yields every stored point once, in storage order (a generator read as the list it yields)"""
    params = dict(self=DB)
    ret = LPt
    modifies = ()
    raises = {"ReadFault": staticmethod(lambda c: db_c.read_fault(c))}

    @staticmethod
    def requires(c):
        return dbinv(c.self)

    @staticmethod
    def _spec(c, R, n):
        items = c.self.t["_storage"].t["items"].t
        a = z3.Int(fresh_name("a"))
        return [("length", l_len(R) == n), ("elements", forall([a], z3.Implies(z3.And(0 <= a, a < n), l_at(R, a) == dec(l_at(items, a))), patterns=[l_at(R, a)]))]

    loops = {0: dict(inv=lambda c: _db_iter._spec(c, c._yielded.t, c.loop(0).t))}

    @staticmethod
    def ensures(c):
        return _db_iter._spec(c, c.result.t, l_len(c.self.t["_storage"].t["items"].t)) + valid_after_read(c.self)


@contract("tinyflux.measurement.Measurement.__iter__")
class _ms_iter(Contract):
    """C07/C10: iterating a measurement yields exactly the stored points of that name, in storage order"""
    params = dict(self=MS)
    ret = LPt
    modifies = ()
    raises = {"ReadFault": staticmethod(lambda c: dict(when=z3.BoolVal(True), exact=False))}
    witness_sig = {"src": ([TInt], TInt)}
    ghost_vars = ("gsrc",)
    ghost_init = "gsrc = []"
    ghost_after = [("yield self._db._storage._deserialize_storage_item(item)", "gsrc.append(_t)")]
    locals = dict(gsrc=TList(TInt))

    @staticmethod
    def requires(c):
        return dbinv(c.self.t["_db"])

    @staticmethod
    def _spec(c, R, n, src):
        items = c.self.t["_db"].t["_storage"].t["items"].t
        nm = c.self.t["_name"].t
        return in_insertion_order(R, l_len(R), n, lambda i: dec(l_at(items, i)), Val(OStrU, o_none(OStrU)), lambda p: p, src, None, sel=name_only(nm))

    loops = {0: dict(inv=lambda c: [("ghost_len", l_len(c.gsrc.t) == l_len(c._yielded.t))] + _ms_iter._spec(c, c._yielded.t, c.loop(0).t, lambda a: l_at(c.gsrc.t, a)))}

    @staticmethod
    def witness(c):
        return {"src": lambda a: l_at(c.gsrc.t, a)}

    @staticmethod
    def ensures(c):
        return _ms_iter._spec(c, c.result.t, l_len(c.self.t["_db"].t["_storage"].t["items"].t), c.wit["src"]) + valid_after_read(c.self.t["_db"])


@contract("tinyflux.measurement.Measurement.__len__")
class _ms_len(Contract):
    """C07/C10: len(measurement) is the number of stored points of that name - via a valid index (length of the name's posting list) and via a scan:
    stated as the length L of a strictly increasing enumeration src of exactly the matching storage positions"""
    params = dict(self=MS)
    ret = TInt
    modifies = ()
    raises = {"ReadFault": staticmethod(lambda c: dict(when=z3.BoolVal(True), exact=False))}
    witness_sig = {"src": ([TInt], TInt)}
    ghost_vars = ("gsrc",)
    ghost_init = "gsrc = []"
    ghost_after = [("count += 1", "gsrc.append(_t)")]
    locals = dict(gsrc=TList(TInt))

    @staticmethod
    def requires(c):
        return dbinv(c.self.t["_db"])

    @staticmethod
    def _spec(c, L, n, src):
        items = c.self.t["_db"].t["_storage"].t["items"].t
        nm = c.self.t["_name"].t
        dummy = z3.Const(fresh_name("unused_list"), sort_of(TList(TInt)))
        return [x for x in in_insertion_order(dummy, L, n, lambda i: dec(l_at(items, i)), Val(OStrU, o_none(OStrU)), lambda p: z3.IntVal(0), src, None, sel=name_only(nm), proj=lambda x: z3.IntVal(0))]

    loops = {0: dict(inv=lambda c: [("ghost_len", z3.And(l_len(c.gsrc.t) == c.count.t, c.count.t >= 0))] + _ms_len._spec(c, c.count.t, c.loop(0).t, lambda a: l_at(c.gsrc.t, a)))}

    @staticmethod
    def witness(c):
        if "loop0:exit" in c.path:
            return {"src": lambda a: l_at(c.gsrc.t, a)}
        M = c.self.t["_db"].t["_index"].t["_measurements"].t
        nm = c.self.t["_name"].t
        return {"src": lambda a: l_at(z3.Select(d_val(M), nm), a)}

    @staticmethod
    def ensures(c):
        return [("non_negative", c.result.t >= 0)] + _ms_len._spec(c, c.result.t, l_len(c.self.t["_db"].t["_storage"].t["items"].t), c.wit["src"]) + valid_after_read(c.self.t["_db"])


@contract("tinyflux.measurement.Measurement.all")
class _ms_all(Contract):
    """C07/C10: all() of a measurement returns exactly the stored points of that name, in storage order or stably time-sorted"""
    params = dict(self=MS, sorted=TBool)
    defaults = dict(sorted=lambda ex: mk_bool(True))
    ret = LPt
    modifies = ()
    raises = {"ReadFault": staticmethod(lambda c: dict(when=z3.BoolVal(True), exact=False))}
    witness_sig = {"src": ([TInt], TInt)}

    @staticmethod
    def requires(c):
        return dbinv(c.self.t["_db"])

    @staticmethod
    def witness(c):
        inner = c.ghost.get("wit:tinyflux.measurement.Measurement.__iter__") or {"src": z3.Function(fresh_name("no_witness"), z3.IntSort(), z3.IntSort())}
        ls = c.ghost.get("last_sort")
        if ls is not None and "if0:T" in c.path:
            return {"src": lambda a: inner["src"](ls["pi"](a))}
        return {"src": inner["src"]}

    @staticmethod
    def ensures(c):
        R, src = c.result.t, c.wit["src"]
        items = c.self.t["_db"].t["_storage"].t["items"].t
        n = l_len(items)
        nm = c.self.t["_name"].t
        a, b, i = z3.Int(fresh_name("a")), z3.Int(fresh_name("b")), z3.Int(fresh_name("i"))
        L = l_len(R)
        return [
            ("elements", forall([a], z3.Implies(z3.And(0 <= a, a < L), z3.And(0 <= src(a), src(a) < n, meas(dec(l_at(items, src(a)))) == nm, l_at(R, a) == dec(l_at(items, src(a))))), patterns=[l_at(R, a)])),
            ("no_duplicates", forall([a, b], z3.Implies(z3.And(0 <= a, a < b, b < L), src(a) != src(b)), patterns=[z3.MultiPattern(src(a), src(b))])),
            ("every_point_of_the_name", forall([i], z3.Implies(z3.And(0 <= i, i < n, S.Tr(i), meas(dec(l_at(items, i))) == nm), z3.Exists([a], z3.And(S.Tr(a), 0 <= a, a < L, src(a) == i), patterns=[S.Tr(a), src(a)])), patterns=[l_at(items, i)])),
            ("order", z3.If(c.sorted.t, in_stable_time_order(R, src, L), in_storage_order(src, L))),
        ] + valid_after_read(c.self.t["_db"])


# ---------------------------------------------------------------------------------------------- construction: the base case of the database invariant
from pyvc.verify import Exec as _Exec
from .db_model import Cache

StorageClass = TU("StorageClass")
KWARGS = TDict(TStr, StorageClass)
_Exec.attr_handlers[("Obj_TinyFlux", "default_storage_class")] = lambda ex, v, node, st: Val(StorageClass, z3.Const("default_storage_class", sort_of(StorageClass)))
_Exec.coercions.setdefault("HandleCache", {})["EmptyDict"] = lambda ex, v: Val(Cache, z3.Const("empty_handle_cache", sort_of(Cache)))
_Exec.empty_handlers["HandleCache"] = lambda ex: Val(Cache, z3.Const("empty_handle_cache", sort_of(Cache)))
# what the storage constructor reports about itself: ASSUMED to be true exactly when the new storage object holds no item
_Exec.attr_handlers[("Obj_Storage", "_initially_empty")] = lambda ex, v, node, st: Val(TBool, l_len(v.t["items"].t) == 0)


def _construct_storage(ex, cls, node, st):
    """storage(*args, **kwargs): ASSUMED postcondition of the storage constructors - a storage with some contents, no temporary content yet"""
    s_ = fresh(STG, "new_storage", ex.classes_fields())
    for f in wf(s_):
        ex.fact(st, f)
    ex.fact(st, l_len(s_.t["temp"].t) == 0)
    return s_


_Exec.call_handlers["StorageClass"] = _construct_storage


@contract("tinyflux.database.TinyFlux.__init__")
class _db_init(Contract):
    """C06 base case: a new database satisfies the database invariant - the index is valid exactly when it represents the storage it was opened on
    (empty storage: empty valid index; existing data: rebuilt when automatic indexing is on, invalid otherwise)"""
    params = dict(self=DB, args=TU("Opaque"), auto_index=TBool, kwargs=KWARGS)
    defaults = dict(auto_index=lambda ex: mk_bool(True))
    modifies = ("_auto_index", "_storage", "_index", "_measurements", "_open")
    raises = {"OSError": staticmethod(lambda c: dict(when=z3.BoolVal(True), exact=False)), "ReadFault": staticmethod(lambda c: dict(when=z3.BoolVal(True), exact=False)),
              "AssertionError": staticmethod(lambda c: None)}

    @staticmethod
    def ensures(c):
        return dbinv(c.self) + [("auto_index_as_given", c.self.t["_auto_index"].t == c.auto_index.t),
                                ("valid_when_auto_or_empty", z3.Implies(z3.Or(c.self.t["_auto_index"].t, l_len(c.self.t["_storage"].t["items"].t) == 0), c.self.t["_index"].t["_valid"].t)),
                                ("open", c.self.t["_open"].t)]
