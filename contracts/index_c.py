"""Contracts for tinyflux/index.py."""

import z3
from pyvc.core import *  # noqa
from pyvc import spec as S
from pyvc.spec import contract, Contract
from .model import *  # noqa

IX = TObj("Index")


def dict_frame_except(new, old, key):
    """every key other than `key` keeps presence and value."""
    k = z3.Const(fresh_name("k"), sort_of(old.ty.k))
    return z3.ForAll([k], z3.Implies(k != S.T(key), z3.And(z3.Select(d_dom(new.t), k) == z3.Select(d_dom(old.t), k),
                                                         z3.Select(d_val(new.t), k) == z3.Select(d_val(old.t), k))),
                     patterns=[z3.Select(d_dom(new.t), k), z3.Select(d_val(new.t), k), z3.Select(d_dom(old.t), k), z3.Select(d_val(old.t), k)])


@contract("tinyflux.index.Index._insert_measurements")
class _insert_measurements(Contract):
    params = dict(self=IX, idx=TInt, measurement=TStr)
    modifies = ("_measurements",)

    @staticmethod
    def ensures(c):
        M0, M1, m = c.old.self.t["_measurements"], c.self.t["_measurements"], c.measurement
        n0, at0 = olist(M0, m)
        return [
            ("key_present", S.has(M1, m)),
            ("appended", is_append(S.get(M1, m).t, n0, at0, c.idx.t)),
            ("others_unchanged", dict_frame_except(M1, M0, m)),
        ]


def olist2(T, k, v):
    """(present, length, at) of T[k][v] read as [] when absent."""
    inner = z3.Select(d_val(T.t), S.T(k))
    present = z3.And(z3.Select(d_dom(T.t), S.T(k)), z3.Select(d_dom(inner), S.T(v)))
    lst = z3.Select(d_val(inner), S.T(v))
    return present, z3.If(present, l_len(lst), 0), (lambda j: l_at(lst, j))


def tags_updated(T1, T0, tags, idx, done):
    """Keys k of `tags` with done(k): posting of (k, tags[k]) gets idx appended,
    every other posting list of k is as before; all other keys untouched."""
    k = z3.Const(fresh_name("k"), sort_of(TStr))
    v2 = z3.Const(fresh_name("v"), sort_of(TagV))
    v = z3.Select(d_val(tags.t), k)
    in1 = z3.Select(d_val(T1.t), k)
    in0 = z3.Select(d_val(T0.t), k)
    p0, n0, at0 = olist2(T0, k, v)
    upd = z3.And(
        z3.Select(d_dom(T1.t), k),
        z3.Select(d_dom(in1), v),
        is_append(z3.Select(d_val(in1), v), n0, at0, idx),
        z3.ForAll([v2], z3.Implies(v2 != v, z3.And(
            z3.Select(d_dom(in1), v2) == z3.And(z3.Select(d_dom(T0.t), k), z3.Select(d_dom(in0), v2)),
            z3.Implies(z3.Select(d_dom(in1), v2), z3.Select(d_val(in1), v2) == z3.Select(d_val(in0), v2)))),
            patterns=[z3.Select(d_dom(in1), v2), z3.Select(d_val(in1), v2)]),
    )
    same = z3.And(z3.Select(d_dom(T1.t), k) == z3.Select(d_dom(T0.t), k), in1 == in0)
    return z3.ForAll([k], z3.If(done(k), upd, same), patterns=[z3.Select(d_dom(T1.t), k), z3.Select(d_val(T1.t), k)])


@contract("tinyflux.index.Index._insert_tags")
class _insert_tags(Contract):
    params = dict(self=IX, idx=TInt, tags=TagsD)
    modifies = ("_tags",)

    @staticmethod
    def ensures(c):
        tags = c.tags
        return [("updated", tags_updated(c.self.t["_tags"], c.old.self.t["_tags"], tags, c.idx.t,
                                         lambda k: z3.Select(d_dom(tags.t), k)))]

    loops = {
        0: dict(inv=lambda c: [("processed_prefix", tags_updated(
            c.self.t["_tags"], c.old.self.t["_tags"], c.tags, c.idx.t,
            lambda k: z3.And(z3.Select(d_dom(c.tags.t), k), c.loop(0).extra["idx"](k) < c.loop(0).t)))]),
    }


def fields_updated(F1, F0, fields, idx, done):
    k = z3.Const(fresh_name("k"), sort_of(TStr))
    n0, at0 = olist(F0, k)
    item = t_mk(FItem, idx, z3.Select(d_val(fields.t), k))
    upd = z3.And(z3.Select(d_dom(F1.t), k), is_append(z3.Select(d_val(F1.t), k), n0, at0, item))
    same = z3.And(z3.Select(d_dom(F1.t), k) == z3.Select(d_dom(F0.t), k), z3.Select(d_val(F1.t), k) == z3.Select(d_val(F0.t), k))
    return z3.ForAll([k], z3.If(done(k), upd, same), patterns=[z3.Select(d_dom(F1.t), k), z3.Select(d_val(F1.t), k)])


@contract("tinyflux.index.Index._insert_fields")
class _insert_fields(Contract):
    params = dict(self=IX, idx=TInt, fields=FldsD)
    modifies = ("_fields",)

    @staticmethod
    def ensures(c):
        return [("updated", fields_updated(c.self.t["_fields"], c.old.self.t["_fields"], c.fields, c.idx.t,
                                           lambda k: z3.Select(d_dom(c.fields.t), k)))]

    loops = {
        0: dict(inv=lambda c: [("processed_prefix", fields_updated(
            c.self.t["_fields"], c.old.self.t["_fields"], c.fields, c.idx.t,
            lambda k: z3.And(z3.Select(d_dom(c.fields.t), k), c.loop(0).extra["idx"](k) < c.loop(0).t)))]),
    }


@contract("tinyflux.index.Index._insert_time")
class _insert_time(Contract):
    params = dict(self=IX, time=Dt)
    modifies = ("_timestamps", "_storage_pos_sorted_by_ts")

    @staticmethod
    def ensures(c):
        o, n = c.old.self.t, c.self.t
        ts0, pos0 = o["_timestamps"].t, o["_storage_pos_sorted_by_ts"].t
        return [
            ("timestamp_appended", is_append(n["_timestamps"].t, l_len(ts0), lambda j: l_at(ts0, j), dt_ts(c.time.t))),
            ("position_appended", is_append(n["_storage_pos_sorted_by_ts"].t, l_len(pos0), lambda j: l_at(pos0, j), l_len(ts0))),
        ]


# ---------------------------------------------------------------- reset / init


def all_empty(ix):
    f = ix.t
    k = z3.Const(fresh_name("k"), sort_of(TStr))
    return [
        ("num_items_zero", f["_num_items"].t == 0),
        ("tags_empty", z3.ForAll([k], z3.Not(z3.Select(d_dom(f["_tags"].t), k)))),
        ("fields_empty", z3.ForAll([k], z3.Not(z3.Select(d_dom(f["_fields"].t), k)))),
        ("measurements_empty", z3.ForAll([k], z3.Not(z3.Select(d_dom(f["_measurements"].t), k)))),
        ("timestamps_empty", l_len(f["_timestamps"].t) == 0),
        ("storage_pos_empty", l_len(f["_storage_pos_sorted_by_ts"].t) == 0),
    ]


EMPTY_VIEW = lambda ex=None: Val(LPt, l_mk(LPt, z3.IntVal(0), z3.Const("empty_view_arr", z3.ArraySort(z3.IntSort(), sort_of(Pt)))))
ALL_FIELDS = ("_num_items", "_tags", "_fields", "_measurements", "_timestamps", "_valid", "_storage_pos_sorted_by_ts", "_S")


@contract("tinyflux.index.Index._reset")
class _reset(Contract):
    """C06: after a reset the index represents the empty view: all six structures empty."""
    params = dict(self=IX)
    modifies = ALL_FIELDS

    @staticmethod
    def ghost_exit(c):
        return {"_S": EMPTY_VIEW()}

    @staticmethod
    def ensures(c):
        return all_empty(c.self) + [("valid", c.self.t["_valid"].t), ("view_empty", l_len(c.self.t["_S"].t) == 0)]


@contract("tinyflux.index.Index.__init__")
class _init(Contract):
    params = dict(self=IX, valid=TBool)
    modifies = ALL_FIELDS
    defaults = dict(valid=lambda ex: mk_bool(True))

    @staticmethod
    def ghost_exit(c):
        return {"_S": EMPTY_VIEW()}

    @staticmethod
    def ensures(c):
        return all_empty(c.self) + [("valid_flag", c.self.t["_valid"].t == c.valid.t), ("view_empty", l_len(c.self.t["_S"].t) == 0)]


@contract("tinyflux.index.Index.invalidate")
class _invalidate(Contract):
    params = dict(self=IX)
    modifies = ALL_FIELDS

    @staticmethod
    def ghost_exit(c):
        return {"_S": EMPTY_VIEW()}

    @staticmethod
    def ensures(c):
        return all_empty(c.self) + [("invalid", z3.Not(c.self.t["_valid"].t)), ("view_empty", l_len(c.self.t["_S"].t) == 0)]


@contract("tinyflux.index.Index.valid")
class _valid(Contract):
    params = dict(self=IX)
    ret = TBool

    @staticmethod
    def ensures(c):
        return [("is_flag", c.result.t == c.self.t["_valid"].t)]


@contract("tinyflux.index.Index.__len__")
class _len(Contract):
    params = dict(self=IX)
    ret = TInt

    @staticmethod
    def ensures(c):
        return [("is_num_items", c.result.t == c.self.t["_num_items"].t)]


@contract("tinyflux.index.Index.empty")
class _empty(Contract):
    params = dict(self=IX)
    ret = TBool

    @staticmethod
    def ensures(c):
        f = c.self.t
        k = z3.Const(fresh_name("k"), sort_of(TStr))
        e = z3.And(f["_num_items"].t == 0,
                   z3.Not(z3.Exists([k], z3.Select(d_dom(f["_tags"].t), k))),
                   z3.Not(z3.Exists([k], z3.Select(d_dom(f["_fields"].t), k))),
                   z3.Not(z3.Exists([k], z3.Select(d_dom(f["_measurements"].t), k))),
                   l_len(f["_timestamps"].t) == 0)
        return [("iff_all_empty", c.result.t == e)]


# ---------------------------------------------------------------- insert / build


def is_concat(new, a, b):
    j = z3.Int(fresh_name("j"))
    na = l_len(a.t)
    return z3.And(
        l_len(new.t) == na + l_len(b.t),
        z3.ForAll([j], z3.Implies(z3.And(0 <= j, j < l_len(new.t)),
                                  l_at(new.t, j) == z3.If(j < na, l_at(a.t, j), l_at(b.t, j - na))), patterns=[l_at(new.t, j)]))


def mk_concat(a, b):
    j = z3.Int(fresh_name("j"))
    na = l_len(a.t)
    return Val(a.ty, l_mk(a.ty, na + l_len(b.t), z3.Lambda([j], z3.If(j < na, l_at(a.t, j), l_at(b.t, j - na)))))


REPR_FIELDS = ("_num_items", "_tags", "_fields", "_measurements", "_timestamps", "_storage_pos_sorted_by_ts", "_S")


@contract("tinyflux.index.Index.insert")
class _insert(Contract):
    """C06: appending points in non-decreasing time order keeps Repr, for the view S ++ points."""
    params = dict(self=IX, points=LPt)
    modifies = REPR_FIELDS

    @staticmethod
    def requires(c):
        pts, f = c.points, c.self.t
        n = l_len(f["_S"].t)
        TSl = f["_timestamps"].t
        j, k = z3.Int(fresh_name("j")), z3.Int(fresh_name("k"))
        return repr_self(c.self) + [
            ("points_time_ordered", z3.ForAll([j, k], z3.Implies(z3.And(0 <= j, j <= k, k < l_len(pts.t)), ts(l_at(pts.t, j)) <= ts(l_at(pts.t, k))),
                                              patterns=[z3.MultiPattern(l_at(pts.t, j), l_at(pts.t, k))])),
            ("not_before_latest", z3.ForAll([j], z3.Implies(z3.And(n > 0, 0 <= j, j < l_len(pts.t)), l_at(TSl, n - 1) <= ts(l_at(pts.t, j))),
                                            patterns=[l_at(pts.t, j)])),
        ]

    @staticmethod
    def ghost_exit(c):
        return {"_S": c.V}

    @staticmethod
    def ensures(c):
        return repr_self(c.self) + [("view_is_concat", is_concat(c.self.t["_S"], c.old.self.t["_S"], c.points))]

    @staticmethod
    def ghost_defs(c):
        V = fresh(LPt, "V")
        return {"V": (V, [is_concat(V, c.self.t["_S"], c.points)])}

    @staticmethod
    def _inv(c):
        S0, V = c.old.self.t["_S"], c.V
        t = c.loop(0).t
        TSl, pts = c.self.t["_timestamps"].t, c.points.t
        j, k = z3.Int(fresh_name("j")), z3.Int(fresh_name("k"))
        ub = z3.ForAll([j, k], z3.Implies(z3.And(0 <= j, j < l_len(S0.t) + t, t <= k, k < l_len(pts)), l_at(TSl, j) <= ts(l_at(pts, k))),
                       patterns=[z3.MultiPattern(l_at(TSl, j), l_at(pts, k))])
        return [("start_idx", c.start_idx.t == l_len(S0.t)), ("remaining_points_not_earlier", ub)] + repr_all(c.self, l_len(S0.t) + t, lambda j: l_at(V.t, j))

    loops = {0: dict(inv=lambda c: _insert._inv(c))}
