"""Contracts for tinyflux/index.py."""

import z3
from pyvc.core import *  # noqa
from pyvc import spec as S
from pyvc.spec import contract, Contract
from .model import *  # noqa

IX = TObj("Index")


def dict_frame_except(new, old, key):
    """every key other than `key` keeps presence and value."""
    k = z3.Const(fresh_name("k"), sort_of(old.ty.k))
    return forall([k], z3.Implies(k != S.T(key), z3.And(z3.Select(d_dom(new.t), k) == z3.Select(d_dom(old.t), k),
                                                         z3.Select(d_val(new.t), k) == z3.Select(d_val(old.t), k))),
                     patterns=[z3.Select(d_dom(new.t), k), z3.Select(d_val(new.t), k), z3.Select(d_dom(old.t), k), z3.Select(d_val(old.t), k)])


@contract("tinyflux.index.Index._insert_measurements")
class _insert_measurements(Contract):
    params = dict(self=IX, idx=TInt, measurement=TStr)
    modifies = ("_measurements",)

    @staticmethod
    def ensures(c):
        M0, M1, m = c.old.self.t["_measurements"], c.self.t["_measurements"], c.measurement
        n0, at0 = olist(M0, m)
        return [
            ("key_present", S.has(M1, m)),
            ("appended", is_append(S.get(M1, m).t, n0, at0, c.idx.t)),
            ("others_unchanged", dict_frame_except(M1, M0, m)),
        ]


def olist2(T, k, v):
    """(present, length, at) of T[k][v] read as [] when absent."""
    inner = z3.Select(d_val(T.t), S.T(k))
    present = z3.And(z3.Select(d_dom(T.t), S.T(k)), z3.Select(d_dom(inner), S.T(v)))
    lst = z3.Select(d_val(inner), S.T(v))
    return present, z3.If(present, l_len(lst), 0), (lambda j: l_at(lst, j))


def tags_updated(T1, T0, tags, idx, done):
    """Keys k of `tags` with done(k): posting of (k, tags[k]) gets idx appended,
    every other posting list of k is as before; all other keys untouched."""
    k = z3.Const(fresh_name("k"), sort_of(TStr))
    v2 = z3.Const(fresh_name("v"), sort_of(TagV))
    v = z3.Select(d_val(tags.t), k)
    in1 = z3.Select(d_val(T1.t), k)
    in0 = z3.Select(d_val(T0.t), k)
    p0, n0, at0 = olist2(T0, k, v)
    upd = z3.And(
        z3.Select(d_dom(T1.t), k),
        z3.Select(d_dom(in1), v),
        is_append(z3.Select(d_val(in1), v), n0, at0, idx),
        forall([v2], z3.Implies(v2 != v, z3.And(
            z3.Select(d_dom(in1), v2) == z3.And(z3.Select(d_dom(T0.t), k), z3.Select(d_dom(in0), v2)),
            z3.Implies(z3.Select(d_dom(in1), v2), z3.Select(d_val(in1), v2) == z3.Select(d_val(in0), v2)))),
            patterns=[z3.Select(d_dom(in1), v2), z3.Select(d_val(in1), v2)]),
    )
    same = z3.And(z3.Select(d_dom(T1.t), k) == z3.Select(d_dom(T0.t), k), in1 == in0)
    return forall([k], z3.If(done(k), upd, same), patterns=[z3.Select(d_dom(T1.t), k), z3.Select(d_val(T1.t), k)])


@contract("tinyflux.index.Index._insert_tags")
class _insert_tags(Contract):
    params = dict(self=IX, idx=TInt, tags=TagsD)
    modifies = ("_tags",)

    @staticmethod
    def ensures(c):
        tags = c.tags
        return [("updated", tags_updated(c.self.t["_tags"], c.old.self.t["_tags"], tags, c.idx.t,
                                         lambda k: z3.Select(d_dom(tags.t), k)))]

    loops = {
        0: dict(inv=lambda c: [("processed_prefix", tags_updated(
            c.self.t["_tags"], c.old.self.t["_tags"], c.tags, c.idx.t,
            lambda k: z3.And(z3.Select(d_dom(c.tags.t), k), c.loop(0).extra["idx"](k) < c.loop(0).t)))]),
    }


def fields_updated(F1, F0, fields, idx, done):
    k = z3.Const(fresh_name("k"), sort_of(TStr))
    n0, at0 = olist(F0, k)
    item = t_mk(FItem, idx, z3.Select(d_val(fields.t), k))
    upd = z3.And(z3.Select(d_dom(F1.t), k), is_append(z3.Select(d_val(F1.t), k), n0, at0, item))
    same = z3.And(z3.Select(d_dom(F1.t), k) == z3.Select(d_dom(F0.t), k), z3.Select(d_val(F1.t), k) == z3.Select(d_val(F0.t), k))
    return forall([k], z3.If(done(k), upd, same), patterns=[z3.Select(d_dom(F1.t), k), z3.Select(d_val(F1.t), k)])


@contract("tinyflux.index.Index._insert_fields")
class _insert_fields(Contract):
    params = dict(self=IX, idx=TInt, fields=FldsD)
    modifies = ("_fields",)

    @staticmethod
    def ensures(c):
        return [("updated", fields_updated(c.self.t["_fields"], c.old.self.t["_fields"], c.fields, c.idx.t,
                                           lambda k: z3.Select(d_dom(c.fields.t), k)))]

    loops = {
        0: dict(inv=lambda c: [("processed_prefix", fields_updated(
            c.self.t["_fields"], c.old.self.t["_fields"], c.fields, c.idx.t,
            lambda k: z3.And(z3.Select(d_dom(c.fields.t), k), c.loop(0).extra["idx"](k) < c.loop(0).t)))]),
    }


@contract("tinyflux.index.Index._insert_time")
class _insert_time(Contract):
    params = dict(self=IX, time=Dt)
    modifies = ("_timestamps", "_storage_pos_sorted_by_ts")

    @staticmethod
    def ensures(c):
        o, n = c.old.self.t, c.self.t
        ts0, pos0 = o["_timestamps"].t, o["_storage_pos_sorted_by_ts"].t
        return [
            ("timestamp_appended", is_append(n["_timestamps"].t, l_len(ts0), lambda j: l_at(ts0, j), dt_ts(c.time.t))),
            ("position_appended", is_append(n["_storage_pos_sorted_by_ts"].t, l_len(pos0), lambda j: l_at(pos0, j), l_len(ts0))),
        ]


# ---------------------------------------------------------------- reset / init


def all_empty(ix):
    f = ix.t
    k = z3.Const(fresh_name("k"), sort_of(TStr))
    return [
        ("num_items_zero", f["_num_items"].t == 0),
        ("tags_empty", forall([k], z3.Not(z3.Select(d_dom(f["_tags"].t), k)))),
        ("fields_empty", forall([k], z3.Not(z3.Select(d_dom(f["_fields"].t), k)))),
        ("measurements_empty", forall([k], z3.Not(z3.Select(d_dom(f["_measurements"].t), k)))),
        ("timestamps_empty", l_len(f["_timestamps"].t) == 0),
        ("storage_pos_empty", l_len(f["_storage_pos_sorted_by_ts"].t) == 0),
    ]


EMPTY_VIEW = lambda ex=None: Val(LPt, l_mk(LPt, z3.IntVal(0), z3.Const("empty_view_arr", z3.ArraySort(z3.IntSort(), sort_of(Pt)))))
ALL_FIELDS = ("_num_items", "_tags", "_fields", "_measurements", "_timestamps", "_valid", "_storage_pos_sorted_by_ts", "_S")


@contract("tinyflux.index.Index._reset")
class _reset(Contract):
    """C06: after a reset the index represents the empty view: all six structures empty."""
    params = dict(self=IX)
    modifies = ALL_FIELDS

    @staticmethod
    def ghost_exit(c):
        return {"_S": EMPTY_VIEW()}

    @staticmethod
    def ensures(c):
        return all_empty(c.self) + [("valid", c.self.t["_valid"].t), ("view_empty", l_len(c.self.t["_S"].t) == 0)]


@contract("tinyflux.index.Index.__init__")
class _init(Contract):
    params = dict(self=IX, valid=TBool)
    modifies = ALL_FIELDS
    defaults = dict(valid=lambda ex: mk_bool(True))

    @staticmethod
    def ghost_exit(c):
        return {"_S": EMPTY_VIEW()}

    @staticmethod
    def ensures(c):
        return all_empty(c.self) + [("valid_flag", c.self.t["_valid"].t == c.valid.t), ("view_empty", l_len(c.self.t["_S"].t) == 0)]


@contract("tinyflux.index.Index.invalidate")
class _invalidate(Contract):
    params = dict(self=IX)
    modifies = ALL_FIELDS

    @staticmethod
    def ghost_exit(c):
        return {"_S": EMPTY_VIEW()}

    @staticmethod
    def ensures(c):
        return all_empty(c.self) + [("invalid", z3.Not(c.self.t["_valid"].t)), ("view_empty", l_len(c.self.t["_S"].t) == 0)]


@contract("tinyflux.index.Index.valid")
class _valid(Contract):
    params = dict(self=IX)
    ret = TBool

    @staticmethod
    def ensures(c):
        return [("is_flag", c.result.t == c.self.t["_valid"].t)]


@contract("tinyflux.index.Index.__len__")
class _len(Contract):
    params = dict(self=IX)
    ret = TInt

    @staticmethod
    def ensures(c):
        return [("is_num_items", c.result.t == c.self.t["_num_items"].t)]


@contract("tinyflux.index.Index.empty")
class _empty(Contract):
    params = dict(self=IX)
    ret = TBool

    @staticmethod
    def ensures(c):
        f = c.self.t
        k = z3.Const(fresh_name("k"), sort_of(TStr))
        e = z3.And(f["_num_items"].t == 0,
                   z3.Not(z3.Exists([k], z3.Select(d_dom(f["_tags"].t), k))),
                   z3.Not(z3.Exists([k], z3.Select(d_dom(f["_fields"].t), k))),
                   z3.Not(z3.Exists([k], z3.Select(d_dom(f["_measurements"].t), k))),
                   l_len(f["_timestamps"].t) == 0)
        return [("iff_all_empty", c.result.t == e)]


# ---------------------------------------------------------------- insert / build


def is_concat(new, a, b):
    j = z3.Int(fresh_name("j"))
    na = l_len(a.t)
    return z3.And(
        l_len(new.t) == na + l_len(b.t),
        forall([j], z3.Implies(z3.And(0 <= j, j < l_len(new.t)),
                                  l_at(new.t, j) == z3.If(j < na, l_at(a.t, j), l_at(b.t, j - na))), patterns=[l_at(new.t, j)]))


def mk_concat(a, b):
    j = z3.Int(fresh_name("j"))
    na = l_len(a.t)
    return Val(a.ty, l_mk(a.ty, na + l_len(b.t), z3.Lambda([j], z3.If(j < na, l_at(a.t, j), l_at(b.t, j - na)))))


REPR_FIELDS = ("_num_items", "_tags", "_fields", "_measurements", "_timestamps", "_storage_pos_sorted_by_ts", "_S")


@contract("tinyflux.index.Index.insert")
class _insert(Contract):
    """C06: appending points in non-decreasing time order keeps Repr, for the view S ++ points."""
    params = dict(self=IX, points=LPt)
    modifies = REPR_FIELDS

    @staticmethod
    def requires(c):
        pts, f = c.points, c.self.t
        n = l_len(f["_S"].t)
        TSl = f["_timestamps"].t
        j, k = z3.Int(fresh_name("j")), z3.Int(fresh_name("k"))
        return repr_self(c.self) + [
            ("points_time_ordered", forall([j, k], z3.Implies(z3.And(0 <= j, j <= k, k < l_len(pts.t)), ts(l_at(pts.t, j)) <= ts(l_at(pts.t, k))),
                                              patterns=[z3.MultiPattern(l_at(pts.t, j), l_at(pts.t, k))])),
            ("not_before_latest", forall([j], z3.Implies(z3.And(n > 0, 0 <= j, j < l_len(pts.t)), l_at(TSl, n - 1) <= ts(l_at(pts.t, j))),
                                            patterns=[l_at(pts.t, j)])),
        ]

    @staticmethod
    def ghost_exit(c):
        return {"_S": c.V}

    @staticmethod
    def ensures(c):
        j = z3.Int(fresh_name("j"))
        TS0, TS1, pts = c.old.self.t["_timestamps"].t, c.self.t["_timestamps"].t, c.points.t
        app = z3.And(l_len(TS1) == l_len(TS0) + l_len(pts),
                     forall([j], z3.Implies(z3.And(0 <= j, j < l_len(TS0)), l_at(TS1, j) == l_at(TS0, j)), patterns=[l_at(TS1, j), l_at(TS0, j)]),
                     forall([j], z3.Implies(z3.And(0 <= j, j < l_len(pts)), l_at(TS1, l_len(TS0) + j) == ts(l_at(pts, j))), patterns=[l_at(pts, j)]))
        return repr_self(c.self) + [("view_is_concat", is_concat(c.self.t["_S"], c.old.self.t["_S"], c.points)), ("timestamps_appended", app),
                                    ("valid_flag_kept", c.self.t["_valid"].t == c.old.self.t["_valid"].t)]

    @staticmethod
    def ghost_defs(c):
        V = fresh(LPt, "V")
        return {"V": (V, [is_concat(V, c.self.t["_S"], c.points)])}

    @staticmethod
    def _inv(c):
        S0, V = c.old.self.t["_S"], c.V
        t = c.loop(0).t
        TSl, pts = c.self.t["_timestamps"].t, c.points.t
        j, k = z3.Int(fresh_name("j")), z3.Int(fresh_name("k"))
        ub = forall([j, k], z3.Implies(z3.And(0 <= j, j < l_len(S0.t) + t, t <= k, k < l_len(pts)), l_at(TSl, j) <= ts(l_at(pts, k))),
                       patterns=[z3.MultiPattern(l_at(TSl, j), l_at(pts, k))])
        TS0 = c.old.self.t["_timestamps"].t
        j2 = z3.Int(fresh_name("j2"))
        app = z3.And(forall([j2], z3.Implies(z3.And(0 <= j2, j2 < l_len(TS0)), l_at(TSl, j2) == l_at(TS0, j2)), patterns=[l_at(TSl, j2), l_at(TS0, j2)]),
                     forall([j2], z3.Implies(z3.And(0 <= j2, j2 < t), l_at(TSl, l_len(TS0) + j2) == ts(l_at(pts, j2))), patterns=[l_at(pts, j2)]))
        return [("start_idx", c.start_idx.t == l_len(S0.t)), ("remaining_points_not_earlier", ub), ("timestamps_appended_so_far", app)] + repr_all(c.self, l_len(S0.t) + t, lambda j: l_at(V.t, j))

    loops = {0: dict(inv=lambda c: _insert._inv(c))}


TBuf = TList(TTuple([TReal, TInt]))


@contract("tinyflux.index.Index.build")
class _build(Contract):
    """C06: build establishes Repr for exactly the given points, from any prior state."""
    params = dict(self=IX, points=LPt)
    modifies = ALL_FIELDS
    # `points` is produced by reading storage: any next() may raise (an I/O error, an undecodable row) instead of yielding (C13)
    fallible_iter = {"points": "ReadFault"}
    raises = {"ReadFault": staticmethod(lambda c: dict(when=z3.BoolVal(True), exact=False, ensures=lambda c2: [("index_not_valid", z3.Not(c2.self.t["_valid"].t))]))}

    @staticmethod
    def ghost_exit(c):
        return {"_S": c.points}

    @staticmethod
    def ensures(c):
        return repr_self(c.self) + [("valid", c.self.t["_valid"].t), ("view_is_points", c.self.t["_S"].t == c.points.t)]

    @staticmethod
    def _inv(c):
        pts, t = c.points.t, c.loop(0).t
        buf = c.timestamp_buffer.t
        j = z3.Int(fresh_name("j"))
        f = c.self.t
        return [
            ("not_valid_while_building", z3.Not(f["_valid"].t)),
            ("time_lists_empty", z3.And(l_len(f["_timestamps"].t) == 0, l_len(f["_storage_pos_sorted_by_ts"].t) == 0)),
            ("buffer_len", l_len(buf) == t),
            ("buffer_items", forall([j], z3.Implies(z3.And(0 <= j, j < t), z3.And(t_get(l_at(buf, j), 0) == ts(l_at(pts, j)), t_get(l_at(buf, j), 1) == j)),
                                       patterns=[l_at(buf, j)])),
        ] + repr_all(c.self, t, lambda i: l_at(pts, i), parts=("num", "meas", "tags", "fields"))

    loops = {0: dict(inv=lambda c: _build._inv(c))}


# ---------------------------------------------------------------- remove helpers


def _keep(c):
    R = c.r_items
    return lambda e: z3.Not(z3.Select(R.t, e))


def _r_in_range(c):
    n, _ = view_of(c.self)
    x = z3.Int(fresh_name("x"))
    return ("r_items_in_range", forall([x], z3.Implies(z3.Select(c.r_items.t, x), z3.And(0 <= x, x < n)), patterns=[z3.Select(c.r_items.t, x)]))


@contract("tinyflux.index.Index._remove_measurements")
class _remove_measurements(Contract):
    params = dict(self=IX, r_items=SInt)
    modifies = ("_measurements",)
    locals = dict(new_measurements=MeasIx)

    @staticmethod
    def requires(c):
        n, P = view_of(c.self)
        return [("view_len", n >= 0)] + repr_meas(c.self.t["_measurements"], n, P)

    @staticmethod
    def ensures(c):
        n, P = view_of(c.old.self)
        return repr_meas(c.self.t["_measurements"], n, P, keep=_keep(c))

    @staticmethod
    def _inv(c):
        n, P = view_of(c.old.self)
        li = c.loop(0)
        M0 = c.old.self.t["_measurements"]
        done = lambda m: z3.And(z3.Select(d_dom(M0.t), m), li.extra["idx"](m) < li.t)
        return [("index_untouched", c.self.t["_measurements"].t == M0.t)] + repr_meas(c.new_measurements, n, P, keep=_keep(c), only=done)

    loops = {0: dict(inv=lambda c: _remove_measurements._inv(c))}


@contract("tinyflux.index.Index._remove_fields")
class _remove_fields(Contract):
    params = dict(self=IX, r_items=SInt)
    modifies = ("_fields",)
    locals = dict(new_fields=FldIx)

    @staticmethod
    def requires(c):
        n, P = view_of(c.self)
        return [("view_len", n >= 0)] + repr_fields(c.self.t["_fields"], n, P)

    @staticmethod
    def ensures(c):
        n, P = view_of(c.old.self)
        return repr_fields(c.self.t["_fields"], n, P, keep=_keep(c))

    @staticmethod
    def _inv(c):
        n, P = view_of(c.old.self)
        li = c.loop(0)
        F0 = c.old.self.t["_fields"]
        done = lambda k: z3.And(z3.Select(d_dom(F0.t), k), li.extra["idx"](k) < li.t)
        return [("index_untouched", c.self.t["_fields"].t == F0.t)] + repr_fields(c.new_fields, n, P, keep=_keep(c), only=done)

    loops = {0: dict(inv=lambda c: _remove_fields._inv(c))}


@contract("tinyflux.index.Index._remove_tags")
class _remove_tags(Contract):
    params = dict(self=IX, r_items=SInt)
    modifies = ("_tags",)
    locals = dict(new_tags=TagIx)

    @staticmethod
    def requires(c):
        n, P = view_of(c.self)
        return [("view_len", n >= 0)] + repr_tags(c.self.t["_tags"], n, P)

    @staticmethod
    def ensures(c):
        n, P = view_of(c.old.self)
        return repr_tags(c.self.t["_tags"], n, P, keep=_keep(c))

    @staticmethod
    def _done0(c):
        T0 = c.old.self.t["_tags"]
        l0 = c.loop(0)
        return lambda k: z3.And(z3.Select(d_dom(T0.t), k), l0.extra["idx"](k) < l0.t)

    @staticmethod
    def _inv0(c):
        n, P = view_of(c.old.self)
        T0 = c.old.self.t["_tags"]
        d0 = _remove_tags._done0(c)
        return [("index_untouched", c.self.t["_tags"].t == T0.t)] + repr_tags(c.new_tags, n, P, keep=_keep(c), only=lambda k, v: d0(k))

    @staticmethod
    def _inv1(c):
        n, P = view_of(c.old.self)
        T0 = c.old.self.t["_tags"]
        l0, l1 = c.loop(0), c.loop(1)
        d0 = _remove_tags._done0(c)
        cur = c.tag_key.t
        inner0 = z3.Select(d_val(T0.t), cur)
        only = lambda k, v: z3.Or(d0(k), z3.And(k == cur, z3.Select(d_dom(inner0), v), l1.extra["idx"](v) < l1.t))
        return [
            ("index_untouched", c.self.t["_tags"].t == T0.t),
            ("current_key", z3.And(z3.Select(d_dom(T0.t), cur), l0.extra["idx"](cur) == l0.t, c.tag_values.t == inner0)),
        ] + repr_tags(c.new_tags, n, P, keep=_keep(c), only=only)

    loops = {0: dict(inv=lambda c: _remove_tags._inv0(c)), 1: dict(inv=lambda c: _remove_tags._inv1(c))}


@contract("tinyflux.index.Index._remove_timestamps")
class _remove_timestamps(Contract):
    """C06: both time lists lose exactly the entries whose *storage position* is removed."""
    params = dict(self=IX, r_items=SInt)
    modifies = ("_timestamps", "_storage_pos_sorted_by_ts")
    locals = dict(new_timestamps=LReal, new_positions=LInt)

    @staticmethod
    def requires(c):
        n, P = view_of(c.self)
        f = c.self.t
        return [("view_len", n >= 0)] + repr_time(f["_timestamps"], f["_storage_pos_sorted_by_ts"], n, P)

    @staticmethod
    def ensures(c):
        n, P = view_of(c.old.self)
        f = c.self.t
        return sparse_time(f["_timestamps"], f["_storage_pos_sorted_by_ts"], n, P, _keep(c))

    @staticmethod
    def _inv(c):
        n, P = view_of(c.old.self)
        f0 = c.old.self.t
        TS0, POS0 = f0["_timestamps"].t, f0["_storage_pos_sorted_by_ts"].t
        t = c.loop(0).t
        keep = _keep(c)
        out = [("index_untouched", z3.And(c.self.t["_timestamps"].t == TS0, c.self.t["_storage_pos_sorted_by_ts"].t == POS0))]
        if not c.has("new_positions"):
            # shape of the code before the repair: only the timestamps are filtered
            return out + [("len", l_len(c.new_timestamps.t) <= t)]
        nt, npos = c.new_timestamps.t, c.new_positions.t
        m = l_len(npos)
        a, b, j = z3.Int(fresh_name("a")), z3.Int(fresh_name("b")), z3.Int(fresh_name("j"))
        return out + [
            ("lengths", z3.And(l_len(nt) == m, m <= t)),
            ("origin", forall([a], z3.Implies(z3.And(0 <= a, a < m),
                                                 z3.And(keep(l_at(npos, a)),
                                                        z3.Exists([j], z3.And(0 <= j, j < t, l_at(POS0, j) == l_at(npos, a), l_at(TS0, j) == l_at(nt, a))))),
                                 patterns=[l_at(npos, a), l_at(nt, a)])),
            ("order_preserved", forall([a, b], z3.Implies(z3.And(0 <= a, a < b, b < m),
                                                             z3.And(l_at(nt, a) <= l_at(nt, b), l_at(npos, a) != l_at(npos, b))),
                                          patterns=[z3.MultiPattern(l_at(npos, a), l_at(npos, b)), z3.MultiPattern(l_at(nt, a), l_at(nt, b))])),
            ("complete", forall([j], z3.Implies(z3.And(0 <= j, j < t, keep(l_at(POS0, j))),
                                                   z3.Exists([a], z3.And(0 <= a, a < m, l_at(npos, a) == l_at(POS0, j)))),
                                   patterns=[l_at(POS0, j)])),
        ]

    loops = {0: dict(inv=lambda c: _remove_timestamps._inv(c))}


# ---------------------------------------------------------------- remove / update

Unum = TDict(TInt, TInt)
renum = z3.Function("renum_view", sort_of(LPt), sort_of(Unum), sort_of(LPt))  # ghost: the view after renumbering


def sparse_all(ix, n, P, keep, parts=("meas", "tags", "fields", "time")):
    f = ix.t
    out = []
    if "meas" in parts:
        out += repr_meas(f["_measurements"], n, P, keep=keep)
    if "tags" in parts:
        out += repr_tags(f["_tags"], n, P, keep=keep)
    if "fields" in parts:
        out += repr_fields(f["_fields"], n, P, keep=keep)
    if "time" in parts:
        out += sparse_time(f["_timestamps"], f["_storage_pos_sorted_by_ts"], n, P, keep)
    return out


@contract("tinyflux.index.Index.remove")
class _remove(Contract):
    """C06/C02: after remove(R) every structure holds exactly the surviving old positions."""
    params = dict(self=IX, r_items=SInt)
    modifies = ("_num_items", "_tags", "_fields", "_measurements", "_timestamps", "_storage_pos_sorted_by_ts", "_R")

    @staticmethod
    def requires(c):
        return repr_self(c.self) + [_r_in_range(c)]

    @staticmethod
    def ghost_exit(c):
        return {"_R": c.r_items}

    @staticmethod
    def ensures(c):
        n, P = view_of(c.old.self)
        card = z3.Function("card_Int", sort_of(SInt), z3.IntSort())
        return sparse_all(c.self, n, P, _keep(c)) + [
            ("num_items", c.self.t["_num_items"].t == n - card(c.r_items.t)),
            ("pending_removed", c.self.t["_R"].t == c.r_items.t),
        ]


def np_of(U):
    return lambda i: z3.If(z3.Select(d_dom(U.t), i), z3.Select(d_val(U.t), i), i)


def update_pre(c, parts):
    """Shared precondition of update and its helpers (DESIGN A.1)."""
    ix, U = c.self, c.u_items
    n, P = view_of(ix)
    R = ix.t["_R"].t
    keep = lambda e: z3.Not(z3.Select(R, e))
    npf = np_of(U)
    n2 = ix.t["_num_items"].t
    i, i2, p = z3.Int(fresh_name("i")), z3.Int(fresh_name("i2")), z3.Int(fresh_name("p"))
    kept = lambda x: z3.And(0 <= x, x < n, keep(x))
    return [("view_len", n >= 0), ("something_kept", n2 > 0)] + sparse_all(ix, n, P, keep, parts) + [
        ("renumber_in_range", forall([i], z3.Implies(kept(i), z3.And(0 <= npf(i), npf(i) < n2)), patterns=[z3.Select(d_dom(U.t), i)])),
        ("renumber_monotone", forall([i, i2], z3.Implies(z3.And(kept(i), kept(i2), i < i2), npf(i) < npf(i2)),
                                        patterns=[z3.MultiPattern(z3.Select(d_dom(U.t), i), z3.Select(d_dom(U.t), i2))])),
        ("renumber_onto", forall([p], z3.Implies(z3.And(0 <= p, p < n2, S.Tr(p)), z3.Exists([i], z3.And(kept(i), npf(i) == p))), patterns=[S.Tr(p)])),
    ]


def new_view(c_old):
    """(n', P', definitional facts) of the renumbered view."""
    ix, U = c_old.self, c_old.u_items
    n, P = view_of(ix)
    R = ix.t["_R"].t
    V = renum(ix.t["_S"].t, U.t)
    npf = np_of(U)
    n2 = ix.t["_num_items"].t
    i = z3.Int(fresh_name("i"))
    facts = [l_len(V) == n2,
             forall([i], z3.Implies(z3.And(0 <= i, i < n, z3.Not(z3.Select(R, i))), l_at(V, npf(i)) == P(i)),
                       patterns=[z3.Select(d_dom(U.t), i)])]
    return V, facts


def _mapped_lists_inv(new, old, npf, done, elem=lambda x: x, setelem=None):
    """processed keys hold the renumbered list, the others the old one; domain unchanged."""
    k = z3.Const(fresh_name("k"), sort_of(old.ty.k))
    j = z3.Int(fresh_name("j"))
    nl, ol = z3.Select(d_val(new.t), k), z3.Select(d_val(old.t), k)
    return [
        ("domain_unchanged", d_dom(new.t) == d_dom(old.t)),
        ("pending_unchanged", forall([k], z3.Implies(z3.Not(done(k)), nl == ol), patterns=[nl])),
        ("processed_len", forall([k], z3.Implies(done(k), l_len(nl) == l_len(ol)), patterns=[nl])),
        ("processed_mapped", forall([k, j], z3.Implies(z3.And(done(k), 0 <= j, j < l_len(ol)), setelem(l_at(nl, j), l_at(ol, j))),
                                       patterns=[l_at(nl, j), l_at(ol, j)])),
    ]


@contract("tinyflux.index.Index._update_measurements")
class _update_measurements(Contract):
    params = dict(self=IX, u_items=Unum)
    modifies = ("_measurements",)

    @staticmethod
    def requires(c):
        return update_pre(c, ("meas",))

    @staticmethod
    def ghost_defs(c):
        V, facts = new_view(c)
        return {"Vnew": (Val(LPt, V), facts)}

    @staticmethod
    def ensures(c):
        V = c.Vnew.t
        return repr_meas(c.self.t["_measurements"], l_len(V), lambda j: l_at(V, j))

    @staticmethod
    def _inv(c):
        M0 = c.old.self.t["_measurements"]
        li = c.loop(0)
        done = lambda m: z3.And(z3.Select(d_dom(M0.t), m), li.extra["idx"](m) < li.t)
        npf = np_of(c.u_items)
        return _mapped_lists_inv(c.self.t["_measurements"], M0, npf, done, setelem=lambda a, b: a == npf(b))

    loops = {0: dict(inv=lambda c: _update_measurements._inv(c))}


@contract("tinyflux.index.Index._update_fields")
class _update_fields(Contract):
    params = dict(self=IX, u_items=Unum)
    modifies = ("_fields",)

    @staticmethod
    def requires(c):
        return update_pre(c, ("fields",))

    @staticmethod
    def ghost_defs(c):
        V, facts = new_view(c)
        return {"Vnew": (Val(LPt, V), facts)}

    @staticmethod
    def ensures(c):
        V = c.Vnew.t
        return repr_fields(c.self.t["_fields"], l_len(V), lambda j: l_at(V, j))

    @staticmethod
    def _inv(c):
        F0 = c.old.self.t["_fields"]
        li = c.loop(0)
        done = lambda k: z3.And(z3.Select(d_dom(F0.t), k), li.extra["idx"](k) < li.t)
        npf = np_of(c.u_items)
        return _mapped_lists_inv(c.self.t["_fields"], F0, npf, done,
                                 setelem=lambda a, b: z3.And(t_get(a, 0) == npf(t_get(b, 0)), t_get(a, 1) == t_get(b, 1)))

    loops = {0: dict(inv=lambda c: _update_fields._inv(c))}


def _mapped_tags_inv(new, old, npf, done):
    """done(k, v): the posting list of (k, v) has been renumbered."""
    k = z3.Const(fresh_name("k"), sort_of(TStr))
    v = z3.Const(fresh_name("v"), sort_of(TagV))
    j = z3.Int(fresh_name("j"))
    ni, oi = z3.Select(d_val(new.t), k), z3.Select(d_val(old.t), k)
    nl, ol = z3.Select(d_val(ni), v), z3.Select(d_val(oi), v)
    return [
        ("domain_unchanged", d_dom(new.t) == d_dom(old.t)),
        ("inner_domain_unchanged", forall([k], d_dom(ni) == d_dom(oi), patterns=[ni])),
        ("pending_unchanged", forall([k, v], z3.Implies(z3.Not(done(k, v)), nl == ol), patterns=[nl])),
        ("processed_len", forall([k, v], z3.Implies(done(k, v), l_len(nl) == l_len(ol)), patterns=[nl])),
        ("processed_mapped", forall([k, v, j], z3.Implies(z3.And(done(k, v), 0 <= j, j < l_len(ol)), l_at(nl, j) == npf(l_at(ol, j))),
                                       patterns=[l_at(nl, j), l_at(ol, j)])),
    ]


@contract("tinyflux.index.Index._update_tags")
class _update_tags(Contract):
    params = dict(self=IX, u_items=Unum)
    modifies = ("_tags",)

    @staticmethod
    def requires(c):
        return update_pre(c, ("tags",))

    @staticmethod
    def ghost_defs(c):
        V, facts = new_view(c)
        return {"Vnew": (Val(LPt, V), facts)}

    @staticmethod
    def ensures(c):
        V = c.Vnew.t
        return repr_tags(c.self.t["_tags"], l_len(V), lambda j: l_at(V, j))

    @staticmethod
    def _present(c):
        T0 = c.old.self.t["_tags"]
        return lambda k, v: z3.And(z3.Select(d_dom(T0.t), k), z3.Select(d_dom(z3.Select(d_val(T0.t), k)), v))

    @staticmethod
    def _inv0(c):
        T0 = c.old.self.t["_tags"]
        l0 = c.loop(0)
        pres = _update_tags._present(c)
        done = lambda k, v: z3.And(pres(k, v), l0.extra["idx"](k) < l0.t)
        return _mapped_tags_inv(c.self.t["_tags"], T0, np_of(c.u_items), done)

    @staticmethod
    def _inv1(c):
        T0 = c.old.self.t["_tags"]
        l0, l1 = c.loop(0), c.loop(1)
        pres = _update_tags._present(c)
        cur = c.tag_key.t
        done = lambda k, v: z3.And(pres(k, v), z3.Or(l0.extra["idx"](k) < l0.t, z3.And(k == cur, l1.extra["idx"](v) < l1.t)))
        return [("current_key", z3.And(z3.Select(d_dom(T0.t), cur), l0.extra["idx"](cur) == l0.t, c.tag_values.t == z3.Select(d_val(T0.t), cur)))] + \
            _mapped_tags_inv(c.self.t["_tags"], T0, np_of(c.u_items), done)

    loops = {0: dict(inv=lambda c: _update_tags._inv0(c)), 1: dict(inv=lambda c: _update_tags._inv1(c))}


@contract("tinyflux.index.Index.update")
class _update(Contract):
    """C06/C02: renumbering after a removal re-establishes Repr for the compacted view."""
    params = dict(self=IX, u_items=Unum)
    modifies = ("_tags", "_fields", "_measurements", "_storage_pos_sorted_by_ts", "_S", "_R")

    @staticmethod
    def requires(c):
        return update_pre(c, ("meas", "tags", "fields", "time"))

    @staticmethod
    def ghost_defs(c):
        V, facts = new_view(c)
        return {"Vnew": (Val(LPt, V), facts)}

    @staticmethod
    def ghost_exit(c):
        return {"_S": c.Vnew, "_R": Val(SInt, z3.K(z3.IntSort(), z3.BoolVal(False)))}

    @staticmethod
    def lemmas(c):
        # pigeonhole (assumed mathematical lemma, DESIGN 12): an injection [0,a) -> [0,b) gives a <= b
        f0 = c.old.self.t
        POS = f0["_storage_pos_sorted_by_ts"].t
        npf = np_of(c.u_items)
        return [("pigeonhole_positions", pigeonhole(l_len(POS), f0["_num_items"].t, lambda j: npf(l_at(POS, j)))),
                ("pigeonhole_onto_positions", pigeonhole_onto(l_len(POS), f0["_num_items"].t, lambda j: npf(l_at(POS, j))))]

    @staticmethod
    def ensures(c):
        return repr_self(c.self) + [("view_is_renumbered", c.self.t["_S"].t == c.Vnew.t)]


@contract("tinyflux.index.Index.latest_time")
class _latest_time(Contract):
    """relative to the float round trip of timestamps (time theory, validated under C08)"""
    params = dict(self=IX)
    ret = Dt
    theories = ("time",)
    raises = {"IndexError": staticmethod(lambda c: dict(when=l_len(c.self.t["_timestamps"].t) == 0))}

    @staticmethod
    def ensures(c):
        TSl = c.self.t["_timestamps"].t
        return [("is_last_timestamp", dt_ts(c.result.t) == l_at(TSl, l_len(TSl) - 1))]
