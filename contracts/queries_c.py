"""Contracts for tinyflux/queries.py (C09 query semantics and totality, C17 equality/hash)."""

import ast as _ast
import z3
from pyvc.core import *  # noqa
from pyvc import spec as S
from pyvc.spec import contract, Contract, register_class
from pyvc.verify import Exec
from .model import *  # noqa
from .query_model import *  # noqa

OQ = TOpt(Q)
OS_ = TOpt(TStr)
SQ = TObj("SimpleQuery")
CQ = TObj("CompoundQuery")
BQ = TObj("BaseQuery")
register_class("SimpleQuery", "tinyflux.queries", dict(_point_attr=TStr, _operator=Op, _rhs=UV, _test=TestFn, _path_resolver=PathFn, _hash=H))
register_class("CompoundQuery", "tinyflux.queries", dict(query1=Q, query2=OQ, operator=Op, _hash=H))
register_class("BaseQuery", "tinyflux.queries", dict(_point_attr=OS_, _path=LPart, _path_required=TBool, _hash=H))
_QM = "tinyflux.queries."

# objects become query values when stored / passed where a Query is expected
S.CLASSES["SimpleQuery"]["as_value"] = lambda ex, v, node: Val(Q, mk_simple(*[v.t[a].t for a in ("_point_attr", "_operator", "_rhs", "_test", "_path_resolver", "_hash")]))
S.CLASSES["CompoundQuery"]["as_value"] = lambda ex, v, node: Val(Q, mk_compound(*[v.t[a].t for a in ("query1", "query2", "operator", "_hash")]))


def object_axioms():
    """what the abstract query value of an object is (definitions of the observers on mk_simple / mk_compound),
    and the meaning function on them: the code of SimpleQuery.__call__ / CompoundQuery.__call__ is proved to compute it"""
    a, o, r, t, pr, h = (z3.Const("ax_attr", sort_of(TStr)), z3.Const("ax_op", sort_of(Op)), z3.Const("ax_rhs", sort_of(UV)), z3.Const("ax_tf", sort_of(TestFn)),
                         z3.Const("ax_pf", sort_of(PathFn)), z3.Const("ax_h", sort_of(H)))
    q1, q2 = z3.Const("ax_q1", sort_of(Q)), z3.Const("ax_q2o", sort_of(OQ))
    p = z3.Const("ax_pp", sort_of(Pt))
    s = mk_simple(a, o, r, t, pr, h)
    c = mk_compound(q1, q2, o, h)
    v0 = uv_attr(p, a)
    A = [
        forall([a, o, r, t, pr, h], z3.And(q_kind(s) == 0, q_attr(s) == a, q_op(s) == o, q_rhs(s) == r, q_testfn(s) == t, q_pathfn(s) == pr, q_hashv(s) == h,
                                           q_hash_truthy(s) == h_truthy(h)), patterns=[s]),
        forall([q1, q2, o, h], z3.And(q_kind(c) == 1, q_q1(c) == q1, q_has2(c) == o_is_some(q2), z3.Implies(o_is_some(q2), q_q2(c) == o_val(q2)), q_op(c) == o,
                                      q_hashv(c) == h, q_hash_truthy(c) == h_truthy(h)), patterns=[c]),
        # DESIGN 3.2: a simple query is true iff its path resolves on the addressed attribute and its test holds there
        forall([a, o, r, t, pr, h, p], sem(s, p) == z3.And(z3.Not(pf_raises(pr, v0)), tf_apply(t, pf_apply(pr, v0))), patterns=[sem(s, p)]),
    ]
    return A


S.THEORIES["queryobjects"] = object_axioms()
QT = ("queries", "querycode", "queryobjects")

# ---------------------------------------------------------------- prelude for this cone
Exec.truthy_handlers["H"] = lambda ex, v: h_truthy(v.t)
Exec.isnone_handlers["H"] = lambda ex, v: v.t == h_none
Exec.truthy_handlers["Args"] = lambda ex, v: args_truthy(v.t)
Exec.truthy_handlers["UV"] = lambda ex, v: uv_truthy(v.t)
Exec.coercions.setdefault("H", {})["None"] = lambda ex, v: Val(H, h_none)
Exec.coercions.setdefault("UV", {})["None"] = lambda ex, v: Val(UV, uv_none)
Exec.coercions.setdefault("Args", {})["None"] = lambda ex, v: Val(Args, z3.Const("args_none", sort_of(Args)))
Exec.coercions.setdefault("UV", {})["Str"] = lambda ex, v: Val(UV, uv_str(v.t))
py_hash = z3.Function("py_hash", sort_of(H), z3.IntSort())
Exec.hash_handlers["H"] = lambda ex, v, node, st: Val(TInt, py_hash(v.t))
# hash(query object) is its __hash__: hash(self._hash)
Exec.hash_handlers["Obj_SimpleQuery"] = lambda ex, v, node, st: Val(TInt, py_hash(v.t["_hash"].t))
Exec.hash_handlers["Obj_CompoundQuery"] = lambda ex, v, node, st: Val(TInt, py_hash(v.t["_hash"].t))
Exec.hash_handlers["Q"] = lambda ex, v, node, st: Val(TInt, py_hash(q_hashv(v.t)))  # the other operand, seen abstractly
Exec.getattr_dyn_handlers["Pt"] = lambda ex, p, name, node, st: Val(UV, uv_attr(p.t, ex.coerce(name, TStr, node).t))


def _call_testfn(ex, f, node, st):
    (a,) = [ex.eval(x, st) for x in node.args]
    v = ex.coerce(a, UV, node)
    ex.hazard("UserError", z3.Not(tf_raises(f.t, v.t)), node, "test function raises")
    return Val(TBool, tf_apply(f.t, v.t))


def _call_pathfn(ex, f, node, st):
    (a,) = [ex.eval(x, st) for x in node.args]
    v = ex.coerce(a, UV, node)
    ex.hazard("UserError", z3.Not(pf_raises(f.t, v.t)), node, "path resolver raises")
    return Val(UV, pf_apply(f.t, v.t))


def _call_op(ex, f, node, st):
    """operator(...) : on booleans (compound queries) or on values (tests)"""
    args = []
    star = None
    for a in node.args:
        if isinstance(a, _ast.Starred):
            star = ex.eval(a.value, st)
        else:
            args.append(ex.eval(a, st))
    if star is not None:
        (x,) = args
        xv = ex.coerce(x, UV, node)
        ex.hazard("UserError", z3.Not(op_callv_raises(f.t, xv.t, star.t)), node, "user test raises")
        return Val(TBool, op_callv(f.t, xv.t, star.t))
    if all(a.ty == TBool for a in args):
        if len(args) == 1:
            return Val(TBool, op_bool1(f.t, args[0].t))
        return Val(TBool, op_bool2(f.t, args[0].t, args[1].t))
    vs = [ex.coerce(a, UV, node) for a in args]
    if len(vs) == 1:
        ex.hazard("UserError", z3.Not(op_call1_raises(f.t, vs[0].t)), node, "operator raises")
        return Val(TBool, op_call1(f.t, vs[0].t))
    ex.hazard("UserError", z3.Not(op_call2_raises(f.t, vs[0].t, vs[1].t)), node, "operator raises")
    return Val(TBool, op_call2(f.t, vs[0].t, vs[1].t))


Exec.call_handlers["TestFn"] = _call_testfn
Exec.call_handlers["PathFn"] = _call_pathfn
Exec.call_handlers["Op"] = _call_op


def bool_op_axioms():
    a, b = z3.Bool("ax_ba"), z3.Bool("ax_bb")
    return [forall([a, b], z3.And(op_bool2(OPS["and_"], a, b) == z3.And(a, b), op_bool2(OPS["or_"], a, b) == z3.Or(a, b)), patterns=[op_bool2(OPS["and_"], a, b), op_bool2(OPS["or_"], a, b)]),
            forall([a], op_bool1(OPS["not_"], a) == z3.Not(a), patterns=[op_bool1(OPS["not_"], a)])]


S.THEORIES["boolops"] = bool_op_axioms()


# ---------------------------------------------------------------- SimpleQuery
@contract(_QM + "SimpleQuery.__init__")
class _sq_init(Contract):
    params = dict(self=SQ, point_attr=TStr, operator=Op, rhs=UV, test=TestFn, path_resolver=PathFn, hashval=H)
    modifies = ("_point_attr", "_operator", "_rhs", "_test", "_path_resolver", "_hash")

    @staticmethod
    def ensures(c):
        f = c.self.t
        return [("fields", z3.And(f["_point_attr"].t == c.point_attr.t, f["_operator"].t == c.operator.t, f["_rhs"].t == c.rhs.t, f["_test"].t == c.test.t,
                                  f["_path_resolver"].t == c.path_resolver.t, f["_hash"].t == c.hashval.t))]


@contract(_QM + "SimpleQuery.point_attr")
class _sq_attr(Contract):
    params = dict(self=SQ)
    ret = TStr

    @staticmethod
    def ensures(c):
        return [("is_attr", c.result.t == c.self.t["_point_attr"].t)]


def self_q(c):
    v = c.self
    return S.CLASSES[v.ty.cls]["as_value"](None, v, None).t


@contract(_QM + "SimpleQuery.__call__")
class _sq_call(Contract):
    """C09: a path that cannot be resolved makes the query False (not an error); otherwise the test decides.
    The only exception that can escape is one raised by the test function itself."""
    params = dict(self=SQ, point=Pt)
    ret = TBool
    theories = QT
    raises = {"UserError": staticmethod(lambda c: dict(
        when=z3.And(z3.Not(pf_raises(c.self.t["_path_resolver"].t, uv_attr(c.point.t, c.self.t["_point_attr"].t))),
                    tf_raises(c.self.t["_test"].t, pf_apply(c.self.t["_path_resolver"].t, uv_attr(c.point.t, c.self.t["_point_attr"].t))))))}

    @staticmethod
    def ensures(c):
        return [("is_meaning", c.result.t == sem(self_q(c), c.point.t))]


def _hash_methods(cls, objty):
    @contract(_QM + cls + ".__hash__")
    class _h(Contract):
        params = dict(self=objty)
        ret = TInt

        @staticmethod
        def ensures(c):
            return [("hash_of_hash_tuple", c.result.t == py_hash(c.self.t["_hash"].t))]

    @contract(_QM + cls + ".is_hashable")
    class _ih(Contract):
        params = dict(self=objty)
        ret = TBool

        @staticmethod
        def ensures(c):
            return [("not_none", c.result.t == (c.self.t["_hash"].t != h_none))]


_hash_methods("SimpleQuery", SQ)
_hash_methods("CompoundQuery", CQ)
_hash_methods("BaseQuery", BQ)


# ---------------------------------------------------------------- CompoundQuery
@contract(_QM + "CompoundQuery.__init__")
class _cq_init(Contract):
    params = dict(self=CQ, query1=Q, query2=OQ, operator=Op, hashval=H)
    modifies = ("query1", "query2", "operator", "_hash")
    theories = QT
    raises = {"RuntimeError": staticmethod(lambda c: dict(
        when=z3.Or(z3.Not(z3.Or(q_kind(c.query1.t) == 0, q_kind(c.query1.t) == 1)),
                   z3.And(o_is_some(c.query2.t), z3.Not(z3.Or(q_kind(o_val(c.query2.t)) == 0, q_kind(o_val(c.query2.t)) == 1))))))}

    @staticmethod
    def ensures(c):
        f = c.self.t
        return [("fields", z3.And(f["query1"].t == c.query1.t, f["query2"].t == c.query2.t, f["operator"].t == c.operator.t, f["_hash"].t == c.hashval.t))]


@contract(_QM + "CompoundQuery.__call__")
class _cq_call(Contract):
    """C09: ~, & and | are exactly boolean NOT, AND and OR of their operands (operands are total: C09 for them)."""
    params = dict(self=CQ, point=Pt)
    ret = TBool
    theories = QT + ("boolops",)

    @staticmethod
    def requires(c):
        f = c.self.t
        op = f["operator"].t
        return [("built_by_and_or_invert", z3.Or(z3.And(op == OPS["and_"], o_is_some(f["query2"].t)), z3.And(op == OPS["or_"], o_is_some(f["query2"].t)),
                                                 z3.And(op == OPS["not_"], o_is_none(f["query2"].t))))]

    @staticmethod
    def ensures(c):
        return [("is_meaning", c.result.t == sem(self_q(c), c.point.t))]
