"""Specification vocabulary shared by the contracts (DESIGN.md 3).

Abstract points: an uninterpreted sort Pt with observation functions.  The
abstract storage view S is passed around as (n, P) with P: position -> Pt,
so that views such as `S ++ points[:t]` need no list construction.
"""

import z3
from pyvc.core import *  # noqa
from pyvc import spec as S
from pyvc.spec import register_class

Pt = TU("Pt")
TagV = TOpt(TStr)
FldV = TOpt(TReal)
LInt = TList(TInt)
LReal = TList(TReal)
LPt = TList(Pt)
FItem = TTuple([TInt, FldV])
LF = TList(FItem)
TagsD = TDict(TStr, TagV)  # a point's tag set
FldsD = TDict(TStr, FldV)  # a point's field set
MeasIx = TDict(TStr, LInt)
TagInner = TDict(TagV, LInt)
TagIx = TDict(TStr, TagInner)
FldIx = TDict(TStr, LF)
SInt = TSet(TInt)
SStr = TSet(TStr)

_pt, _str = sort_of(Pt), sort_of(TStr)
meas = z3.Function("meas", _pt, _str)
tagsd = z3.Function("tags_of", _pt, sort_of(TagsD))  # the point's tag dict
fldsd = z3.Function("fields_of", _pt, sort_of(FldsD))  # the point's field dict


def has_tag(p, k):
    return z3.Select(d_dom(tagsd(p)), k)


def tag(p, k):
    return z3.Select(d_val(tagsd(p)), k)


def has_fld(p, k):
    return z3.Select(d_dom(fldsd(p)), k)


def fld(p, k):
    return z3.Select(d_val(fldsd(p)), k)


Dt = TU("Dt")  # datetime values (abstract; C08 refines them)
_dt = sort_of(Dt)
time_of = z3.Function("time_of", _pt, _dt)
dt_ts = z3.Function("dt_ts", _dt, z3.RealSort())  # datetime.timestamp()


def ts(p):
    """POSIX timestamp of the point's time."""
    return dt_ts(time_of(p))


def tags_of(p):
    """The dict value that `point.tags` evaluates to."""
    return Val(TagsD, tagsd(p))


def fields_of(p):
    return Val(FldsD, fldsd(p))


register_class(
    "Index",
    "tinyflux.index",
    dict(
        _num_items=TInt,
        _tags=TagIx,
        _fields=FldIx,
        _measurements=MeasIx,
        _timestamps=LReal,
        _valid=TBool,
        _storage_pos_sorted_by_ts=LInt,
        _S=LPt,  # GHOST (model field): the storage view this index represents
        _R=TSet(TInt),  # GHOST: positions removed but not yet renumbered (between remove and update)
    ),
)
register_class("IndexResult", "tinyflux.index", dict(_items=SInt, _index_count=TInt))


# ------------------------------------------------------------ list relations


def olist(d, k):
    """(length, element-at) of d[k] read as [] when k is absent."""
    lst = z3.Select(d_val(d.t), S.T(k))
    present = z3.Select(d_dom(d.t), S.T(k))
    return z3.If(present, l_len(lst), 0), (lambda j: l_at(lst, j))


def is_append(new, old_len, old_at, x):
    """new == old ++ [x] (elementwise; junk beyond len is unconstrained)."""
    j = z3.Int(fresh_name("j"))
    return z3.And(
        l_len(new) == old_len + 1,
        l_at(new, old_len) == x,
        forall([j], z3.Implies(z3.And(0 <= j, j < old_len), l_at(new, j) == old_at(j)), patterns=[l_at(new, j), old_at(j)]),
    )


def same_elems(new, old):
    j = z3.Int(fresh_name("j"))
    return z3.And(l_len(new) == l_len(old),
                  forall([j], z3.Implies(z3.And(0 <= j, j < l_len(old)), l_at(new, j) == l_at(old, j)), patterns=[l_at(new, j)]))


# -------------------------------------------------- representation invariant


def repr_meas(M, n, P, keep=None, only=None):
    """Measurement postings of index field M represent the view (n, P)."""
    m = z3.Const(fresh_name("m"), _str)
    j, k, i = z3.Int(fresh_name("j")), z3.Int(fresh_name("k")), z3.Int(fresh_name("i"))
    dom, val = d_dom(M.t), d_val(M.t)
    lst = lambda mm: z3.Select(val, mm)
    keep = keep or (lambda e: z3.BoolVal(True))
    only = only or (lambda mm: z3.BoolVal(True))
    return [
        ("meas_nonempty", forall([m], z3.Implies(z3.Select(dom, m), z3.And(only(m), l_len(lst(m)) > 0)), patterns=[z3.Select(dom, m)])),
        ("meas_sound", forall([m, j], z3.Implies(z3.And(z3.Select(dom, m), 0 <= j, j < l_len(lst(m))),
                                                     z3.And(0 <= l_at(lst(m), j), l_at(lst(m), j) < n, keep(l_at(lst(m), j)), meas(P(l_at(lst(m), j))) == m)),
                                 patterns=[l_at(lst(m), j)])),
        ("meas_ascending", forall([m, j, k], z3.Implies(z3.And(z3.Select(dom, m), 0 <= j, j < k, k < l_len(lst(m))),
                                                           l_at(lst(m), j) < l_at(lst(m), k)),
                                     patterns=[z3.MultiPattern(l_at(lst(m), j), l_at(lst(m), k))])),
        ("meas_complete", forall([i], z3.Implies(z3.And(0 <= i, i < n, S.Tr(i), keep(i), only(meas(P(i)))),
                                                    z3.And(z3.Select(dom, meas(P(i))),
                                                           z3.Exists([j], z3.And(0 <= j, j < l_len(lst(meas(P(i)))), l_at(lst(meas(P(i))), j) == i)))),
                                    patterns=[P(i)])),
    ]


def repr_tags(T, n, P, keep=None, only=None):
    k = z3.Const(fresh_name("k"), _str)
    v = z3.Const(fresh_name("v"), sort_of(TagV))
    j, j2, i = z3.Int(fresh_name("j")), z3.Int(fresh_name("j2")), z3.Int(fresh_name("i"))
    dom = d_dom(T.t)
    inner = lambda kk: z3.Select(d_val(T.t), kk)
    idom = lambda kk, vv: z3.Select(d_dom(inner(kk)), vv)
    lst = lambda kk, vv: z3.Select(d_val(inner(kk)), vv)
    present = lambda kk, vv: z3.And(z3.Select(dom, kk), idom(kk, vv))
    keep = keep or (lambda e: z3.BoolVal(True))
    only = only or (lambda kk, vv: z3.BoolVal(True))
    return [
        ("tags_no_empty_inner", forall([k], z3.Implies(z3.Select(dom, k), z3.Exists([v], idom(k, v))), patterns=[z3.Select(dom, k)])),
        ("tags_nonempty", forall([k, v], z3.Implies(present(k, v), z3.And(only(k, v), l_len(lst(k, v)) > 0)), patterns=[idom(k, v)])),
        ("tags_sound", forall([k, v, j], z3.Implies(z3.And(present(k, v), 0 <= j, j < l_len(lst(k, v))),
                                                       z3.And(0 <= l_at(lst(k, v), j), l_at(lst(k, v), j) < n, keep(l_at(lst(k, v), j)),
                                                              has_tag(P(l_at(lst(k, v), j)), k), tag(P(l_at(lst(k, v), j)), k) == v)),
                                 patterns=[l_at(lst(k, v), j)])),
        ("tags_ascending", forall([k, v, j, j2], z3.Implies(z3.And(present(k, v), 0 <= j, j < j2, j2 < l_len(lst(k, v))),
                                                               l_at(lst(k, v), j) < l_at(lst(k, v), j2)),
                                     patterns=[z3.MultiPattern(l_at(lst(k, v), j), l_at(lst(k, v), j2))])),
        ("tags_complete", forall([i, k], z3.Implies(z3.And(0 <= i, i < n, S.Tr(i), keep(i), has_tag(P(i), k), only(k, tag(P(i), k))),
                                                       z3.And(present(k, tag(P(i), k)),
                                                              z3.Exists([j], z3.And(0 <= j, j < l_len(lst(k, tag(P(i), k))), l_at(lst(k, tag(P(i), k)), j) == i)))),
                                    patterns=[has_tag(P(i), k)])),
    ]


def repr_fields(F, n, P, keep=None, only=None):
    k = z3.Const(fresh_name("k"), _str)
    j, j2, i = z3.Int(fresh_name("j")), z3.Int(fresh_name("j2")), z3.Int(fresh_name("i"))
    dom = d_dom(F.t)
    lst = lambda kk: z3.Select(d_val(F.t), kk)
    pos = lambda kk, jj: t_get(l_at(lst(kk), jj), 0)
    fv = lambda kk, jj: t_get(l_at(lst(kk), jj), 1)
    keep = keep or (lambda e: z3.BoolVal(True))
    only = only or (lambda kk: z3.BoolVal(True))
    return [
        ("fields_nonempty", forall([k], z3.Implies(z3.Select(dom, k), z3.And(only(k), l_len(lst(k)) > 0)), patterns=[z3.Select(dom, k)])),
        ("fields_sound", forall([k, j], z3.Implies(z3.And(z3.Select(dom, k), 0 <= j, j < l_len(lst(k))),
                                                      z3.And(0 <= pos(k, j), pos(k, j) < n, keep(pos(k, j)), has_fld(P(pos(k, j)), k), fv(k, j) == fld(P(pos(k, j)), k))),
                                   patterns=[l_at(lst(k), j)])),
        ("fields_ascending", forall([k, j, j2], z3.Implies(z3.And(z3.Select(dom, k), 0 <= j, j < j2, j2 < l_len(lst(k))), pos(k, j) < pos(k, j2)),
                                       patterns=[z3.MultiPattern(l_at(lst(k), j), l_at(lst(k), j2))])),
        ("fields_complete", forall([i, k], z3.Implies(z3.And(0 <= i, i < n, S.Tr(i), keep(i), has_fld(P(i), k), only(k)),
                                                         z3.And(z3.Select(dom, k), z3.Exists([j], z3.And(0 <= j, j < l_len(lst(k)), pos(k, j) == i)))),
                                      patterns=[has_fld(P(i), k)])),
    ]


def repr_time(TS, POS, n, P):
    j, j2, i = z3.Int(fresh_name("j")), z3.Int(fresh_name("j2")), z3.Int(fresh_name("i"))
    t, p = TS.t, POS.t
    return [
        ("time_lengths", z3.And(l_len(t) == n, l_len(p) == n)),
        ("time_sorted", forall([j, j2], z3.Implies(z3.And(0 <= j, j <= j2, j2 < n), l_at(t, j) <= l_at(t, j2)),
                                  patterns=[z3.MultiPattern(l_at(t, j), l_at(t, j2))])),
        ("time_pos_range", forall([j], z3.Implies(z3.And(0 <= j, j < n), z3.And(0 <= l_at(p, j), l_at(p, j) < n)), patterns=[l_at(p, j)])),
        ("time_pos_injective", forall([j, j2], z3.Implies(z3.And(0 <= j, j < j2, j2 < n), l_at(p, j) != l_at(p, j2)),
                                         patterns=[z3.MultiPattern(l_at(p, j), l_at(p, j2))])),
        ("time_pos_onto", forall([i], z3.Implies(z3.And(0 <= i, i < n, S.Tr(i)), z3.Exists([j], z3.And(0 <= j, j < n, l_at(p, j) == i))),
                                    patterns=[S.Tr(i), P(i)])),
        ("time_values", forall([j], z3.Implies(z3.And(0 <= j, j < n), l_at(t, j) == ts(P(l_at(p, j)))), patterns=[l_at(t, j)])),
    ]


def sparse_time(TS, POS, n, P, keep):
    """Time lists after removal, before renumbering: positions are the kept old ones."""
    j, j2, i = z3.Int(fresh_name("j")), z3.Int(fresh_name("j2")), z3.Int(fresh_name("i"))
    t, p = TS.t, POS.t
    m = l_len(p)
    return [
        ("time_lengths", l_len(t) == m),
        ("time_sorted", forall([j, j2], z3.Implies(z3.And(0 <= j, j <= j2, j2 < m), l_at(t, j) <= l_at(t, j2)),
                                  patterns=[z3.MultiPattern(l_at(t, j), l_at(t, j2))])),
        ("time_pos_range", forall([j], z3.Implies(z3.And(0 <= j, j < m), z3.And(0 <= l_at(p, j), l_at(p, j) < n, keep(l_at(p, j)))), patterns=[l_at(p, j)])),
        ("time_pos_injective", forall([j, j2], z3.Implies(z3.And(0 <= j, j < j2, j2 < m), l_at(p, j) != l_at(p, j2)),
                                         patterns=[z3.MultiPattern(l_at(p, j), l_at(p, j2))])),
        ("time_pos_onto", forall([i], z3.Implies(z3.And(0 <= i, i < n, keep(i), S.Tr(i)), z3.Exists([j], z3.And(0 <= j, j < m, l_at(p, j) == i))),
                                    patterns=[S.Tr(i), P(i)])),
        ("time_values", forall([j], z3.Implies(z3.And(0 <= j, j < m), l_at(t, j) == ts(P(l_at(p, j)))), patterns=[l_at(t, j)])),
    ]


def repr_all(ix, n, P, parts=("num", "meas", "tags", "fields", "time")):
    """Repr(ix, S) of DESIGN 3.4 for the view (n, P), as labelled conjuncts."""
    f = ix.t
    out = []
    if "num" in parts:
        out.append(("num_items", f["_num_items"].t == n))
        # redundant but cheap: any key in the index means the view is non-empty (used for `empty`)
        ks = z3.Const(fresh_name("k"), _str)
        for nm, fld_ in (("tags", "_tags"), ("fields", "_fields"), ("meas", "_measurements")):
            if nm in parts:
                out.append((nm + "_keys_imply_points", forall([ks], z3.Implies(z3.Select(d_dom(f[fld_].t), ks), n > 0), patterns=[z3.Select(d_dom(f[fld_].t), ks)])))
    if "meas" in parts:
        out += repr_meas(f["_measurements"], n, P)
    if "tags" in parts:
        out += repr_tags(f["_tags"], n, P)
    if "fields" in parts:
        out += repr_fields(f["_fields"], n, P)
    if "time" in parts:
        out += repr_time(f["_timestamps"], f["_storage_pos_sorted_by_ts"], n, P)
    return out


def view_of(ix):
    """(n, P) of the ghost view stored in the index object."""
    s = ix.t["_S"].t
    return l_len(s), (lambda j: l_at(s, j))


def repr_self(ix, parts=("num", "meas", "tags", "fields", "time")):
    n, P = view_of(ix)
    return [("view_len", n >= 0)] + repr_all(ix, n, P, parts)


# ---------------------------------------------------------------- assumed lemmas


def pigeonhole(a, b, g):
    """ASSUMED mathematical lemma instance: an injection [0,a) -> [0,b) implies a <= b."""
    j, k = z3.Int(fresh_name("j")), z3.Int(fresh_name("k"))
    inj = forall([j, k], z3.Implies(z3.And(0 <= j, j < k, k < a), g(j) != g(k)))
    rng = forall([j], z3.Implies(z3.And(0 <= j, j < a), z3.And(0 <= g(j), g(j) < b)))
    return z3.Implies(z3.And(inj, rng), a <= b)


def pigeonhole_onto(a, b, g):
    """ASSUMED mathematical lemma instance: a surjection [0,a) ->> [0,b) implies b <= a."""
    j, p = z3.Int(fresh_name("j")), z3.Int(fresh_name("p"))
    onto = forall([p], z3.Implies(z3.And(0 <= p, p < b, S.Tr(p)), z3.Exists([j], z3.And(0 <= j, j < a, g(j) == p))))
    return z3.Implies(z3.And(onto, b >= 0, a >= 0), b <= a)


# ---------------------------------------------------------------- queries (DESIGN 3.2)

Q = TU("Q")  # query objects (SimpleQuery | CompoundQuery | anything else)
UV = TU("UV")  # values handed to a query's test / path functions
Op = TU("Op")  # function objects of the operator module, or user callables
_q, _uv, _op = sort_of(Q), sort_of(UV), sort_of(Op)

uv_str = z3.Function("uv_str", _str, _uv)
uv_tagv = z3.Function("uv_tagv", sort_of(TagV), _uv)
uv_fldv = z3.Function("uv_fldv", sort_of(FldV), _uv)
uv_dt = z3.Function("uv_dt", _dt, _uv)

q_kind = z3.Function("q_kind", _q, z3.IntSort())  # 0 SimpleQuery, 1 CompoundQuery, other: neither
q_op = z3.Function("q_op", _q, _op)  # .operator / ._operator
q_q1 = z3.Function("q_q1", _q, _q)
q_q2 = z3.Function("q_q2", _q, _q)
q_has2 = z3.Function("q_has2", _q, z3.BoolSort())  # query2 is not None
q_attr = z3.Function("q_attr", _q, _str)  # ._point_attr
q_rhs_dt = z3.Function("q_rhs_dt", _q, _dt)  # ._rhs of a TimeQuery comparison
q_hash_truthy = z3.Function("q_hash_truthy", _q, z3.BoolSort())  # bool(q._hash)
q_key = z3.Function("q_key", _q, _str)  # first (string) element of the path
q_single = z3.Function("q_single", _q, z3.BoolSort())  # the path is exactly (key,)
q_test = z3.Function("q_test", _q, _uv, z3.BoolSort())  # q._test(value)
q_path0 = z3.Function("q_path0", _q, _uv, _uv)  # q._path_resolver(scalar)
q_path0_raises = z3.Function("q_path0_raises", _q, _uv, z3.BoolSort())
q_path1 = z3.Function("q_path1", _q, _str, _uv, _uv)  # q._path_resolver({key: value})
q_path1_raises = z3.Function("q_path1_raises", _q, _str, _uv, z3.BoolSort())
sem = z3.Function("sem", _q, _pt, z3.BoolSort())  # the meaning: q(point), DESIGN 3.2
exactq = z3.Function("exactq", _q, z3.BoolSort())  # the index answers q exactly
wfq = z3.Function("wfq", _q, z3.BoolSort())  # built by the public constructors

OPS = {n: z3.Const("operator." + n, _op) for n in ("and_", "or_", "not_", "eq", "ne", "lt", "le", "gt", "ge")}
A_TIME, A_MEAS, A_TAGS, A_FIELDS = [str_const(s) for s in ("_time", "_measurement", "_tags", "_fields")]


def query_axioms():
    """Structure of well-formed queries and the meaning function (DESIGN 3.2).

    Compound cases are the definition of the DSL's boolean operators; the simple
    cases for index-eligible queries (truthy hash: all-string path, no map, not
    noop) summarise SimpleQuery.__call__ + path_resolver, to be discharged by the
    C09 cone on queries.py.
    """
    q = z3.Const("ax_q", _q)
    p = z3.Const("ax_p", _pt)
    k = z3.Const("ax_k", _str)
    v = z3.Const("ax_v", _uv)
    simple, comp = q_kind(q) == 0, q_kind(q) == 1
    A = []
    A.append(z3.Distinct(*OPS.values()))
    A.append(z3.Distinct(A_TIME, A_MEAS, A_TAGS, A_FIELDS, EMPTY_STR))
    # well-formedness unfolds
    A.append(forall([q], z3.Implies(wfq(q), z3.Or(simple, comp)), patterns=[wfq(q)]))
    A.append(forall([q], z3.Implies(z3.And(wfq(q), comp),
                                       z3.And(z3.Or(q_op(q) == OPS["and_"], q_op(q) == OPS["or_"], q_op(q) == OPS["not_"]),
                                              wfq(q_q1(q)),
                                              (q_op(q) == OPS["not_"]) == z3.Not(q_has2(q)),
                                              z3.Implies(q_has2(q), wfq(q_q2(q))))), patterns=[wfq(q)]))
    A.append(forall([q], z3.Implies(z3.And(wfq(q), simple),
                                       z3.Or(q_attr(q) == A_TIME, q_attr(q) == A_MEAS, q_attr(q) == A_TAGS, q_attr(q) == A_FIELDS)), patterns=[wfq(q)]))
    # meaning of compound queries
    A.append(forall([q, p], z3.Implies(z3.And(comp, q_op(q) == OPS["and_"]), sem(q, p) == z3.And(sem(q_q1(q), p), sem(q_q2(q), p))), patterns=[sem(q, p)]))
    A.append(forall([q, p], z3.Implies(z3.And(comp, q_op(q) == OPS["or_"]), sem(q, p) == z3.Or(sem(q_q1(q), p), sem(q_q2(q), p))), patterns=[sem(q, p)]))
    A.append(forall([q, p], z3.Implies(z3.And(comp, q_op(q) == OPS["not_"]), sem(q, p) == z3.Not(sem(q_q1(q), p))), patterns=[sem(q, p)]))
    # exactness predicate (mirrors database._index_is_exact_for)
    A.append(forall([q], z3.Implies(comp, exactq(q) == z3.And(
        z3.Not(z3.And(q_op(q) == OPS["not_"], q_kind(q_q1(q)) == 0, q_attr(q_q1(q)) == A_FIELDS)),
        exactq(q_q1(q)), z3.Implies(q_has2(q), exactq(q_q2(q))))), patterns=[exactq(q)]))
    A.append(forall([q], z3.Implies(simple, exactq(q) == q_hash_truthy(q)), patterns=[exactq(q)]))
    # bool(q._hash) is the truthiness of the hash tuple
    _H = sort_of(TU("H"))
    A.append(forall([q], q_hash_truthy(q) == z3.Function("h_truthy", _H, z3.BoolSort())(z3.Function("q_hashv", _q, _H)(q)), patterns=[q_hash_truthy(q)]))
    # index-eligible simple queries: meaning through the index's own calls
    elig = z3.And(wfq(q), simple, q_hash_truthy(q))
    A.append(forall([q, p], z3.Implies(z3.And(elig, q_attr(q) == A_MEAS), sem(q, p) == q_test(q, uv_str(meas(p)))), patterns=[sem(q, p)]))
    A.append(forall([q, v], z3.Implies(z3.And(elig, z3.Or(q_attr(q) == A_MEAS, q_attr(q) == A_TIME)), z3.And(z3.Not(q_path0_raises(q, v)), q_path0(q, v) == v)),
                       patterns=[q_path0(q, v)], ))
    A.append(forall([q, v], z3.Implies(z3.And(elig, z3.Or(q_attr(q) == A_MEAS, q_attr(q) == A_TIME)), z3.Not(q_path0_raises(q, v))),
                       patterns=[q_path0_raises(q, v)]))
    A.append(forall([q, p], z3.Implies(z3.And(elig, q_attr(q) == A_TIME), sem(q, p) == q_test(q, uv_dt(time_of(p)))), patterns=[sem(q, p)]))
    A.append(forall([q, p], z3.Implies(z3.And(elig, q_attr(q) == A_TAGS),
                                          sem(q, p) == z3.And(has_tag(p, q_key(q)), q_single(q), q_test(q, uv_tagv(tag(p, q_key(q)))))), patterns=[sem(q, p)]))
    A.append(forall([q, p], z3.Implies(z3.And(elig, q_attr(q) == A_FIELDS),
                                          sem(q, p) == z3.And(has_fld(p, q_key(q)), q_single(q), q_test(q, uv_fldv(fld(p, q_key(q)))))), patterns=[sem(q, p)]))
    A.append(forall([q, k, v], z3.Implies(z3.And(elig, z3.Or(q_attr(q) == A_TAGS, q_attr(q) == A_FIELDS)),
                                             q_path1_raises(q, k, v) == z3.Or(k != q_key(q), z3.Not(q_single(q)))), patterns=[q_path1_raises(q, k, v)]))
    A.append(forall([q, k, v], z3.Implies(z3.And(elig, z3.Or(q_attr(q) == A_TAGS, q_attr(q) == A_FIELDS), z3.Not(q_path1_raises(q, k, v))),
                                             q_path1(q, k, v) == v), patterns=[q_path1(q, k, v)]))
    return A


S.THEORIES["queries"] = query_axioms()


def time_axioms():
    """ASSUMED (DESIGN 4.3, validated under C08): for index-eligible TimeQuery comparisons the
    test on a stored (aware, UTC) datetime is the comparison of POSIX timestamps, and
    fromtimestamp(ts).astimezone(utc) gives back a stored datetime as far as tests can see."""
    q = z3.Const("ax_q", _q)
    d = z3.Const("ax_d", _dt)
    elig = z3.And(wfq(q), q_kind(q) == 0, q_hash_truthy(q), q_attr(q) == A_TIME)
    x, y = dt_ts(d), dt_ts(q_rhs_dt(q))
    A = []
    for name, rel in (("eq", x == y), ("ne", x != y), ("lt", x < y), ("le", x <= y), ("gt", x > y), ("ge", x >= y)):
        A.append(forall([q, d], z3.Implies(z3.And(elig, q_op(q) == OPS[name]), q_test(q, uv_dt(d)) == rel), patterns=[q_test(q, uv_dt(d))]))
    A.append(forall([d], uv_dt(dt_utc(dt_from_ts(dt_ts(d)))) == uv_dt(d), patterns=[dt_ts(d)]))
    x_ = z3.Real("ax_x")
    A.append(forall([x_], dt_ts(dt_utc(dt_from_ts(x_))) == x_, patterns=[dt_from_ts(x_)]))
    A.append(forall([d], dt_ts(dt_utc(d)) == dt_ts(d), patterns=[dt_utc(d)]))  # astimezone keeps the instant
    return A


dt_from_ts = z3.Function("dt_from_ts", z3.RealSort(), _dt)  # datetime.fromtimestamp
dt_utc = z3.Function("dt_utc", _dt, _dt)  # .astimezone(timezone.utc)
S.THEORIES["time"] = time_axioms()
