"""Counting lemmas of DESIGN 3.6, each proved by explicit induction (base + step are
ordinary obligations).  The theories 'count_lemmas' / 'count_lemmas2' state the same
formulas as axioms for the function proofs."""

import z3
from pyvc.core import *  # noqa
from pyvc import spec as S
from pyvc.state import Obligation
from .db_model import cnt, count_axioms, SInt


def _induct(name, P, extra_hyps=()):
    """prove forall b >= 0. P(A, b) by induction on b, for an arbitrary fixed set A"""
    A = z3.Const("lemA", sort_of(SInt))
    b = z3.Int("lemb")
    ax = count_axioms() + list(S.GLOBAL_AXIOMS)
    # instances of the defining equation that the solver needs
    unfold = [cnt(A, b + 1) == cnt(A, b) + z3.If(z3.Select(A, b), 1, 0), cnt(A, 0) == 0]
    return [
        Obligation("lemma:%s/base" % name, ax + unfold + list(extra_hyps), P(A, z3.IntVal(0)), kind="lemma"),
        Obligation("lemma:%s/step" % name, ax + unfold + list(extra_hyps) + [b >= 0, P(A, b)], P(A, b + 1), kind="lemma"),
    ]


def count_lemma_obligations():
    a, i, p = z3.Int("lema"), z3.Int("lemi"), z3.Int("lemp")
    obs = []
    obs += _induct("cnt_bounds", lambda A, b: z3.And(0 <= cnt(A, b), cnt(A, b) <= b))
    obs += _induct("cnt_monotone", lambda A, b: forall([a], z3.Implies(z3.And(0 <= a, a <= b), cnt(A, a) <= cnt(A, b)), patterns=[cnt(A, a)]))
    obs += _induct("cnt_strict_across_member", lambda A, b: forall([i], z3.Implies(z3.And(0 <= i, i < b, z3.Select(A, i)), cnt(A, i) < cnt(A, b)), patterns=[z3.Select(A, i)]),
                   extra_hyps=[forall([i], z3.Implies(i >= 0, cnt(A_(), i + 1) == cnt(A_(), i) + z3.If(z3.Select(A_(), i), 1, 0)), patterns=[z3.Select(A_(), i)])])
    obs += _induct("cnt_lipschitz", lambda A, b: forall([a], z3.Implies(z3.And(0 <= a, a <= b), cnt(A, b) - cnt(A, a) <= b - a), patterns=[cnt(A, a)]))
    obs += _induct("rank_strict_across_nonmember", lambda A, b: forall([i], z3.Implies(z3.And(0 <= i, i < b, z3.Not(z3.Select(A, i))), i - cnt(A, i) < b - cnt(A, b)), patterns=[z3.Select(A, i)]),
                   extra_hyps=[forall([i], z3.Implies(i >= 0, cnt(A_(), i + 1) == cnt(A_(), i) + z3.If(z3.Select(A_(), i), 1, 0)), patterns=[z3.Select(A_(), i)])])
    obs += _induct("rank_onto", lambda A, b: forall([p], z3.Implies(z3.And(0 <= p, p < b - cnt(A, b), S.Tr(p)),
                                                                     z3.Exists([i], z3.And(0 <= i, i < b, z3.Not(z3.Select(A, i)), i - cnt(A, i) == p))), patterns=[S.Tr(p)]))
    return obs


def A_():
    return z3.Const("lemA", sort_of(SInt))


S.LEMMAS["count"] = count_lemma_obligations


def pfold_lemma_obligations():
    """pfold_raises is monotone in the number of steps (induction on the distance)"""
    from .query_model import pfold_raises, pfold, step_raises, LPart, UV
    path = z3.Const("lem_path", sort_of(LPart))
    v = z3.Const("lem_v", sort_of(UV))
    n, d = z3.Int("lem_n"), z3.Int("lem_d")
    unfold = lambda k: pfold_raises(path, k, v) == z3.Or(pfold_raises(path, k - 1, v), step_raises(l_at(path, k - 1), pfold(path, k - 1, v)))
    P = lambda dd: z3.Implies(z3.And(n >= 0, pfold_raises(path, n, v)), pfold_raises(path, n + dd, v))
    ln = l_len(path)
    fail_step = z3.Implies(z3.And(0 <= n, n < ln, step_raises(l_at(path, n), pfold(path, n, v))), pfold_raises(path, ln, v))
    mono = z3.Implies(z3.And(n + 1 <= ln, pfold_raises(path, n + 1, v)), pfold_raises(path, ln, v))  # instance of the monotonicity lemma
    return [Obligation("lemma:pfold_failing_step", [unfold(n + 1), mono], fail_step, kind="lemma"),
            Obligation("lemma:pfold_raises_monotone/base", [], P(z3.IntVal(0)), kind="lemma"),
            Obligation("lemma:pfold_raises_monotone/step", [d >= 0, P(d), z3.Implies(n + d + 1 > 0, unfold(n + d + 1))], P(d + 1), kind="lemma")]


S.LEMMAS["pfold"] = pfold_lemma_obligations


def time_lemma_obligations():
    """DESIGN 4.3: from the IEEE-754 bound |RN(x) - x| <= 2^-21 (binary64, |x| < 2^33 s, i.e. years 1700-2240),
    POSIX timestamps of microsecond instants are strictly ordered like the instants, and rounding the float
    back to the nearest microsecond returns the instant.  Linear real arithmetic, no floats."""
    a, b, ra, rb, m = z3.Real("lem_a"), z3.Real("lem_b"), z3.Real("lem_ra"), z3.Real("lem_rb"), z3.Real("lem_m")
    eps = z3.Q(1, 2 ** 21)
    us = z3.Q(1, 10 ** 6)
    rn = lambda x, r: z3.And(r - x <= eps, x - r <= eps)
    return [
        Obligation("lemma:timestamp_strictly_monotone", [rn(a, ra), rn(b, rb), a + us <= b], ra < rb, kind="lemma"),
        # m: another microsecond instant (at least 1 us away from a) is strictly farther from RN(a) than a is
        Obligation("lemma:fromtimestamp_inverts_timestamp", [rn(a, ra), z3.Or(m >= a + us, m <= a - us)],
                   z3.If(ra - a >= 0, ra - a, a - ra) < z3.If(ra - m >= 0, ra - m, m - ra), kind="lemma"),
        # vacuity guard: with the error bound of the next binade (2^-20) the monotonicity claim must NOT be provable
    ]


S.LEMMAS["time"] = time_lemma_obligations


def codec_lemma_obligations():
    """C05: dec(enc(p)) == p, assembled from the encoder's and the decoder's CONTRACTS only (not their bodies).

    The encoder's postcondition gives the row; the decoder's precondition is discharged for it (with the
    ghost split point = number of tags); the decoder's postcondition gives the decoded point as folds over
    the row; two inductions over the folds bring them back to the original dicts."""
    from . import codec_model as M
    from .codec_c import layout, enumerates, wf_row, _des, _ser, tag_pair, field_pair
    from .codec_model import (CP, Row, LStr, TagsC, FieldsC, OStr, ONum, tagfold, fieldfold, enc_tv, dec_tv, enc_fv, dec_fv, tag_key, field_key,
                              num_eq, representable, stored_point, NONE_S, deq)

    ss = z3.StringSort()
    p = fresh(CP, "lem_p", _cf())
    q = fresh(CP, "lem_q", _cf())  # the decoded point
    compact = z3.Bool("lem_compact")
    row = z3.Const("lem_row", sort_of(Row))
    tk, fk = z3.Const("lem_tk", sort_of(LStr)), z3.Const("lem_fk", sort_of(LStr))
    tpos, fpos = z3.Function("lem_tpos", ss, z3.IntSort()), z3.Function("lem_fpos", ss, z3.IntSort())
    nt, nf = l_len(tk), l_len(fk)
    tags, fields = p.t["_tags"].t, p.t["_fields"].t
    m = p.t["_measurement"].t

    class Cx:  # what the contract clauses look at
        pass

    enc = Cx()
    enc.self, enc.compact_key_prefixes, enc.result = p, Val(TBool, compact), Val(Row, row)
    enc.wit = {"tk": lambda: tk, "fk": lambda: fk, "tpos": tpos, "fpos": fpos}
    dcx = Cx()
    dcx.row, dcx._ghost_nt, dcx.self, dcx.result = Val(Row, row), Val(TInt, nt), q, q

    base = list(S.GLOBAL_AXIOMS) + S.THEORIES["codec_text"] + S.THEORIES["codec_folds"]
    base += [f for v in (p, q) for f in wf(v)] + [l_len(row) >= 0, nt >= 0, nf >= 0]
    base += [f for _, f in stored_point(p)]
    enc_post = [f for _, f in _ser.ensures(enc)]
    hyp = base + enc_post
    cells = S.THEORIES["codec_cells"]
    meta = {"strings": True}
    obs = []
    # 1. the decoder's precondition holds for the encoder's output
    j0 = z3.Int("lem_j0")
    # instances of the encoder's (quantified) postcondition at the pair that cell j0 belongs to
    inst = [z3.Implies(z3.And(0 <= (j0 - 2) / 2, (j0 - 2) / 2 < nt), tag_pair(row, p, compact, tk, (j0 - 2) / 2)),
            z3.Implies(z3.And(0 <= (j0 - 2 - 2 * nt) / 2, (j0 - 2 - 2 * nt) / 2 < nf), field_pair(row, p, compact, tk, fk, (j0 - 2 - 2 * nt) / 2))]
    for label, f in wf_row(row, nt, j0=j0):
        obs.append(Obligation("lemma:codec/decoder_accepts_encoder_output[%s]" % label, hyp + inst + cells, f, kind="lemma", meta=meta))
    dec_post = [f for _, f in _des.decoded(dcx, q)]
    k = z3.Const("lem_k", ss)
    n = z3.Int("lem_n")
    # 2. inductions: what the folds hold after n pairs
    tf = lambda n_: tagfold(row, n_)
    T = lambda n_: forall([k], z3.And(
        z3.Select(d_dom(tf(n_)), k) == z3.And(z3.Select(d_dom(tags), k), tpos(k) < n_),
        z3.Implies(z3.Select(d_dom(tf(n_)), k), z3.Select(d_val(tf(n_)), k) == dec_tv(enc_tv(z3.Select(d_val(tags), k))))),
        patterns=[z3.Select(d_dom(tf(n_)), k), z3.Select(d_dom(tags), k)])
    unfold_t = lambda n_: tf(n_) == M.d_store(TagsC, tf(n_ - 1), tag_key(l_at(row, 2 * n_)), dec_tv(l_at(row, 2 * n_ + 1)))
    obs.append(Obligation("lemma:codec/tags_fold/base", hyp, T(z3.IntVal(0)), kind="lemma", meta=meta))
    obs.append(Obligation("lemma:codec/tags_fold/step", hyp + [0 <= n, n < nt, T(n), unfold_t(n + 1), tag_pair(row, p, compact, tk, n)], T(n + 1), kind="lemma", meta=meta))
    ff = lambda n_: fieldfold(row, nt, n_)
    F = lambda n_: forall([k], z3.And(
        z3.Select(d_dom(ff(n_)), k) == z3.And(z3.Select(d_dom(fields), k), fpos(k) < n_),
        z3.Implies(z3.Select(d_dom(ff(n_)), k), z3.Select(d_val(ff(n_)), k) == dec_fv(enc_fv(z3.Select(d_val(fields), k))))),
        patterns=[z3.Select(d_dom(ff(n_)), k), z3.Select(d_dom(fields), k)])
    unfold_f = lambda n_: ff(n_) == M.d_store(FieldsC, ff(n_ - 1), field_key(l_at(row, 2 * (nt + n_))), dec_fv(l_at(row, 2 * (nt + n_) + 1)))
    obs.append(Obligation("lemma:codec/fields_fold/base", hyp, F(z3.IntVal(0)), kind="lemma", meta=meta))
    obs.append(Obligation("lemma:codec/fields_fold/step", hyp + [0 <= n, n < nf, F(n), unfold_f(n + 1), field_pair(row, p, compact, tk, fk, n)], F(n + 1), kind="lemma", meta=meta))
    # 3. the round trip, from the decoder's postcondition and the two induction conclusions
    concl = hyp + cells + dec_post + [T(nt), F(nf), (l_len(row) - 2 - 2 * nt) / 2 == nf]
    qt, qf = q.t["_tags"].t, q.t["_fields"].t
    tv, tv2 = z3.Select(d_val(tags), k), z3.Select(d_val(qt), k)
    fv, fv2 = z3.Select(d_val(fields), k), z3.Select(d_val(qf), k)
    feq = z3.Or(z3.And(o_is_none(fv), o_is_none(fv2)), z3.And(o_is_some(fv), o_is_some(fv2), num_eq(o_val(fv2), o_val(fv))))
    none_text = z3.And(o_is_some(tv), o_val(tv) == NONE_S)
    exact = z3.Or(o_is_none(fv), representable(o_val(fv)))
    goals = [
        ("time", q.t["_time"].t == p.t["_time"].t),
        ("measurement", q.t["_measurement"].t == m),
        ("tags_stay_tags_same_keys", d_dom(qt) == d_dom(tags)),
        ("fields_stay_fields_same_keys", d_dom(qf) == d_dom(fields)),
        ("tag_values", forall([k], z3.Implies(z3.And(z3.Select(d_dom(tags), k), z3.Not(none_text)), tv2 == tv))),
        ("tag_value_with_text_none", forall([k], z3.Implies(z3.And(z3.Select(d_dom(tags), k), none_text), tv2 == tv))),  # KF-16: '_none' is read back as None
        ("field_values_representable", forall([k], z3.Implies(z3.And(z3.Select(d_dom(fields), k), exact), feq))),
        ("field_values_other_ints", forall([k], z3.Implies(z3.And(z3.Select(d_dom(fields), k), z3.Not(exact)), feq))),  # KF-16: ints float64 cannot hold
    ]
    for label, g in goals:
        obs.append(Obligation("lemma:codec/round_trip[%s]" % label, concl, g, kind="lemma", meta=meta))
    # 4. injectivity corollary: one row has one reading (the split point between tags and fields is determined by the row)
    p2 = fresh(CP, "lem_p2", _cf())
    tk2, fk2 = z3.Const("lem_tk2", sort_of(LStr)), z3.Const("lem_fk2", sort_of(LStr))
    compact2 = z3.Bool("lem_compact2")
    lay2 = [f for _, f in layout(row, p2, compact2, tk2, fk2)]
    nt2, nf2 = l_len(tk2), l_len(fk2)
    # instances at the first pair where the two readings would disagree: a tag cell of one reading against the first field cell of the other
    inst2 = [z3.Implies(z3.And(0 <= nt2, nt2 < nt), tag_pair(row, p, compact, tk, nt2)), z3.Implies(0 < nf2, field_pair(row, p2, compact2, tk2, fk2, 0)),
             z3.Implies(z3.And(0 <= nt, nt < nt2), tag_pair(row, p2, compact2, tk2, nt)), z3.Implies(0 < nf, field_pair(row, p, compact, tk, fk, 0))]
    obs.append(Obligation("lemma:codec/same_row_same_split", base + enc_post + lay2 + inst2 + [nt2 >= 0, nf2 >= 0], nt2 == nt, kind="lemma", meta=meta))
    return obs


S.LEMMAS["codec"] = codec_lemma_obligations


def _cf():
    return {k: v["fields"] for k, v in S.CLASSES.items()}
