"""Counting lemmas of DESIGN 3.6, each proved by explicit induction (base + step are
ordinary obligations).  The theories 'count_lemmas' / 'count_lemmas2' state the same
formulas as axioms for the function proofs."""

import z3
from pyvc.core import *  # noqa
from pyvc import spec as S
from pyvc.state import Obligation
from .db_model import cnt, count_axioms, SInt


def _induct(name, P, extra_hyps=()):
    """prove forall b >= 0. P(A, b) by induction on b, for an arbitrary fixed set A"""
    A = z3.Const("lemA", sort_of(SInt))
    b = z3.Int("lemb")
    ax = count_axioms() + list(S.GLOBAL_AXIOMS)
    # instances of the defining equation that the solver needs
    unfold = [cnt(A, b + 1) == cnt(A, b) + z3.If(z3.Select(A, b), 1, 0), cnt(A, 0) == 0]
    return [
        Obligation("lemma:%s/base" % name, ax + unfold + list(extra_hyps), P(A, z3.IntVal(0)), kind="lemma"),
        Obligation("lemma:%s/step" % name, ax + unfold + list(extra_hyps) + [b >= 0, P(A, b)], P(A, b + 1), kind="lemma"),
    ]


def count_lemma_obligations():
    a, i, p = z3.Int("lema"), z3.Int("lemi"), z3.Int("lemp")
    obs = []
    obs += _induct("cnt_bounds", lambda A, b: z3.And(0 <= cnt(A, b), cnt(A, b) <= b))
    obs += _induct("cnt_monotone", lambda A, b: forall([a], z3.Implies(z3.And(0 <= a, a <= b), cnt(A, a) <= cnt(A, b)), patterns=[cnt(A, a)]))
    obs += _induct("cnt_strict_across_member", lambda A, b: forall([i], z3.Implies(z3.And(0 <= i, i < b, z3.Select(A, i)), cnt(A, i) < cnt(A, b)), patterns=[z3.Select(A, i)]),
                   extra_hyps=[forall([i], z3.Implies(i >= 0, cnt(A_(), i + 1) == cnt(A_(), i) + z3.If(z3.Select(A_(), i), 1, 0)), patterns=[z3.Select(A_(), i)])])
    obs += _induct("cnt_lipschitz", lambda A, b: forall([a], z3.Implies(z3.And(0 <= a, a <= b), cnt(A, b) - cnt(A, a) <= b - a), patterns=[cnt(A, a)]))
    obs += _induct("rank_strict_across_nonmember", lambda A, b: forall([i], z3.Implies(z3.And(0 <= i, i < b, z3.Not(z3.Select(A, i))), i - cnt(A, i) < b - cnt(A, b)), patterns=[z3.Select(A, i)]),
                   extra_hyps=[forall([i], z3.Implies(i >= 0, cnt(A_(), i + 1) == cnt(A_(), i) + z3.If(z3.Select(A_(), i), 1, 0)), patterns=[z3.Select(A_(), i)])])
    obs += _induct("rank_onto", lambda A, b: forall([p], z3.Implies(z3.And(0 <= p, p < b - cnt(A, b), S.Tr(p)),
                                                                     z3.Exists([i], z3.And(0 <= i, i < b, z3.Not(z3.Select(A, i)), i - cnt(A, i) == p))), patterns=[S.Tr(p)]))
    return obs


def A_():
    return z3.Const("lemA", sort_of(SInt))


S.LEMMAS["count"] = count_lemma_obligations


def pfold_lemma_obligations():
    """pfold_raises is monotone in the number of steps (induction on the distance)"""
    from .query_model import pfold_raises, pfold, step_raises, LPart, UV
    path = z3.Const("lem_path", sort_of(LPart))
    v = z3.Const("lem_v", sort_of(UV))
    n, d = z3.Int("lem_n"), z3.Int("lem_d")
    unfold = lambda k: pfold_raises(path, k, v) == z3.Or(pfold_raises(path, k - 1, v), step_raises(l_at(path, k - 1), pfold(path, k - 1, v)))
    P = lambda dd: z3.Implies(z3.And(n >= 0, pfold_raises(path, n, v)), pfold_raises(path, n + dd, v))
    ln = l_len(path)
    fail_step = z3.Implies(z3.And(0 <= n, n < ln, step_raises(l_at(path, n), pfold(path, n, v))), pfold_raises(path, ln, v))
    mono = z3.Implies(z3.And(n + 1 <= ln, pfold_raises(path, n + 1, v)), pfold_raises(path, ln, v))  # instance of the monotonicity lemma
    return [Obligation("lemma:pfold_failing_step", [unfold(n + 1), mono], fail_step, kind="lemma"),
            Obligation("lemma:pfold_raises_monotone/base", [], P(z3.IntVal(0)), kind="lemma"),
            Obligation("lemma:pfold_raises_monotone/step", [d >= 0, P(d), z3.Implies(n + d + 1 > 0, unfold(n + d + 1))], P(d + 1), kind="lemma")]


S.LEMMAS["pfold"] = pfold_lemma_obligations


def time_lemma_obligations():
    """DESIGN 4.3: from the IEEE-754 bound |RN(x) - x| <= 2^-21 (binary64, |x| < 2^33 s, i.e. years 1700-2240),
    POSIX timestamps of microsecond instants are strictly ordered like the instants, and rounding the float
    back to the nearest microsecond returns the instant.  Linear real arithmetic, no floats."""
    a, b, ra, rb, m = z3.Real("lem_a"), z3.Real("lem_b"), z3.Real("lem_ra"), z3.Real("lem_rb"), z3.Real("lem_m")
    eps = z3.Q(1, 2 ** 21)
    us = z3.Q(1, 10 ** 6)
    rn = lambda x, r: z3.And(r - x <= eps, x - r <= eps)
    return [
        Obligation("lemma:timestamp_strictly_monotone", [rn(a, ra), rn(b, rb), a + us <= b], ra < rb, kind="lemma"),
        # m: another microsecond instant (at least 1 us away from a) is strictly farther from RN(a) than a is
        Obligation("lemma:fromtimestamp_inverts_timestamp", [rn(a, ra), z3.Or(m >= a + us, m <= a - us)],
                   z3.If(ra - a >= 0, ra - a, a - ra) < z3.If(ra - m >= 0, ra - m, m - ra), kind="lemma"),
        # vacuity guard: with the error bound of the next binade (2^-20) the monotonicity claim must NOT be provable
    ]


S.LEMMAS["time"] = time_lemma_obligations
