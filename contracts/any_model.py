"""The `Any` universe at the API boundary (C14): values of unknown type with isinstance tests,
mappings with AnyV keys and values, and conversions to the typed slots of a Point that are
only legal for values of the right type (posed as obligations: 'no invalid value is stored')."""

import ast as _ast
import z3
from pyvc.core import *  # noqa
from pyvc import spec as S
from pyvc.verify import Exec
from .model import *  # noqa
from .db_model import AnyV, AV_NONE, MP, ODt

_av, _str, _b = sort_of(AnyV), sort_of(TStr), z3.BoolSort()
SAny = TSet(AnyV)
av_isinst = z3.Function("av_isinst", _av, _str, _b)  # isinstance(value, <class name>)
av_keys = z3.Function("av_keys", _av, sort_of(SAny))  # keys of a mapping value
av_get = z3.Function("av_get", _av, _av, _av)  # mapping[key]
av_of_dt = z3.Function("av_of_dt", sort_of(Dt), _av)
av_of_str = z3.Function("av_of_str", _str, _av)
av_as_dt = z3.Function("av_as_dt", _av, sort_of(Dt))
av_as_str = z3.Function("av_as_str", _av, _str)
av_as_tags = z3.Function("av_as_tags", _av, sort_of(TagsD))
av_as_fields = z3.Function("av_as_fields", _av, sort_of(FldsD))
av_truthy = z3.Function("av_truthy", _av, _b)
av_callable = z3.Function("av_callable", _av, _b)
ARGN = ("time", "measurement", "tags", "fields", "unset_fields", "unset_tags")
CLS = {n: str_const("class:" + n) for n in ("str", "int", "float", "bool", "datetime", "Mapping", "Point", "Iterable")}


def isinst(v, name):
    return av_isinst(v, CLS[name])


def is_none(v):
    return v == AV_NONE


def valid_tags(v):
    """ValidTags (DESIGN 3.1): a mapping with str keys and str-or-None values"""
    k = z3.Const(fresh_name("k"), _av)
    return z3.And(isinst(v, "Mapping"), forall([k], z3.Implies(z3.Select(av_keys(v), k), z3.And(isinst(k, "str"), z3.Or(is_none(av_get(v, k)), isinst(av_get(v, k), "str")))),
                                               patterns=[z3.Select(av_keys(v), k)]))


def valid_fields(v):
    """ValidFields: a mapping with str keys and numeric (not bool) or None values"""
    k = z3.Const(fresh_name("k"), _av)
    val = av_get(v, k)
    num = z3.And(z3.Not(isinst(val, "bool")), z3.Or(isinst(val, "int"), isinst(val, "float")))
    return z3.And(isinst(v, "Mapping"), forall([k], z3.Implies(z3.Select(av_keys(v), k), z3.And(isinst(k, "str"), z3.Or(is_none(val), num))), patterns=[z3.Select(av_keys(v), k)]))


def _mapping_is_iterable():
    v = z3.Const("ax_any_v", _av)
    return forall([v], z3.Implies(av_isinst(v, CLS["Mapping"]), av_isinst(v, CLS["Iterable"])), patterns=[av_isinst(v, CLS["Mapping"])])


def any_axioms():
    d = z3.Const("ax_d", sort_of(Dt))
    s_ = z3.Const("ax_s", _str)
    return [
        forall([d], z3.And(isinst(av_of_dt(d), "datetime"), av_as_dt(av_of_dt(d)) == d, av_of_dt(d) != AV_NONE), patterns=[av_of_dt(d)]),
        forall([s_], z3.And(isinst(av_of_str(s_), "str"), av_as_str(av_of_str(s_)) == s_, av_of_str(s_) != AV_NONE), patterns=[av_of_str(s_)]),
        z3.Distinct(*CLS.values()),
        forall([d], z3.BoolVal(True)),
    ] + [z3.Not(av_isinst(AV_NONE, c)) for c in CLS.values()] + [_mapping_is_iterable()]


S.THEORIES["any"] = any_axioms()

# ---- prelude
Exec.isnone_handlers["AnyV"] = lambda ex, v: v.t == AV_NONE
Exec.isinstance_handlers["AnyV"] = lambda ex, v, names, node, st: z3.Or(*[av_isinst(v.t, CLS[n]) if n in CLS else z3.Const(fresh_name("isinstance_" + n), z3.BoolSort()) for n in names])
Exec.coercions.setdefault("AnyV", {})["Dt"] = lambda ex, v: Val(AnyV, av_of_dt(v.t))
Exec.coercions.setdefault("AnyV", {})["Str"] = lambda ex, v: Val(AnyV, av_of_str(v.t))
AVKeys = TU("AVKeys")
AVValues = TU("AVValues")


def _need_mapping(ex, v, node, what):
    ex.hazard("AttributeError", isinst(v.t, "Mapping"), node, "%s of a non-mapping" % what)


Exec.method_handlers[("AnyV", "keys")] = lambda ex, v, node, st, rn: (_need_mapping(ex, v, node, ".keys()"), Val(SAny, av_keys(v.t)))[1]
Exec.method_handlers[("AnyV", "values")] = lambda ex, v, node, st, rn: (_need_mapping(ex, v, node, ".values()"), Val(AVValues, v.t))[1]


def _enum_keys(ex, st, dom):
    """a fresh enumeration of a set: key sequence + position function (as for dict iteration)"""
    lty = TList(AnyV)
    ks = Val(lty, z3.Const(fresh_name("keys"), sort_of(lty)))
    idx = z3.Function(fresh_name("kidx"), _av, z3.IntSort())
    n = l_len(ks.t)
    k = z3.Const(fresh_name("k"), _av)
    j = z3.Int(fresh_name("j"))
    st.assume(n >= 0)
    st.assume(forall([k], z3.Implies(z3.Select(dom, k), z3.And(0 <= idx(k), idx(k) < n, l_at(ks.t, idx(k)) == k)), patterns=[idx(k), z3.Select(dom, k)]))
    st.assume(forall([j], z3.Implies(z3.And(0 <= j, j < n), z3.And(z3.Select(dom, l_at(ks.t, j)), idx(l_at(ks.t, j)) == j)), patterns=[l_at(ks.t, j)]))
    return ks, idx, n


def _iter_values(ex, v, s, st):
    ks, idx, n = _enum_keys(ex, st, av_keys(v.t))
    return n, ks, (lambda j: Val(AnyV, av_get(v.t, l_at(ks.t, j)))), {"idx": idx, "mapping": v}


def _iter_mapping(ex, v, s, st):
    ks, idx, n = _enum_keys(ex, st, av_keys(v.t))
    return n, ks, (lambda j: Val(AnyV, l_at(ks.t, j))), {"idx": idx, "mapping": v}


Exec.iter_handlers["AVValues"] = _iter_values
Exec.iter_handlers["AnyV"] = _iter_mapping


def _b_all(self, node, st):
    """all(<cond> for x in <set | mapping | mapping.values()>)"""
    g = node.args[0]
    if not (isinstance(g, _ast.GeneratorExp) and len(g.generators) == 1 and not g.generators[0].ifs and isinstance(g.generators[0].target, _ast.Name)):
        raise Unsupported("all() of this shape", node)
    src = self.eval(g.generators[0].iter, st)
    x = z3.Const(fresh_name("all_x"), _av)
    if src.ty == SAny:
        dom, elem = src.t, x
    elif src.ty == AnyV:
        self.hazard("TypeError", isinst(src.t, "Iterable"), node, "iteration over a non-iterable")
        dom, elem = av_keys(src.t), x
    elif src.ty == AVValues:
        dom, elem = av_keys(src.t), av_get(src.t, x)
    else:
        raise Unsupported("all() over %s" % src.ty, node)
    st2 = st.fork()
    st2.env[g.generators[0].target.id] = Val(AnyV, elem)
    self.bound.append(x)
    self.guards.append(z3.Select(dom, x))
    try:
        c = self.truthy(self.eval(g.elt, st2), node)
    finally:
        self.guards.pop()
        self.bound.pop()
    return Val(TBool, forall([x], z3.Implies(z3.Select(dom, x), c), patterns=[z3.Select(dom, x)]))


Exec.b_all = _b_all


# conversions into the typed slots of a Point: legal only for values of the right type (C14)
def _conv(target, pred, fn):
    def c(ex, v):
        ex.hazard("InvalidValueStored", pred(v.t), None, "a value of the wrong type would be stored (%s)" % target)
        return fn(v.t)
    return c


Exec.coercions.setdefault(ODt.key, {})["AnyV"] = _conv("time", lambda t: isinst(t, "datetime"), lambda t: Val(ODt, o_some(ODt, av_as_dt(t))))
Exec.coercions.setdefault("Dt", {})["AnyV"] = _conv("time", lambda t: isinst(t, "datetime"), lambda t: Val(Dt, av_as_dt(t)))
Exec.coercions.setdefault("Str", {})["AnyV"] = _conv("measurement", lambda t: isinst(t, "str"), lambda t: Val(TStr, av_as_str(t)))
Exec.coercions.setdefault(TagsD.key, {})["AnyV"] = _conv("tags", valid_tags, lambda t: Val(TagsD, av_as_tags(t)))
Exec.coercions.setdefault(FldsD.key, {})["AnyV"] = _conv("fields", valid_fields, lambda t: Val(FldsD, av_as_fields(t)))


def static_args_ok(c):
    """what _generate_updater has checked before returning the closure"""
    g = lambda n: getattr(c, n).t
    tr, ca = av_truthy, av_callable
    x = z3.Const(fresh_name("x"), _av)
    strs = lambda v: z3.Or(isinst(v, "str"), z3.And(isinst(v, "Iterable"), forall([x], z3.Implies(z3.Select(av_keys(v), x), isinst(x, "str")), patterns=[z3.Select(av_keys(v), x)])))
    return z3.And(
        z3.Or(*[tr(g(n)) for n in ARGN]),
        z3.Implies(z3.And(tr(g("time")), z3.Not(ca(g("time")))), isinst(g("time"), "datetime")),
        z3.Implies(z3.And(tr(g("measurement")), z3.Not(ca(g("measurement")))), isinst(g("measurement"), "str")),
        z3.Implies(z3.And(tr(g("tags")), z3.Not(ca(g("tags")))), valid_tags(g("tags"))),
        z3.Implies(z3.And(tr(g("fields")), z3.Not(ca(g("fields")))), valid_fields(g("fields"))),
        z3.Implies(tr(g("unset_tags")), strs(g("unset_tags"))),
        z3.Implies(tr(g("unset_fields")), strs(g("unset_fields"))))




def _any_astimezone(ex, v, node, st, rn):
    """x.astimezone(tz) on a dynamically typed value: an AttributeError unless x is a datetime"""
    ex.hazard("AttributeError", isinst(v.t, "datetime"), node, "astimezone on a non-datetime")
    return Val(Dt, dt_utc(av_as_dt(v.t)))


Exec.method_handlers[("AnyV", "astimezone")] = _any_astimezone
