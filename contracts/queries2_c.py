"""queries.py cone, part 2: equality and combination (C17), BaseQuery constructors and their closures (C09)."""

import ast as _ast
import z3
from pyvc.core import *  # noqa
from pyvc import spec as S
from pyvc.spec import contract, Contract
from pyvc.verify import Exec
from .model import *  # noqa
from .query_model import *  # noqa
from .queries_c import *  # noqa
from .queries_c import _QM, self_q, py_hash

_b = z3.BoolSort()
_uvs, _ops, _hs, _strs = sort_of(UV), sort_of(Op), sort_of(H), sort_of(TStr)
mk_testfn = z3.Function("mk_testfn", _b, _ops, _uvs, sort_of(Args), sort_of(TestFn))  # closure `test` of _generate_simple_query
mk_pathfn = z3.Function("mk_pathfn", sort_of(LPart), sort_of(PathFn))  # closure `path_resolver`
mk_regex_op = z3.Function("mk_regex_op", z3.IntSort(), _uvs, _uvs, _ops)  # closure `test` of matches (0) / search (1)
re_p = z3.Function("re_p", z3.IntSort(), _uvs, _uvs, _uvs, _b)  # re.fullmatch / re.search succeeds (ASSUMED uninterpreted)
hsem = z3.Function("hsem", _hs, sort_of(Pt), _b)  # the meaning a (truthy) hash value stands for (C17)
op_of_name = z3.Function("op_of_name", _strs, _ops)  # "==" -> operator.eq ...
CONST_TRUE_OP = z3.Const("lambda_true_op", _ops)
CONST_TRUE_TF = z3.Const("lambda_true_test", sort_of(TestFn))
TRUTHY_OP = z3.Const("lambda_identity_op", _ops)
IDENT_PF = z3.Const("lambda_identity_path", sort_of(PathFn))
OPNAMES = {"==": "eq", "!=": "ne", "<": "lt", "<=": "le", ">": "gt", ">=": "ge"}


def closure_axioms():
    tar = z3.Bool("ax_tar")
    o, r, a, x = z3.Const("ax_o", _ops), z3.Const("ax_r", _uvs), z3.Const("ax_a", sort_of(Args)), z3.Const("ax_x", _uvs)
    path = z3.Const("ax_path", sort_of(LPart))
    k = z3.Int("ax_kind")
    rg, fl = z3.Const("ax_rg", _uvs), z3.Const("ax_fl", _uvs)
    t = mk_testfn(tar, o, r, a)
    A = [
        forall([tar, o, r, a, x], z3.And(
            tf_raises(t, x) == z3.If(tar, z3.BoolVal(False), z3.If(args_truthy(a), op_callv_raises(o, x, a), op_call1_raises(o, x))),
            tf_apply(t, x) == z3.If(tar, z3.And(z3.Not(op_call2_raises(o, x, r)), op_call2(o, x, r)), z3.If(args_truthy(a), op_callv(o, x, a), op_call1(o, x)))),
            patterns=[tf_apply(t, x), tf_raises(t, x)]),
        forall([path, x], z3.And(pf_raises(mk_pathfn(path), x) == pfold_raises(path, l_len(path), x), pf_apply(mk_pathfn(path), x) == pfold(path, l_len(path), x)),
               patterns=[pf_apply(mk_pathfn(path), x), pf_raises(mk_pathfn(path), x)]),
        forall([k, rg, fl, x], z3.And(z3.Not(op_call1_raises(mk_regex_op(k, rg, fl), x)), op_call1(mk_regex_op(k, rg, fl), x) == z3.And(uv_is_str(x), re_p(k, rg, x, fl))),
               patterns=[op_call1(mk_regex_op(k, rg, fl), x), op_call1_raises(mk_regex_op(k, rg, fl), x)]),
        forall([x], z3.And(op_call1(CONST_TRUE_OP, x), z3.Not(op_call1_raises(CONST_TRUE_OP, x)), tf_apply(CONST_TRUE_TF, x), z3.Not(tf_raises(CONST_TRUE_TF, x)),
                           pf_apply(IDENT_PF, x) == x, z3.Not(pf_raises(IDENT_PF, x))),
               patterns=[op_call1(CONST_TRUE_OP, x), tf_apply(CONST_TRUE_TF, x), pf_apply(IDENT_PF, x), pf_raises(IDENT_PF, x), tf_raises(CONST_TRUE_TF, x)]),
        forall([x], z3.And(op_call1(TRUTHY_OP, x) == uv_truthy(x), z3.Not(op_call1_raises(TRUTHY_OP, x))), patterns=[op_call1(TRUTHY_OP, x)]),
        z3.And(*[op_of_name(str_const(n)) == OPS[v] for n, v in OPNAMES.items()]),
        z3.Distinct(*[str_const(n) for n in list(OPNAMES) + ["test", "matches", "search", "exists", "path", "and", "or", "not", "tags", "fields", "measurement", "time"]]),
    ]
    return A


def hash_axioms():
    """what a truthy hash value means (C17): structural, symmetric for the commutative pairs"""
    at = z3.Const("ax_at", sort_of(TOpt(TStr)))
    nm = z3.Const("ax_nm", _strs)
    path = z3.Const("ax_path", sort_of(LPart))
    r, fl = z3.Const("ax_r", _uvs), z3.Const("ax_fl", _uvs)
    o, a = z3.Const("ax_o", _ops), z3.Const("ax_a", sort_of(Args))
    h1, h2 = z3.Const("ax_h1", _hs), z3.Const("ax_h2", _hs)
    p = z3.Const("ax_p", sort_of(Pt))
    v0 = uv_attr(p, o_val(at))
    res = pfold(path, l_len(path), v0)
    ok = z3.Not(pfold_raises(path, l_len(path), v0))
    AND, OR, NOT = str_const("and"), str_const("or"), str_const("not")
    A = [
        forall([at, nm, path, r, p], hsem(h_cmp(at, nm, path, r), p) == z3.And(ok, z3.Not(op_call2_raises(op_of_name(nm), res, r)), op_call2(op_of_name(nm), res, r)),
               patterns=[hsem(h_cmp(at, nm, path, r), p)]),
        forall([at, path, o, a, p], hsem(h_test(at, path, o, a), p) == z3.And(ok, z3.If(args_truthy(a), op_callv(o, res, a), op_call1(o, res))), patterns=[hsem(h_test(at, path, o, a), p)]),
        forall([at, nm, path, r, fl, p], hsem(h_regex_f(at, nm, path, r, fl), p) == z3.And(ok, uv_is_str(res), re_p(z3.If(nm == str_const("matches"), 0, 1), r, res, fl)),
               patterns=[hsem(h_regex_f(at, nm, path, r, fl), p)]),
        forall([at, path, p], hsem(h_exists(at, path), p) == ok, patterns=[hsem(h_exists(at, path), p)]),
        forall([nm, h1, h2], h_pair(nm, h1, h2) == h_pair(nm, h2, h1), patterns=[h_pair(nm, h1, h2)]),
        forall([h1, h2, p], z3.And(hsem(h_pair(AND, h1, h2), p) == z3.And(hsem(h1, p), hsem(h2, p)), hsem(h_pair(OR, h1, h2), p) == z3.Or(hsem(h1, p), hsem(h2, p))),
               patterns=[hsem(h_pair(AND, h1, h2), p), hsem(h_pair(OR, h1, h2), p)]),
        forall([h1, p], hsem(h_not(NOT, h1), p) == z3.Not(hsem(h1, p)), patterns=[hsem(h_not(NOT, h1), p)]),
        # every constructed tuple is a non-empty tuple: truthy and different from None / ()
        forall([at, nm, path, r], z3.And(h_truthy(h_cmp(at, nm, path, r)), h_cmp(at, nm, path, r) != h_none), patterns=[h_cmp(at, nm, path, r)]),
        forall([at, path, o, a], z3.And(h_truthy(h_test(at, path, o, a)), h_test(at, path, o, a) != h_none), patterns=[h_test(at, path, o, a)]),
        forall([at, nm, path, r, fl], z3.And(h_truthy(h_regex_f(at, nm, path, r, fl)), h_regex_f(at, nm, path, r, fl) != h_none), patterns=[h_regex_f(at, nm, path, r, fl)]),
        forall([at, path], z3.And(h_truthy(h_exists(at, path)), h_exists(at, path) != h_none), patterns=[h_exists(at, path)]),
        forall([nm, h1, h2], z3.And(h_truthy(h_pair(nm, h1, h2)), h_pair(nm, h1, h2) != h_none), patterns=[h_pair(nm, h1, h2)]),
        forall([nm, h1], z3.And(h_truthy(h_not(nm, h1)), h_not(nm, h1) != h_none), patterns=[h_not(nm, h1)]),
        forall([nm], z3.And(h_truthy(h_base(nm)), h_base(nm) != h_none), patterns=[h_base(nm)]),
        forall([path], z3.And(h_truthy(h_path(path)), h_path(path) != h_none), patterns=[h_path(path)]),
    ]
    return A


S.THEORIES["closures"] = closure_axioms()
S.THEORIES["hashes"] = hash_axioms()
QT2 = ("queries", "querycode", "queryobjects", "closures", "hashes", "boolops")


def hash_faithful(q):
    """C17: if the query is hashable-and-truthy, its hash value determines its meaning on every point"""
    p = z3.Const(fresh_name("p"), sort_of(Pt))
    return z3.Implies(h_truthy(q_hashv(q)), forall([p], sem(q, p) == hsem(q_hashv(q), p), patterns=[sem(q, p)]))


# ---- hash tuples, frozensets, lambdas as values
def _to_hash(ex, v, node):
    if v.ty.key == "PyTuple":
        elems = v.t
    elif isinstance(v.ty, TTuple):
        elems = tuple(Val(e, t_get(v.t, i)) for i, e in enumerate(v.ty.elems))
    else:
        return None
    tys = [e.ty.key for e in elems]
    opt = lambda e: ex.coerce(e, TOpt(TStr), node).t
    if len(elems) == 0:
        return Val(H, h_unit)
    if tys == ["Str"]:
        return Val(H, h_base(elems[0].t))
    if tys == ["Str", LPart.key]:
        return Val(H, h_path(elems[1].t))
    if len(elems) == 2 and tys[0] == "Str" and tys[1] == "HPair":
        return Val(H, h_pair(elems[0].t, elems[1].t[0].t, elems[1].t[1].t))
    if tys == ["Str", "H"]:
        return Val(H, h_not(elems[0].t, elems[1].t))
    if len(elems) == 3 and tys[1] == "Str" and tys[2] == LPart.key:
        return Val(H, h_exists(opt(elems[0]), elems[2].t))
    if len(elems) == 4 and tys[1] == "Str" and tys[2] == LPart.key:
        return Val(H, h_cmp(opt(elems[0]), elems[1].t, elems[2].t, ex.coerce(elems[3], UV, node).t))
    if len(elems) == 5 and tys[1] == "Str" and tys[2] == LPart.key and tys[3] == "Op":
        return Val(H, h_test(opt(elems[0]), elems[2].t, elems[3].t, ex.coerce(elems[4], Args, node).t))
    if len(elems) == 5 and tys[1] == "Str" and tys[2] == LPart.key:
        return Val(H, h_regex_f(opt(elems[0]), elems[1].t, elems[2].t, ex.coerce(elems[3], UV, node).t, ex.coerce(elems[4], UV, node).t))
    raise Unsupported("hash tuple of shape %s" % tys, node)


Exec.coercions.setdefault("H", {})["*"] = _to_hash


def _frozenset(ex, node, st):
    (a,) = node.args
    if isinstance(a, _ast.List) and len(a.elts) == 2:
        x, y = [ex.coerce(ex.eval(e, st), H, node) for e in a.elts]
        return Val(TU("HPair"), (x, y))
    raise Unsupported("frozenset of this shape", node)


Exec.b_frozenset = lambda self, node, st: _frozenset(self, node, st)


def _lambda_to(sort_name):
    def conv(ex, v, node=None):
        if v.ty.key != "LambdaAst":
            return None
        lam, st = v.t
        body = lam.body
        if isinstance(body, _ast.Constant) and body.value is True and len(lam.args.args) == 1:
            return {"Op": Val(Op, CONST_TRUE_OP), "TestFn": Val(TestFn, CONST_TRUE_TF)}.get(sort_name)
        if isinstance(body, _ast.Name) and len(lam.args.args) == 1 and body.id == lam.args.args[0].arg and sort_name == "PathFn":
            return Val(PathFn, IDENT_PF)
        if isinstance(body, _ast.Name) and len(lam.args.args) == 1 and body.id == lam.args.args[0].arg and sort_name == "Op":
            return Val(Op, TRUTHY_OP)  # `lambda v: v` used as a test: the truthiness of the value
        raise Unsupported("lambda of this shape as %s" % sort_name, lam)
    return conv


for _sn in ("Op", "TestFn", "PathFn"):
    Exec.coercions.setdefault(_sn, {})["*"] = _lambda_to(_sn)

Exec.isinstance_handlers["UV"] = lambda ex, v, names, node, st: uv_is_str(v.t) if names == ["str"] else z3.Const(fresh_name("isinstance_uv"), z3.BoolSort())
Match = TU("Match")


def _re_call(kind):
    def h(ex, node, st):
        rg, val, fl = [ex.coerce(ex.eval(a, st), UV, node) for a in node.args]
        ex.hazard("TypeError", uv_is_str(val.t), node, "re function on a non-string")
        ty = TOpt(Match)
        return Val(ty, z3.If(re_p(kind, rg.t, val.t, fl.t), o_some(ty, z3.Const("a_match", sort_of(Match))), o_none(ty)))
    return h


Exec.global_calls["re.fullmatch"] = _re_call(0)
Exec.global_calls["re.search"] = _re_call(1)
re_match_prefix = z3.Function("re_match_prefix", _uvs, _uvs, _uvs, _b)


def _re_match(ex, node, st):
    # re.match (prefix match) is a different predicate from the documented whole-string match
    rg, val, fl = [ex.coerce(ex.eval(a, st), UV, node) for a in node.args]
    ex.hazard("TypeError", uv_is_str(val.t), node, "re function on a non-string")
    ty = TOpt(Match)
    return Val(ty, z3.If(re_match_prefix(rg.t, val.t, fl.t), o_some(ty, z3.Const("a_match", sort_of(Match))), o_none(ty)))


Exec.global_calls["re.match"] = _re_match
Exec.binop_handlers[("Add", LPart.key, "T_Str_")] = lambda ex, a, b, node, st: _append_part(ex, a, part_of_str(t_get(b.t, 0)), st)
Exec.binop_handlers[("Add", LPart.key, "T_Op_")] = lambda ex, a, b, node, st: _append_part(ex, a, part_of_fn(t_get(b.t, 0)), st)


def _append_part(ex, lst, part, st):
    R = z3.Const(fresh_name("path"), sort_of(LPart))
    n = l_len(lst.t)
    j = z3.Int(fresh_name("j"))
    ex.fact(st, l_len(R) == n + 1)
    ex.fact(st, l_at(R, n) == part)
    ex.fact(st, forall([j], z3.Implies(z3.And(0 <= j, j < n), l_at(R, j) == l_at(lst.t, j)), patterns=[l_at(R, j), l_at(lst.t, j)]))
    return Val(LPart, R)


# ---------------------------------------------------------------- __eq__ / & | ~ on the two query classes
def _eq_contract(cls, objty, other_kinds):
    @contract(_QM + cls + ".__eq__")
    class _c(Contract):
        """C17: queries compare equal only when both have the same truthy hash; hence (hash-faithful queries) the same meaning"""
        params = dict(self=objty, other=Q)
        ret = TBool
        theories = QT2

        @staticmethod
        def requires(c):
            return [("self_hash_faithful", hash_faithful(self_q(c))), ("other_hash_faithful", hash_faithful(c.other.t))]

        @staticmethod
        def ensures(c):
            hs, ho = c.self.t["_hash"].t, q_hashv(c.other.t)
            p = z3.Const(fresh_name("p"), sort_of(Pt))
            return [("equal_iff_same_truthy_hash", c.result.t == z3.And(z3.Or(*[q_kind(c.other.t) == k for k in other_kinds]), h_truthy(hs), h_truthy(ho), hs == ho)),
                    ("equal_queries_mean_the_same", z3.Implies(c.result.t, forall([p], sem(self_q(c), p) == sem(c.other.t, p)))),
                    ("equal_queries_hash_equal", z3.Implies(c.result.t, py_hash(hs) == py_hash(ho))),
                    ("unhashable_equals_nothing", z3.Implies(hs == h_none, z3.Not(c.result.t)))]
    return _c


_eq_contract("SimpleQuery", SQ, (0,))
_eq_contract("CompoundQuery", CQ, (0, 1))


def _combine(cls, objty, meth, opname, tag, binary=True):
    @contract(_QM + cls + "." + meth)
    class _c(Contract):
        """C09/C17: the combination is a CompoundQuery with the boolean operator, hashable iff the operands are, with the SAME hash whatever the operand order / class"""
        params = dict(self=objty, other=Q) if binary else dict(self=objty)
        ret = CQ
        theories = QT2

        @staticmethod
        def requires(c):
            pre = [("self_hash_faithful", hash_faithful(self_q(c)))]
            if binary:
                pre += [("other_is_query", z3.Or(q_kind(c.other.t) == 0, q_kind(c.other.t) == 1)), ("other_hash_faithful", hash_faithful(c.other.t))]
            return pre

        @staticmethod
        def ensures(c):
            r = c.result.t
            me = self_q(c)
            hs = c.self.t["_hash"].t
            rq = mk_compound(r["query1"].t, r["query2"].t, r["operator"].t, r["_hash"].t)
            if binary:
                ho = q_hashv(c.other.t)
                exp_h = z3.If(z3.And(hs != h_none, ho != h_none), h_pair(str_const(tag), hs, ho), h_none)
                parts = z3.And(r["query1"].t == me, r["query2"].t == o_some(OQ, c.other.t))
            else:
                exp_h = z3.If(hs != h_none, h_not(str_const(tag), hs), h_none)
                parts = z3.And(r["query1"].t == me, o_is_none(r["query2"].t))
            return [("operands_and_operator", z3.And(parts, r["operator"].t == OPS[opname])), ("hash", r["_hash"].t == exp_h),
                    ("result_hash_faithful_if_operands_truthy", z3.Implies(z3.And(h_truthy(hs), h_truthy(q_hashv(c.other.t)) if binary else z3.BoolVal(True)), hash_faithful(rq)))]
    return _c


for _cls, _ty in (("SimpleQuery", SQ), ("CompoundQuery", CQ)):
    _combine(_cls, _ty, "__and__", "and_", "and")
    _combine(_cls, _ty, "__or__", "or_", "or")
    _combine(_cls, _ty, "__invert__", "not_", "not", binary=False)

Exec.method_handlers[("Q", "is_hashable")] = lambda ex, v, node, st, rn: Val(TBool, q_hashv(v.t) != h_none)
