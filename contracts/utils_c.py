"""Contracts for tinyflux/utils.py (C18) and the assumed contract of bisect."""

import z3
from pyvc.core import *  # noqa
from pyvc import spec as S
from pyvc.spec import contract, Contract

LR = TList(TReal)


def _partition(c, strict_left):
    """bisect_left: a[:i] < x <= a[i:]; bisect_right: a[:i] <= x < a[i:]."""
    a, x, i = c.a, c.x.t, c.result.t
    n = S.length(a)
    lo = (lambda j: S.at(a, j) < x) if strict_left else (lambda j: S.at(a, j) <= x)
    hi = (lambda j: S.at(a, j) >= x) if strict_left else (lambda j: S.at(a, j) > x)
    pat = lambda j: [S.at(a, j)]
    return [
        ("range", z3.And(0 <= i, i <= n)),
        ("left", S.forall_int(0, i, lo, patterns=pat)),
        ("right", S.forall_int(i, n, hi, patterns=pat)),
    ]


@contract("bisect.bisect_left")
class _bl(Contract):
    """ASSUMED (DESIGN 4.1): CPython's bisect on a list sorted under a total order."""
    params = dict(a=LR, x=TReal)
    ret = TInt
    assumed = True

    @staticmethod
    def requires(c):
        return [("sorted", S.nondecreasing(c.a))]

    @staticmethod
    def ensures(c):
        return _partition(c, True)


@contract("bisect.bisect_right")
class _br(Contract):
    """ASSUMED (DESIGN 4.1)."""
    params = dict(a=LR, x=TReal)
    ret = TInt
    assumed = True

    @staticmethod
    def requires(c):
        return [("sorted", S.nondecreasing(c.a))]

    @staticmethod
    def ensures(c):
        return _partition(c, False)


def _find(name, hit, left_of, right_of, leftmost):
    """Common shape of the five helpers.

    result None  <=> no position satisfies `hit`;
    otherwise hit(result) and no position further left (leftmost) / right
    (rightmost) satisfies hit.  Taken from the C18 statement.
    """

    class _c(Contract):
        params = dict(sorted_list=LR, x=TReal)
        ret = TOpt(TInt)

        @staticmethod
        def requires(c):
            return [("sorted", S.nondecreasing(c.sorted_list))]

        @staticmethod
        def ensures(c):
            a, x, r = c.sorted_list, c.x.t, c.result
            n = S.length(a)
            pat = lambda j: [S.at(a, j)]
            ri = o_val(r.t)
            none_case = S.forall_int(0, n, lambda j: z3.Not(hit(S.at(a, j), x)), patterns=pat)
            some_case = z3.And(0 <= ri, ri < n, hit(S.at(a, ri), x))
            if leftmost:
                extremal = S.forall_int(0, ri, lambda j: z3.Not(hit(S.at(a, j), x)), patterns=pat)
            else:
                extremal = S.forall_int(ri + 1, n, lambda j: z3.Not(hit(S.at(a, j), x)), patterns=pat)
            return [
                ("none_iff_absent", z3.Implies(S.is_none(r), none_case)),
                ("found_in_range_and_hits", z3.Implies(S.is_some(r), some_case)),
                ("found_is_extremal", z3.Implies(S.is_some(r), extremal)),
                ("none_only_if_absent", z3.Implies(z3.Not(none_case), S.is_some(r))),
            ]

    _c.__name__ = name
    contract("tinyflux.utils." + name)(_c)
    return _c


find_eq = _find("find_eq", lambda e, x: e == x, None, None, leftmost=True)
find_lt = _find("find_lt", lambda e, x: e < x, None, None, leftmost=False)
find_le = _find("find_le", lambda e, x: e <= x, None, None, leftmost=False)
find_gt = _find("find_gt", lambda e, x: e > x, None, None, leftmost=True)
find_ge = _find("find_ge", lambda e, x: e >= x, None, None, leftmost=True)
