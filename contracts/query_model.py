"""Vocabulary for the queries.py cone (C09, C17): hash values, callable components of a
SimpleQuery, the value universe seen by path resolvers and tests."""

import z3
from pyvc.core import *  # noqa
from pyvc import spec as S
from pyvc.spec import register_class
from .model import *  # noqa

H = TU("H")  # hash values (`_hash`): None, (), or a non-empty tuple
TestFn = TU("TestFn")  # SimpleQuery._test
PathFn = TU("PathFn")  # SimpleQuery._path_resolver
Part = TU("Part")  # an element of BaseQuery._path: a str key or a function
Args = TU("Args")  # the *args tuple handed to BaseQuery.test
LPart = TList(Part)
_str, _pt, _q, _uv, _op, _dt = sort_of(TStr), sort_of(Pt), sort_of(Q), sort_of(UV), sort_of(Op), sort_of(Dt)
_h, _tf, _pf, _part, _args = sort_of(H), sort_of(TestFn), sort_of(PathFn), sort_of(Part), sort_of(Args)
_b = z3.BoolSort()

# ---- hash constructors (Python tuples / frozensets compare structurally: injectivity is ASSUMED)
h_none = z3.Const("h_none", _h)
h_unit = z3.Const("h_unit", _h)  # the empty tuple ()
h_base = z3.Function("h_base", _str, _h)  # ("tags",) / ("fields",) / ...
h_path = z3.Function("h_path", sort_of(LPart), _h)  # ("path", path)
h_cmp = z3.Function("h_cmp", sort_of(TOpt(TStr)), _str, sort_of(LPart), _uv, _h)  # (attr, "==", path, rhs)
h_test = z3.Function("h_test", sort_of(TOpt(TStr)), sort_of(LPart), _op, _args, _h)
h_regex = z3.Function("h_regex", sort_of(TOpt(TStr)), _str, sort_of(LPart), _uv, _h)  # (attr, "matches"/"search", path, regex)
h_regex_f = z3.Function("h_regex_f", sort_of(TOpt(TStr)), _str, sort_of(LPart), _uv, _uv, _h)  # ... with flags
h_exists = z3.Function("h_exists", sort_of(TOpt(TStr)), sort_of(LPart), _h)
h_pair = z3.Function("h_pair", _str, _h, _h, _h)  # (tag, frozenset([h1, h2]))
h_not = z3.Function("h_not", _str, _h, _h)  # (tag, h)
h_truthy = z3.Function("h_truthy", _h, _b)

# ---- components of a SimpleQuery
tf_apply = z3.Function("tf_apply", _tf, _uv, _b)  # test(value) (tests return bool; may raise)
tf_raises = z3.Function("tf_raises", _tf, _uv, _b)
pf_apply = z3.Function("pf_apply", _pf, _uv, _uv)  # path_resolver(value)
pf_raises = z3.Function("pf_raises", _pf, _uv, _b)
q_testfn = z3.Function("q_testfn", _q, _tf)
q_pathfn = z3.Function("q_pathfn", _q, _pf)
q_hashv = z3.Function("q_hashv", _q, _h)
q_rhs = z3.Function("q_rhs", _q, _uv)
mk_simple = z3.Function("mk_simple", _str, _op, _uv, _tf, _pf, _h, _q)
mk_compound = z3.Function("mk_compound", _q, sort_of(TOpt(Q)), _op, _h, _q)
uv_attr = z3.Function("uv_attr", _pt, _str, _uv)  # getattr(point, "_tags") ...
uv_tagsd = z3.Function("uv_tagsd", sort_of(TagsD), _uv)
uv_fldsd = z3.Function("uv_fldsd", sort_of(FldsD), _uv)
uv_none = z3.Const("uv_none", _uv)
uv_get = z3.Function("uv_get", _uv, _str, _uv)  # value[key]
uv_get_raises = z3.Function("uv_get_raises", _uv, _str, _b)
uv_is_str = z3.Function("uv_is_str", _uv, _b)
uv_truthy = z3.Function("uv_truthy", _uv, _b)

# ---- operators applied by tests
op_call1 = z3.Function("op_call1", _op, _uv, _b)
op_call1_raises = z3.Function("op_call1_raises", _op, _uv, _b)
op_call2 = z3.Function("op_call2", _op, _uv, _uv, _b)
op_call2_raises = z3.Function("op_call2_raises", _op, _uv, _uv, _b)
op_callv = z3.Function("op_callv", _op, _uv, _args, _b)
op_callv_raises = z3.Function("op_callv_raises", _op, _uv, _args, _b)
args_truthy = z3.Function("args_truthy", _args, _b)
op_bool1 = z3.Function("op_bool1", _op, _b, _b)  # operator(bool)
op_bool2 = z3.Function("op_bool2", _op, _b, _b, _b)

# ---- path parts
part_is_str = z3.Function("part_is_str", _part, _b)
part_str = z3.Function("part_str", _part, _str)
part_of_str = z3.Function("part_of_str", _str, _part)
part_of_fn = z3.Function("part_of_fn", _op, _part)
part_apply = z3.Function("part_apply", _part, _uv, _uv)
part_apply_raises = z3.Function("part_apply_raises", _part, _uv, _b)

# fold of a path over a value (DESIGN 5, C09): state after the first k parts
pfold = z3.Function("pfold", sort_of(LPart), z3.IntSort(), _uv, _uv)
pfold_raises = z3.Function("pfold_raises", sort_of(LPart), z3.IntSort(), _uv, _b)  # some step among the first k raised


def step_raises(part, v):
    return z3.If(part_is_str(part), uv_get_raises(v, part_str(part)), part_apply_raises(part, v))


def step(part, v):
    return z3.If(part_is_str(part), uv_get(v, part_str(part)), part_apply(part, v))


def queries_theory():
    A = []
    q = z3.Const("ax_q", _q)
    p = z3.Const("ax_p", _pt)
    v = z3.Const("ax_v", _uv)
    k = z3.Const("ax_k", _str)
    path = z3.Const("ax_path", sort_of(LPart))
    n = z3.Int("ax_n")
    D = z3.Const("ax_D", sort_of(TagsD))
    F = z3.Const("ax_F", sort_of(FldsD))
    s_ = z3.Const("ax_s", _str)
    tv = z3.Const("ax_tv", sort_of(TagV))
    fv = z3.Const("ax_fv", sort_of(FldV))
    d = z3.Const("ax_d", _dt)
    # getattr(point, attr)
    A.append(forall([p], z3.And(uv_attr(p, A_TIME) == uv_dt(time_of(p)), uv_attr(p, A_MEAS) == uv_str(meas(p)),
                                uv_attr(p, A_TAGS) == uv_tagsd(tagsd(p)), uv_attr(p, A_FIELDS) == uv_fldsd(fldsd(p))), patterns=[time_of(p), meas(p), tagsd(p), fldsd(p)]))
    # subscripting: dict-like values resolve keys; scalars raise (str[str], None[...], float[...], datetime[...] are TypeErrors)
    A.append(forall([D, k], z3.And(uv_get_raises(uv_tagsd(D), k) == z3.Not(z3.Select(d_dom(D), k)), uv_get(uv_tagsd(D), k) == uv_tagv(z3.Select(d_val(D), k))),
                    patterns=[uv_get_raises(uv_tagsd(D), k), uv_get(uv_tagsd(D), k)]))
    A.append(forall([F, k], z3.And(uv_get_raises(uv_fldsd(F), k) == z3.Not(z3.Select(d_dom(F), k)), uv_get(uv_fldsd(F), k) == uv_fldv(z3.Select(d_val(F), k))),
                    patterns=[uv_get_raises(uv_fldsd(F), k), uv_get(uv_fldsd(F), k)]))
    A.append(forall([s_, k], uv_get_raises(uv_str(s_), k), patterns=[uv_get_raises(uv_str(s_), k)]))
    A.append(forall([tv, k], uv_get_raises(uv_tagv(tv), k), patterns=[uv_get_raises(uv_tagv(tv), k)]))
    A.append(forall([fv, k], uv_get_raises(uv_fldv(fv), k), patterns=[uv_get_raises(uv_fldv(fv), k)]))
    A.append(forall([d, k], uv_get_raises(uv_dt(d), k), patterns=[uv_get_raises(uv_dt(d), k)]))
    # path fold
    A.append(forall([path, v], z3.And(pfold(path, 0, v) == v, z3.Not(pfold_raises(path, 0, v))), patterns=[pfold(path, 0, v)]))
    A.append(forall([path, v], z3.Not(pfold_raises(path, 0, v)), patterns=[pfold_raises(path, 0, v)]))
    prev = pfold(path, n - 1, v)
    A.append(forall([path, n, v], z3.Implies(n > 0, z3.And(
        pfold_raises(path, n, v) == z3.Or(pfold_raises(path, n - 1, v), step_raises(l_at(path, n - 1), prev)),
        pfold(path, n, v) == step(l_at(path, n - 1), prev))), patterns=[pfold(path, n, v), pfold_raises(path, n, v)]))
    # parts
    A.append(forall([k], z3.And(part_is_str(part_of_str(k)), part_str(part_of_str(k)) == k), patterns=[part_of_str(k)]))
    o = z3.Const("ax_o", _op)
    A.append(forall([o], z3.Not(part_is_str(part_of_fn(o))), patterns=[part_of_fn(o)]))
    # None passed as rhs / args is falsy
    A.append(z3.And(z3.Not(uv_truthy(uv_none)), z3.Not(args_truthy(z3.Const("args_none", _args)))))
    # once a step has failed the walk has failed (proved by induction: lemma:pfold)
    n2 = z3.Int("ax_n2")
    A.append(forall([path, n, n2, v], z3.Implies(z3.And(0 <= n, n <= n2, pfold_raises(path, n, v)), pfold_raises(path, n2, v)),
                    patterns=[z3.MultiPattern(pfold_raises(path, n, v), pfold_raises(path, n2, v))]))
    # a failing step makes the whole walk fail (lemma:pfold)
    A.append(forall([path, n, v], z3.Implies(z3.And(0 <= n, n < l_len(path), step_raises(l_at(path, n), pfold(path, n, v))), pfold_raises(path, l_len(path), v)),
                    patterns=[z3.MultiPattern(pfold(path, n, v), l_at(path, n))]))
    # hash truthiness: None and () are falsy, every other tuple is truthy
    A.append(z3.And(z3.Not(h_truthy(h_none)), z3.Not(h_truthy(h_unit)), h_none != h_unit))
    return [a for a in A if a is not None]


def _fix_none_patterns(lst):
    return lst


S.THEORIES["querycode"] = queries_theory()
