"""Contract for TinyFlux.select and Measurement.select (C01, C10).

select(select_keys, query, measurement) returns, for exactly the selected points in insertion
order, the requested attributes.  Vocabulary added here:

* KeysArg - the `select_keys` argument (a str, or an iterable of str): observers ka_is_str,
  ka_iterable, ka_str, ka_list.
* abstract strings get three uninterpreted observers (startswith, len, suffix-from) - the
  contract and the code talk about key syntax through the same three functions, no string
  theory is involved.
* Cell - one returned attribute value (None | a datetime | a str | a number) as a z3 datatype,
  so that "the tag is absent", "the tag's value is None" and "the field's value is None" are all
  the one Python value None.
* Row - an element of the returned list: the single cell when one key was given, else the tuple
  of cells (observers row_is_single/row_cell/row_len/row_at; constructor axioms in theory 'select').
"""

import z3
from pyvc.core import *  # noqa
from pyvc import spec as S
from pyvc.spec import contract, Contract
from pyvc.verify import Exec
from .model import *  # noqa
from .db_model import *  # noqa
from . import db_c
from .db_c import READ_RAISES, after_read, storage_unchanged, NONE_STR, OStr, _wfquery

_TF = "tinyflux.database.TinyFlux."
_str, _b, _dt = sort_of(TStr), z3.BoolSort(), sort_of(Dt)
LStr = TList(TStr)

# ---------------------------------------------------------------- the select_keys argument
KeysArg = TU("KeysArg")
_ka = sort_of(KeysArg)
ka_is_str = z3.Function("ka_is_str", _ka, _b)
ka_iterable = z3.Function("ka_iterable", _ka, _b)  # hasattr(select_keys, "__iter__")
ka_str = z3.Function("ka_str", _ka, _str)
ka_list = z3.Function("ka_list", _ka, sort_of(LStr))  # list(select_keys) when it is an iterable of str

Exec.hasattr_handlers["KeysArg"] = lambda ex, v, name, node, st: ka_iterable(v.t) if name == "__iter__" else _unsupported("hasattr(select_keys, %r)" % name, node)
Exec.isinstance_handlers["KeysArg"] = lambda ex, v, names, node, st: ka_is_str(v.t) if names == ["str"] else _unsupported("isinstance(select_keys, %s)" % names, node)
Exec.coercions.setdefault("Str", {})["KeysArg"] = lambda ex, v: Val(TStr, ka_str(v.t))  # `[select_keys]` (evaluated only where isinstance(select_keys, str))
Exec.listof_handlers["KeysArg"] = lambda ex, v, node, st: Val(LStr, ka_list(v.t))


def _unsupported(what, node):
    raise Unsupported(what, node)


# ---------------------------------------------------------------- key syntax on abstract strings
str_startswith = z3.Function("str_startswith", _str, _str, _b)
str_len = z3.Function("str_len", _str, z3.IntSort())
str_from = z3.Function("str_from", _str, z3.IntSort(), _str)  # s[k:]


def _m_startswith(ex, recv, node, st, recv_node):
    (a,) = [ex.eval(x, st) for x in node.args]
    if a.ty != TStr:
        raise Unsupported("startswith(%s)" % a.ty, node)
    return Val(TBool, str_startswith(recv.t, a.t))


def _slice_str(ex, base, sl, node, st):
    if sl.upper is not None or sl.lower is None or not (isinstance(sl.lower, __import__("ast").Constant) and isinstance(sl.lower.value, int) and sl.lower.value >= 0):
        raise Unsupported("slice of an abstract str other than s[<const>:]", node)
    return Val(TStr, str_from(base.t, z3.IntVal(sl.lower.value)))


Exec.method_handlers[("Str", "startswith")] = _m_startswith
Exec.len_handlers["Str"] = lambda ex, v, node, st: Val(TInt, str_len(v.t))
Exec.slice_handlers["Str"] = _slice_str

K_TIME, K_MEAS, P_TAGS, P_FIELDS = str_const("time"), str_const("measurement"), str_const("tags."), str_const("fields.")


def valid_key(k):
    """the documented key syntax: 'time', 'measurement', 'tags.<key>' or 'fields.<key>' with a non-empty <key>"""
    return z3.Or(k == K_TIME, k == K_MEAS, z3.And(str_startswith(k, P_TAGS), str_len(k) > 5), z3.And(str_startswith(k, P_FIELDS), str_len(k) > 7))


# ---------------------------------------------------------------- cells and rows
_cell = z3.Datatype("Cell")
_cell.declare("c_none")
_cell.declare("c_dt", ("c_dt_v", _dt))
_cell.declare("c_str", ("c_str_v", _str))
_cell.declare("c_num", ("c_num_v", z3.RealSort()))
_cell = _cell.create()
Cell = TU("Cell")
from pyvc import core as _core
_core._sorts["Cell"] = _cell  # the descriptor `Cell` denotes this datatype
LCell = TList(Cell)
LLCell = TList(LCell)


def cell_of_tag(v):
    return z3.If(o_is_none(v), _cell.c_none, _cell.c_str(o_val(v)))


def cell_of_fld(v):
    return z3.If(o_is_none(v), _cell.c_none, _cell.c_num(o_val(v)))


Exec.coercions.setdefault("Cell", {})["None"] = lambda ex, v: Val(Cell, _cell.c_none)
Exec.coercions["Cell"]["Dt"] = lambda ex, v: Val(Cell, _cell.c_dt(v.t))
Exec.coercions["Cell"]["Str"] = lambda ex, v: Val(Cell, _cell.c_str(v.t))
Exec.coercions["Cell"][TagV.key] = lambda ex, v: Val(Cell, cell_of_tag(v.t))
Exec.coercions["Cell"][FldV.key] = lambda ex, v: Val(Cell, cell_of_fld(v.t))
Exec.coercions["Cell"][ODt.key] = lambda ex, v: Val(Cell, z3.If(o_is_none(v.t), _cell.c_none, _cell.c_dt(o_val(v.t))))


def cell(p, k):
    """the attribute of point p that key k names (None when the tag / field key is absent)"""
    tk, fk = str_from(k, z3.IntVal(5)), str_from(k, z3.IntVal(7))
    return z3.If(k == K_TIME, _cell.c_dt(time_of(p)),
                 z3.If(k == K_MEAS, _cell.c_str(meas(p)),
                       z3.If(str_startswith(k, P_TAGS), z3.If(has_tag(p, tk), cell_of_tag(tag(p, tk)), _cell.c_none),
                             z3.If(has_fld(p, fk), cell_of_fld(fld(p, fk)), _cell.c_none))))


Row = TU("Row")
_row = sort_of(Row)
row_single = z3.Function("row_single", _cell, _row)
row_tuple = z3.Function("row_tuple", sort_of(LCell), _row)
row_is_single = z3.Function("row_is_single", _row, _b)
row_cell = z3.Function("row_cell", _row, _cell)
row_len = z3.Function("row_len", _row, z3.IntSort())
row_at = z3.Function("row_at", _row, z3.IntSort(), _cell)
LRow = TList(Row)
Exec.coercions.setdefault("Row", {})["Cell"] = lambda ex, v: Val(Row, row_single(v.t))
Exec.tupleof_handlers[LCell.key] = lambda ex, v, node, st: Val(Row, row_tuple(v.t))


def _row_axioms():
    c = z3.Const("ax_cell", _cell)
    l = z3.Const("ax_cells", sort_of(LCell))
    k = z3.Int("ax_rk")
    return [
        forall([c], z3.And(row_is_single(row_single(c)), row_cell(row_single(c)) == c), patterns=[row_single(c)]),
        forall([l], z3.And(z3.Not(row_is_single(row_tuple(l))), row_len(row_tuple(l)) == l_len(l)), patterns=[row_tuple(l)]),
        forall([l, k], row_at(row_tuple(l), k) == l_at(l, k), patterns=[row_at(row_tuple(l), k)]),
    ]


S.THEORIES["select"] = _row_axioms()

# RowOf(r, p, ks): the list r holds, key by key, the attributes of p named by ks (definition given to every obligation of select)
RowOf = z3.Function("RowOf", sort_of(LCell), sort_of(Pt), sort_of(LStr), _b)


def rowof_def(r, p, ks):
    k = z3.Int(fresh_name("k"))
    return RowOf(r, p, ks) == z3.And(l_len(r) == l_len(ks), forall([k], z3.Implies(z3.And(0 <= k, k < l_len(ks)), l_at(r, k) == cell(p, l_at(ks, k))), patterns=[l_at(r, k)]))


def _rowof_axiom():
    r, p, ks = z3.Const("ax_r", sort_of(LCell)), z3.Const("ax_p", sort_of(Pt)), z3.Const("ax_ks", sort_of(LStr))
    return [forall([r, p, ks], rowof_def(r, p, ks), patterns=[RowOf(r, p, ks)])]


S.THEORIES["select"] += _rowof_axiom()


KEYS = z3.Const("keys_denoted", sort_of(LStr))


def keys_of(c):
    """the key list the call denotes: [select_keys] for a str, else list(select_keys)"""
    ka = c.select_keys.t
    return KEYS, [z3.Implies(ka_is_str(ka), z3.And(l_len(KEYS) == 1, l_at(KEYS, 0) == ka_str(ka))), z3.Implies(z3.Not(ka_is_str(ka)), KEYS == ka_list(ka)), l_len(KEYS) >= 0]


def same_list(a, b):
    k = z3.Int(fresh_name("k"))
    return z3.And(l_len(a) == l_len(b), forall([k], z3.Implies(z3.And(0 <= k, k < l_len(a)), l_at(a, k) == l_at(b, k)), patterns=[l_at(a, k), l_at(b, k)]))


def _all_valid(ks, upto):
    k = z3.Int(fresh_name("k"))
    return forall([k], z3.Implies(z3.And(0 <= k, k < upto), valid_key(l_at(ks, k))), patterns=[l_at(ks, k)])


def _rows_inv(results, gsrc, A, items, t, keys):
    """results/gsrc built so far enumerate A ∩ [0,t) in storage order, each row being the projection of its point"""
    a, i = z3.Int(fresh_name("a")), z3.Int(fresh_name("i"))
    n = l_len(gsrc)
    return [
        ("ghost_len", z3.And(l_len(results) == n, n == cnt(A, t))),
        ("ghost_sound", forall([a], z3.Implies(z3.And(0 <= a, a < n), z3.And(0 <= l_at(gsrc, a), l_at(gsrc, a) < t, z3.Select(A, l_at(gsrc, a)), cnt(A, l_at(gsrc, a)) == a,
                                                                        RowOf(l_at(results, a), dec(l_at(items, l_at(gsrc, a))), keys))),
                               patterns=[l_at(gsrc, a), l_at(results, a)])),
        ("ghost_complete", forall([i], z3.Implies(z3.And(0 <= i, i < t, z3.Select(A, i)), l_at(gsrc, cnt(A, i)) == i), patterns=[z3.Select(A, i)])),
    ]


@contract(_TF + "select")
class _select(Contract):
    """C01: select returns, for exactly the selected points, once each and in insertion order, the attributes the keys name:
    the bare value when one key was given, else a tuple with one entry per key; an absent tag / field key yields None."""
    params = dict(self=DB, select_keys=KeysArg, query=Q, measurement=OStr)
    defaults = dict(measurement=NONE_STR)
    ret = LRow
    modifies = ("_index",)
    theories = ("queries", "dbqueries", "count", "count_lemmas", "select")
    raises = dict(READ_RAISES, ValueError=staticmethod(lambda c: _select._value_error(c)))
    locals = dict(results=LLCell, result=LCell, keys=LStr, gsrc=LInt)
    ghost_vars = ("gsrc",)
    ghost_init = "gsrc = []"
    ghost_after = [("results.append(result)", "gsrc.append(_t)")]
    witness_sig = {"src": ([TInt], TInt), "rank": ([TInt], TInt)}

    @staticmethod
    def _value_error(c):
        """ValueError exactly when the argument is not iterable or some key is outside the documented syntax"""
        ks, _ = keys_of(c)
        k = z3.Int(fresh_name("k"))
        bad = z3.Exists([k], z3.And(0 <= k, k < l_len(ks), z3.Not(valid_key(l_at(ks, k)))))
        return dict(when=z3.Or(z3.Not(ka_iterable(c.select_keys.t)), bad))

    @staticmethod
    def requires(c):
        ka = c.select_keys.t
        return db_c.dbinv(c.self) + _wfquery(c) + [("a_str_is_iterable", z3.Implies(ka_is_str(ka), ka_iterable(ka))), ("keys_list_wf", l_len(ka_list(ka)) >= 0)]

    @staticmethod
    def ghost_defs(c):
        A, facts = selected_set(c.self, c.query, c.measurement)
        ks, kfacts = keys_of(c)
        return {"Asel": (A, facts), "Keys": (Val(LStr, ks), kfacts)}

    @staticmethod
    def witness(c):
        g, A = c.gsrc.t, c.Asel.t
        return {"src": lambda a: l_at(g, a), "rank": lambda i: cnt(A, i)}

    @staticmethod
    def lemmas(c):
        return [("card_is_cnt", card_is_cnt(c.Asel.t, l_len(c.old.self.t["_storage"].t["items"].t)))]

    @staticmethod
    def ensures(c):
        R, A, ks = c.result.t, c.Asel.t, c.Keys.t
        src, rank = c.wit["src"], c.wit["rank"]
        items = c.old.self.t["_storage"].t["items"].t
        a, i, k = z3.Int(fresh_name("a")), z3.Int(fresh_name("i")), z3.Int(fresh_name("k"))
        nR = l_len(R)
        p = lambda a_: dec(l_at(items, src(a_)))
        row = l_at(R, a)
        shape = z3.If(l_len(ks) == 1,
                      z3.And(row_is_single(row), row_cell(row) == cell(p(a), l_at(ks, 0))),
                      z3.And(z3.Not(row_is_single(row)), row_len(row) == l_len(ks),
                             forall([k], z3.Implies(z3.And(0 <= k, k < l_len(ks)), row_at(row, k) == cell(p(a), l_at(ks, k))), patterns=[row_at(row, k)])))
        return [
            ("one_row_per_selected_point", nR == card(A)),
            ("rows_are_selected_once", forall([a], z3.Implies(z3.And(0 <= a, a < nR), z3.And(z3.Select(A, src(a)), rank(src(a)) == a)), patterns=[l_at(R, a)])),
            ("rows_hold_the_named_attributes", forall([a], z3.Implies(z3.And(0 <= a, a < nR), shape), patterns=[l_at(R, a)])),
            ("every_selected_listed", forall([i], z3.Implies(z3.Select(A, i), z3.And(0 <= rank(i), rank(i) < nR, src(rank(i)) == i)), patterns=[z3.Select(A, i), rank(i)])),
            ("order", in_storage_order(src, nR)),
            ("all_keys_valid", _all_valid(ks, l_len(ks))),
        ] + after_read(c) + storage_unchanged(c)

    # -- loop invariants -----------------------------------------------------
    @staticmethod
    def _inv_validate(c):
        t = c.loop("for key in keys").t
        return [("keys_is_denoted_list", same_list(c.keys.t, c.Keys.t)), ("validated_so_far", _all_valid(c.keys.t, t))] + after_read(c)

    @staticmethod
    def _inv_project(c, indexed):
        """inner loops: result holds the attributes for keys[0:t) of the point being visited"""
        t = c.loop("for key in keys").t
        k = z3.Int(fresh_name("k"))
        r, ks, p = c._env["result"].t, c.keys.t, c._point.t  # the local named `result` (c.result is the return value)
        return [("result_len", l_len(r) == t),
                ("result_cells", forall([k], z3.Implies(z3.And(0 <= k, k < t), l_at(r, k) == cell(p, l_at(ks, k))), patterns=[l_at(r, k)]))]

    @staticmethod
    def _inv_keys(c):
        if not c.has("results"):
            return _select._inv_validate(c)
        return _select._inv_project(c, c.has("index_rst"))

    @staticmethod
    def _common(c):
        return [("keys_is_denoted_list", same_list(c.keys.t, c.Keys.t)), ("keys_valid", _all_valid(c.keys.t, l_len(c.keys.t)))]

    @staticmethod
    def _inv_index(c):
        I = c.index_rst.t["_items"].t
        items = c.self.t["_storage"].t["items"].t
        t = c.loop("for i, item in enumerate(self._storage)").t
        return [("j_counts", c.j.t == l_len(c.gsrc.t)), ("index_answer_is_selection", I == c.Asel.t)] + _select._common(c) \
            + _rows_inv(c.results.t, c.gsrc.t, c.Asel.t, items, t, c.keys.t) + after_read(c)

    @staticmethod
    def _inv_scan(c):
        items = c.self.t["_storage"].t["items"].t
        t = c.loop("for item in self._storage").t
        return _select._common(c) + _rows_inv(c.results.t, c.gsrc.t, c.Asel.t, items, t, c.keys.t) + after_read(c)

    loops = {
        "for key in keys": dict(inv=lambda c: _select._inv_keys(c)),
        "for i, item in enumerate(self._storage)": dict(inv=lambda c: _select._inv_index(c)),
        "for item in self._storage": dict(inv=lambda c: _select._inv_scan(c)),
    }
