"""MemoryStorage refines the abstract Storage contract (storage_c.py): every method's postcondition is the
abstract clause itself, read through the view  items = _memory, temp = _temp_memory  (mechanical: the abstract
`ensures` functions are re-used, not re-typed).

Items of a MemoryStorage are the Point objects themselves: `dec` is the value of the object, serialisation is the
identity.  Aliasing (the same object being reachable from the caller and from storage, KF-18) is not visible in this
value model and stays an assumption."""

import z3
from pyvc.core import *  # noqa
from pyvc import spec as S
from pyvc.spec import contract, Contract, register_class
from pyvc.verify import Exec
from .model import *  # noqa
from .db_model import *  # noqa
from . import storage_c as A

MEM = TObj("MemStorage")
register_class("MemStorage", "tinyflux.storages", dict(_memory=LItem, _temp_memory=LItem, _initially_empty=TBool))
S.CLASSES["MemStorage"]["source_class"] = "MemoryStorage"
_MQ = "tinyflux.storages.MemoryStorage."

# an item of a MemoryStorage is a point object
mem_item = z3.Function("mem_item", sort_of(Pt), sort_of(Item))
_p = z3.Const("ax_mem_p", sort_of(Pt))
S.THEORIES["memstorage"] = [forall([_p], dec(mem_item(_p)) == _p, patterns=[mem_item(_p)])]
Exec.coercions.setdefault("Pt", {})["Item"] = lambda ex, v: Val(Pt, dec(v.t))
Exec.coercions.setdefault("Item", {})["Pt"] = lambda ex, v: Val(Item, mem_item(v.t))
Exec.attr_handlers[("Item", "measurement")] = lambda ex, v, node, st: Val(TStr, meas(dec(v.t)))


class _View:
    """the abstract Storage seen in a MemoryStorage context"""

    def __init__(self, c, rename=None):
        self._c = c
        self._rename = rename or {}

    @staticmethod
    def _stg(v):
        t = v.t
        return Val(STG, dict(items=t["_memory"], temp=t["_temp_memory"], readable=mk_bool(True), writable=mk_bool(True), appendable=mk_bool(True)))

    @property
    def self(self):
        return self._stg(self._c.self)

    @property
    def old(self):
        return _View(self._c.old, self._rename)

    def __getattr__(self, name):
        return getattr(self._c, self._rename.get(name, name))


def refine(name, abs_con, modifies, params=None, rename=None, loops=None, extra=None):
    ps = dict(self=MEM)
    ps.update(params if params is not None else {k: v for k, v in abs_con.params.items() if k != "self"})

    class _c(Contract):
        pass

    _c.__doc__ = "refines the abstract Storage.%s contract: %s" % (abs_con.__name__, (abs_con.__doc__ or "").strip())
    _c.params = ps
    _c.ret = abs_con.ret
    _c.defaults = {(rename or {}).get(k, k): v for k, v in abs_con.defaults.items()}
    _c.modifies = modifies
    _c.theories = ("memstorage",)
    _c.ensures = staticmethod(lambda c: abs_con.ensures(_View(c, rename)))
    if loops:
        _c.loops = loops
    for k, v in (extra or {}).items():
        setattr(_c, k, v)
    contract(_MQ + name)(_c)
    return _c


def _append_inv(c):
    """after t items: the chosen list is the old one followed by the first t items; the other list is untouched"""
    t = c.loop(0).t
    o, n = c.old.self.t, c.self.t
    j = z3.Int(fresh_name("j"))
    its = c.items.t

    def grown(new, old):
        return z3.And(l_len(new) == l_len(old) + t,
                      forall([j], z3.Implies(z3.And(0 <= j, j < l_len(old)), l_at(new, j) == l_at(old, j)), patterns=[l_at(new, j)]),
                      forall([j], z3.Implies(z3.And(0 <= j, j < t), l_at(new, l_len(old) + j) == l_at(its, j)), patterns=[l_at(its, j)]))

    return [("grown", z3.If(c.temporary.t, z3.And(grown(n["_temp_memory"].t, o["_temp_memory"].t), n["_memory"].t == o["_memory"].t),
                            z3.And(grown(n["_memory"].t, o["_memory"].t), n["_temp_memory"].t == o["_temp_memory"].t)))]


refine("append", A._append, ("_memory", "_temp_memory"), params=dict(items=LItem, temporary=TBool), rename={"points": "items"}, loops={0: dict(inv=_append_inv)})
refine("__len__", A._len, ())
refine("_init_temp_storage", A._init_temp, ("_temp_memory",))
refine("_cleanup_temp_storage", A._cleanup_temp, ("_temp_memory",))
refine("_swap_temp_with_primary", A._swap, ("_memory",))
refine("_deserialize_storage_item", A._dsi, ())
refine("_deserialize_measurement", A._dm, ())
refine("_serialize_point", A._serialize_point, (), params=dict(point=Pt, args=TU("Opaque"), kwargs=TU("Opaque")))


@contract(_MQ + "_write")
class _write(Contract):
    """the primary list becomes the given items (what reset and the abstract `_write` need)"""
    params = dict(self=MEM, items=LItem)
    modifies = ("_memory",)

    @staticmethod
    def ensures(c):
        return [("primary_is_items", c.self.t["_memory"].t == c.items.t)]


refine("reset", A._sreset, ("_memory",))


def _same_prefix(yielded, mem, upto):
    j = z3.Int(fresh_name("j"))
    return z3.And(l_len(yielded) == upto, forall([j], z3.Implies(z3.And(0 <= j, j < upto), l_at(yielded, j) == l_at(mem, j)), patterns=[l_at(yielded, j)]))


@contract(_MQ + "__iter__")
class _iter(Contract):
    """the abstract contract's "iterating the storage yields `items`", for MemoryStorage: the generator yields exactly the elements of the primary
    list, each once, in order, and changes nothing (the generator is read as the list of what it yields: interleaving with writers is A-gen)"""
    params = dict(self=MEM)
    ret = LItem
    modifies = ()
    loops = {0: dict(inv=lambda c: [("yielded_so_far", _same_prefix(c._yielded.t, c.self.t["_memory"].t, c.loop(0).t))])}

    @staticmethod
    def ensures(c):
        return [("yields_the_primary_list", _same_prefix(c.result.t, c.self.t["_memory"].t, l_len(c.self.t["_memory"].t)))]
