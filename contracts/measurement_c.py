"""Contracts for tinyflux/measurement.py (C10): each forwarder equals the database
operation restricted to the handle's name.  The proof binds the real call's arguments to
the callee's real signature and uses the callee's contract."""

import z3
from pyvc.core import *  # noqa
from pyvc import spec as S
from pyvc.spec import contract, Contract, register_class
from .model import *  # noqa
from .db_model import *  # noqa
from . import db_c

MS = TObj("Measurement")
register_class("Measurement", "tinyflux.measurement", dict(_name=TStr, _db=DB))
_M = "tinyflux.measurement.Measurement."
OS = TOpt(TStr)


class _View:
    """present a Measurement contract context as the database's: self -> self._db, measurement -> some(name)"""

    def __init__(self, c, extra=None):
        self._c = c
        self._extra = extra or {}

    def __getattr__(self, n):
        if n in self._extra:
            return self._extra[n]
        if n == "self":
            return self._c.self.t["_db"]
        if n == "measurement":
            return Val(OS, o_some(OS, self._c.self.t["_name"].t))
        if n == "old":
            return _View(self._c.old, self._extra) if self._c.old is not None else None
        return getattr(self._c, n)


def forward(name, dbcon, ret, params, extra_defaults=None):
    class _c(Contract):
        pass

    _c.params = dict(self=MS, **params)
    _c.ret = ret
    _c.modifies = ("_db",)
    _c.theories = dbcon.theories
    _c.defaults = extra_defaults or {}
    _c.raises = {k: staticmethod((lambda f: (lambda c: f(_View(c))))(v)) for k, v in dbcon.raises.items()}
    if hasattr(dbcon, "witness_sig"):
        _c.witness_sig = dbcon.witness_sig
    _c.requires = staticmethod(lambda c: dbcon.requires(_View(c)))

    def ghost_defs(c):
        return dbcon.ghost_defs(_View(c)) if hasattr(dbcon, "ghost_defs") else {}

    _c.ghost_defs = staticmethod(ghost_defs)

    def ensures(c):
        return dbcon.ensures(_View(c))

    _c.ensures = staticmethod(ensures)
    if hasattr(dbcon, "witness_sig"):
        # the forwarder's witnesses are the callee's: taken from the last contract call
        _c.witness = staticmethod(lambda c: c.ex.last_call_witnesses)
    contract(_M + name)(_c)
    return _c


forward("count", db_c._count, TInt, dict(query=Q))
forward("contains", db_c._contains, TBool, dict(query=Q))
forward("get", db_c._get, db_c.OPt, dict(query=Q))
forward("search", db_c._search, LPt, dict(query=Q, sorted=TBool), dict(sorted=lambda ex: mk_bool(True)))
forward("remove", db_c._remove, TInt, dict(query=Q))


@contract(_M + "remove_all")
class _m_remove_all(Contract):
    params = dict(self=MS)
    ret = TInt
    modifies = ("_db",)
    theories = db_c._drop_measurement.theories
    raises = {k: staticmethod((lambda f: (lambda c: f(_View(c))))(v)) for k, v in db_c._drop_measurement.raises.items()}

    @staticmethod
    def _v(c):
        return _View(c, {"name": c.self.t["_name"]})

    @staticmethod
    def requires(c):
        return db_c._drop_measurement.requires(_m_remove_all._v(c))

    @staticmethod
    def ghost_defs(c):
        return db_c._drop_measurement.ghost_defs(_m_remove_all._v(c))

    @staticmethod
    def ensures(c):
        return db_c._drop_measurement.ensures(_m_remove_all._v(c))


@contract(_M + "name")
class _m_name(Contract):
    params = dict(self=MS)
    ret = TStr

    @staticmethod
    def ensures(c):
        return [("is_name", c.result.t == c.self.t["_name"].t)]
