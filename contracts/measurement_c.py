"""Contracts for tinyflux/measurement.py (C10): each forwarder equals the database
operation restricted to the handle's name.  The proof binds the real call's arguments to
the callee's real signature and uses the callee's contract."""

import z3
from pyvc.core import *  # noqa
from pyvc import spec as S
from pyvc.spec import contract, Contract, register_class
from .model import *  # noqa
from .db_model import *  # noqa
from . import db_c

MS = TObj("Measurement")
register_class("Measurement", "tinyflux.measurement", dict(_name=TStr, _db=DB))
_M = "tinyflux.measurement.Measurement."
OS = TOpt(TStr)


class _View:
    """present a Measurement contract context as the database's: self -> self._db, measurement -> some(name)"""

    def __init__(self, c, extra=None):
        self._c = c
        self._extra = extra or {}

    def __getattr__(self, n):
        if n in self._extra:
            return self._extra[n]
        if n == "self":
            return self._c.self.t["_db"]
        if n == "measurement":
            return Val(OS, o_some(OS, self._c.self.t["_name"].t))
        if n == "old":
            return _View(self._c.old, self._extra) if self._c.old is not None else None
        return getattr(self._c, n)



def wrap_raises(dbcon, viewfn):
    """the callee's raises clauses seen through a view of the forwarder's context (also their exceptional ensures)"""
    out = {}
    for kind, fn in dbcon.raises.items():
        def mk(fn):
            def g(c):
                spec = fn(viewfn(c))
                if spec is None:
                    return None
                spec = dict(spec)
                if "ensures" in spec:
                    inner = spec["ensures"]
                    spec["ensures"] = lambda cc: inner(viewfn(cc))
                return spec
            return g
        out[kind] = staticmethod(mk(fn))
    return out


def forward(name, dbcon, ret, params, extra_defaults=None):
    class _c(Contract):
        pass

    _c.params = dict(self=MS, **params)
    _c.ret = ret
    _c.modifies = ("_db",)
    _c.theories = dbcon.theories
    _c.defaults = extra_defaults or {}
    _c.raises = wrap_raises(dbcon, _View)
    if hasattr(dbcon, "witness_sig"):
        _c.witness_sig = dbcon.witness_sig
    _c.requires = staticmethod(lambda c: dbcon.requires(_View(c)))

    def ghost_defs(c):
        return dbcon.ghost_defs(_View(c)) if hasattr(dbcon, "ghost_defs") else {}

    _c.ghost_defs = staticmethod(ghost_defs)

    def ensures(c):
        return dbcon.ensures(_View(c))

    _c.ensures = staticmethod(ensures)
    if hasattr(dbcon, "witness_sig"):
        # the forwarder's witnesses are the callee's: taken from the last contract call
        _c.witness = staticmethod(lambda c: c.ex.last_call_witnesses)
    contract(_M + name)(_c)
    return _c


forward("count", db_c._count, TInt, dict(query=Q))
forward("contains", db_c._contains, TBool, dict(query=Q))
forward("get", db_c._get, db_c.OPt, dict(query=Q))
forward("search", db_c._search, LPt, dict(query=Q, sorted=TBool), dict(sorted=lambda ex: mk_bool(True)))
forward("remove", db_c._remove, TInt, dict(query=Q))


def _select_view(c):
    """Measurement.select(keys, query) seen as TinyFlux.select(select_keys=keys, query, measurement=self._name)"""
    return _View(c, {"select_keys": c.keys})


def _mk_select():
    from . import select_c

    dbcon = select_c._select

    @contract(_M + "select")
    class _m_select(Contract):
        params = dict(self=MS, keys=select_c.KeysArg, query=Q)
        ret = select_c.LRow
        modifies = ("_db",)
        theories = dbcon.theories
        raises = wrap_raises(dbcon, _select_view)
        witness_sig = dbcon.witness_sig
        witness = staticmethod(lambda c: c.ex.last_call_witnesses)
        requires = staticmethod(lambda c: dbcon.requires(_select_view(c)))
        ghost_defs = staticmethod(lambda c: dbcon.ghost_defs(_select_view(c)))
        ensures = staticmethod(lambda c: dbcon.ensures(_select_view(c)))

    return _m_select


_m_select = _mk_select()


@contract(_M + "remove_all")
class _m_remove_all(Contract):
    params = dict(self=MS)
    ret = TInt
    modifies = ("_db",)
    theories = db_c._drop_measurement.theories
    raises = wrap_raises(db_c._drop_measurement, lambda c: _View(c, {"name": c.self.t["_name"]}))

    @staticmethod
    def _v(c):
        return _View(c, {"name": c.self.t["_name"]})

    @staticmethod
    def requires(c):
        return db_c._drop_measurement.requires(_m_remove_all._v(c))

    @staticmethod
    def ghost_defs(c):
        return db_c._drop_measurement.ghost_defs(_m_remove_all._v(c))

    @staticmethod
    def ensures(c):
        return db_c._drop_measurement.ensures(_m_remove_all._v(c))


@contract(_M + "name")
class _m_name(Contract):
    params = dict(self=MS)
    ret = TStr

    @staticmethod
    def ensures(c):
        return [("is_name", c.result.t == c.self.t["_name"].t)]


# ---- update / update_all / insert through the handle
class _UView:
    """present a Measurement.update context as TinyFlux.update's: self -> self._db, _measurement -> some(name)"""

    def __init__(self, c, query=None):
        self._c, self._query = c, query

    def __getattr__(self, n):
        if n == "self":
            return self._c.self.t["_db"]
        if n == "_measurement":
            return Val(OS, o_some(OS, self._c.self.t["_name"].t))
        if n == "query" and self._query is not None:
            return self._query
        if n == "old":
            return _UView(self._c.old, self._query) if self._c.old is not None else None
        return getattr(self._c, n)


def _m_update(name, is_all):
    dbcon = db_c._update
    q = Val(Q, q_noop_meas) if is_all else None

    class _c(Contract):
        """C10: the handle's update is the database update restricted to the handle's name (arguments in the callee's order)"""
        params = dict(self=MS, **({} if is_all else dict(query=Q)), time=AnyV, measurement=AnyV, tags=AnyV, fields=AnyV, unset_fields=AnyV, unset_tags=AnyV)
        defaults = {a: (lambda ex: Val(AnyV, AV_NONE)) for a in db_c.UPD_ARGS}
        ret = TInt
        modifies = ("_db",)
        theories = dbcon.theories
        raises = wrap_raises(dbcon, lambda c: _UView(c, q))
        requires = staticmethod(lambda c: dbcon.requires(_UView(c, q)))
        ghost_defs = staticmethod(lambda c: dbcon.ghost_defs(_UView(c, q)))
        ensures = staticmethod(lambda c: dbcon.ensures(_UView(c, q)))

    contract(_M + name)(_c)
    return _c


_m_update("update", False)
_m_update("update_all", True)


class _IView:
    def __init__(self, c):
        self._c = c

    def __getattr__(self, n):
        if n == "self":
            return self._c.self.t["_db"]
        if n == "measurement":
            return Val(OS, o_some(OS, self._c.self.t["_name"].t))
        if n == "compact_key_prefixes":
            return mk_bool(False)
        if n == "old":
            return _IView(self._c.old) if self._c.old is not None else None
        return getattr(self._c, n)


def _m_insert(name, dbcon, params):
    class _c(Contract):
        """C10: inserting through the handle stores the point under the handle's name"""
        ret = TInt
        modifies = ("_db",)
        theories = dbcon.theories
        raises = wrap_raises(dbcon, _IView)
        requires = staticmethod(lambda c: dbcon.requires(_IView(c)))
        ensures = staticmethod(lambda c: dbcon.ensures(_IView(c)))
        if hasattr(dbcon, "witness_sig"):
            witness_sig = dbcon.witness_sig
            witness = staticmethod(lambda c: c.ex.last_call_witnesses)
    _c.params = dict(self=MS, **params)
    contract(_M + name)(_c)
    return _c


_m_insert("insert", db_c._insert, dict(point=AnyObj))
_m_insert("insert_multiple", db_c._insert_multiple, dict(points=LAny))
