"""Contracts for CSVStorage against the I/O model (C04, C12, C13, C15, C16)."""

import z3
from pyvc.core import *  # noqa
from pyvc import spec as S
from pyvc.spec import contract, Contract
from .model import *  # noqa
from .db_model import Item, LItem
from .io_model import *  # noqa

_CS = "tinyflux.storages.CSVStorage."
_li = sort_of(LItem)
cat = z3.Function("cat", _li, _li, _li)  # ghost: concatenation of row lists


def cat_axioms():
    a, b = z3.Const("ax_la", _li), z3.Const("ax_lb", _li)
    j = z3.Int("ax_j")
    c = cat(a, b)
    return [forall([a, b], l_len(c) == l_len(a) + l_len(b), patterns=[c]),
            forall([a, b, j], z3.Implies(z3.And(0 <= j, j < l_len(a)), l_at(c, j) == l_at(a, j)), patterns=[l_at(c, j)]),
            forall([a, b, j], z3.Implies(z3.And(l_len(a) <= j, j < l_len(a) + l_len(b)), l_at(c, j) == l_at(b, j - l_len(a))), patterns=[l_at(c, j)])]


S.THEORIES["cat"] = cat_axioms() + [PRIMARY != TEMP, SWAP_PATH != TEMP_NAME]


def same(a, b):
    j = z3.Int(fresh_name("j"))
    return z3.And(l_len(a) == l_len(b), forall([j], z3.Implies(z3.And(0 <= j, j < l_len(a)), l_at(a, j) == l_at(b, j)), patterns=[l_at(a, j), l_at(b, j)]))


def prefix(a, b):
    j = z3.Int(fresh_name("j"))
    return z3.And(l_len(a) <= l_len(b), forall([j], z3.Implies(z3.And(0 <= j, j < l_len(a)), l_at(a, j) == l_at(b, j)), patterns=[l_at(a, j), l_at(b, j)]))


def f(c, name):
    return c.self.t[name].t


def view(c):
    """the logical contents: what reading through the live primary handle yields"""
    return cat(f(c, "disk"), f(c, "wbuf"))


def wf_handles(c):
    th = f(c, "_temp_handle")
    return [("handles", z3.And(f(c, "_handle") == PRIMARY, z3.Implies(o_is_some(th), o_val(th) == TEMP)))]


def unchanged(c, *names):
    return z3.And(*[f(c, n) == f(c.old, n) for n in names])


TEMP_FIELDS = ("tdisk", "twbuf", "t_open", "t_exists", "t_same_format")
PRIM_FIELDS = ("disk", "wbuf", "h_open", "at_start")
ALLG = tuple(GHOST)
FAULT = lambda c: c.self.t["faulted"].t


def mode_in(c, *modes):
    return z3.Or(*[f(c, "_mode") == str_const(m) for m in modes])


def _gate(name, modes):
    @contract(_CS + name)
    class _c(Contract):
        """C15: a pure function of the access mode; raises IOError before anything else when the mode forbids the operation"""
        params = dict(self=CSV)
        ret = TBool
        raises = {"IOError": staticmethod(lambda c: dict(when=z3.Not(mode_in(c, *modes))))}

        @staticmethod
        def ensures(c):
            return [("true", c.result.t)]
    return _c


_gate("can_append", ("r+", "w", "w+", "a", "a+"))
_gate("can_read", ("r+", "r", "w+", "a+"))
_gate("can_write", ("r+", "w", "w+"))


def io_raises(ens):
    """an injected OSError (single-fault model): allowed only when a fault was injected; `ens` is the exceptional postcondition"""
    return {"OSError": staticmethod(lambda c: dict(when=z3.BoolVal(True), exact=False, ensures=ens))}


@contract(_CS + "append")
class _append(Contract):
    """C04/C16/C12/C13: appending only adds rows at the end; with flush_on_insert they are on disk when the call returns;
    the cost is 1 + len(items) (+3) I/O calls and no read; a crash or I/O error leaves old rows plus a prefix of the new ones."""
    params = dict(self=CSV, items=LItem, temporary=TBool)
    defaults = dict(temporary=lambda ex: mk_bool(False))
    modifies = ALLG
    theories = ("cat",)

    @staticmethod
    def requires(c):
        return wf_handles(c) + [("not_faulted", z3.Not(FAULT(c)))]

    @staticmethod
    def crash_inv(c):
        # C12: at every I/O step the primary file holds the old rows plus a prefix of what is being appended
        target = cat(cat(f(c.old, "disk"), f(c.old, "wbuf")), c.items.t)
        return [("old_rows_kept", prefix(f(c.old, "disk"), f(c, "disk"))),
                ("only_a_prefix_of_the_new_rows_added", z3.If(c.temporary.t, f(c, "disk") == f(c.old, "disk"), prefix(f(c, "disk"), target)))]

    @staticmethod
    def _exc(c):
        target = cat(cat(f(c.old, "disk"), f(c.old, "wbuf")), c.items.t)
        return [("fault_was_injected", FAULT(c)),
                ("file_old_plus_prefix", z3.And(prefix(f(c.old, "disk"), f(c, "disk")), z3.If(c.temporary.t, f(c, "disk") == f(c.old, "disk"), prefix(f(c, "disk"), target)))),
                ("live_contents_old_plus_prefix", z3.Implies(z3.Not(c.temporary.t), z3.And(prefix(cat(f(c.old, "disk"), f(c.old, "wbuf")), view(c)), prefix(view(c), target))))]

    raises = dict(io_raises(lambda c: _append._exc(c)), IOError=staticmethod(lambda c: dict(when=z3.And(c.temporary.t, o_is_none(f(c, "_temp_handle"))), exact=False)))

    @staticmethod
    def ensures(c):
        items = c.items.t
        flush = f(c, "_flush_on_insert")
        n = l_len(items)
        prim = z3.Not(c.temporary.t)
        return [
            ("primary_contents_extended", z3.Implies(prim, z3.And(same(view(c), cat(cat(f(c.old, "disk"), f(c.old, "wbuf")), items)), unchanged(c, "tdisk", "twbuf")))),
            ("temporary_contents_extended", z3.Implies(c.temporary.t, z3.And(same(cat(f(c, "tdisk"), f(c, "twbuf")), cat(cat(f(c.old, "tdisk"), f(c.old, "twbuf")), items)),
                                                                              f(c, "disk") == f(c.old, "disk") if False else same(view(c), cat(f(c.old, "disk"), f(c.old, "wbuf")))))),
            ("flushed_rows_are_on_disk", z3.Implies(z3.And(prim, flush), z3.And(l_len(f(c, "wbuf")) == 0, same(f(c, "disk"), cat(cat(f(c.old, "disk"), f(c.old, "wbuf")), items))))),
            ("existing_bytes_are_a_prefix", prefix(f(c.old, "disk"), f(c, "disk"))),
            ("io_calls_constant_per_row", f(c, "io") == f(c.old, "io") + 1 + n + z3.If(flush, 3, 0)),
            ("no_read", f(c, "reads") == f(c.old, "reads")),
            ("no_fault", z3.Not(FAULT(c))),
            ("temp_file_untouched", unchanged(c, "t_exists", "t_open", "t_same_format", "staged_exists", "h_open")),
        ]

    @staticmethod
    def _inv(c):
        t = c.loop(0).t
        items = c.items.t
        j = z3.Int(fresh_name("j"))
        h = o_val(c.handle.t) if isinstance(c.handle.ty, TOpt) else c.handle.t
        first_t = lambda buf, base: z3.And(l_len(buf) == t, forall([j], z3.Implies(z3.And(0 <= j, j < t), l_at(buf, j) == l_at(items, j)), patterns=[l_at(buf, j)]))
        prim = h == PRIMARY
        return [("handle", z3.And(z3.Or(h == PRIMARY, h == TEMP), prim == z3.Not(c.temporary.t), c.csv_writer.t == mk_writer(h))),
                ("primary", z3.If(prim, z3.And(same(f(c, "disk"), cat(f(c.old, "disk"), f(c.old, "wbuf"))), first_t(f(c, "wbuf"), None), unchanged(c, "tdisk", "twbuf")),
                                  z3.And(same(f(c, "tdisk"), cat(f(c.old, "tdisk"), f(c.old, "twbuf"))), first_t(f(c, "twbuf"), None), unchanged(c, "disk", "wbuf")))),
                ("counters", z3.And(f(c, "io") == f(c.old, "io") + 1 + t, f(c, "reads") == f(c.old, "reads"), z3.Not(FAULT(c)))),
                ("rest", unchanged(c, "t_exists", "t_open", "t_same_format", "staged_exists", "staged", "h_open"))]

    loops = {0: dict(inv=lambda c: _append._inv(c))}


def old_view(c):
    return cat(f(c.old, "disk"), f(c.old, "wbuf"))


def temp_view(c):
    return cat(f(c, "tdisk"), f(c, "twbuf"))


@contract(_CS + "_write")
class _write(Contract):
    """C04/C12: the file is emptied with one truncate and then holds exactly `items`"""
    params = dict(self=CSV, items=LItem)
    modifies = ALLG
    theories = ("cat",)

    @staticmethod
    def requires(c):
        return wf_handles(c) + [("not_faulted", z3.Not(FAULT(c)))]

    @staticmethod
    def crash_inv(c):
        return [("old_contents_or_prefix_of_new", z3.Or(f(c, "disk") == f(c.old, "disk"), same(f(c, "disk"), old_view(c)), prefix(f(c, "disk"), c.items.t)))]

    raises = io_raises(lambda c: [("fault_was_injected", FAULT(c)),
                                  ("file_old_or_prefix_of_new", z3.Or(f(c, "disk") == f(c.old, "disk"), same(f(c, "disk"), old_view(c)), prefix(f(c, "disk"), c.items.t)))])

    @staticmethod
    def ensures(c):
        return [("contents_are_items", z3.And(same(f(c, "disk"), c.items.t), l_len(f(c, "wbuf")) == 0)), ("no_fault", z3.Not(FAULT(c))),
                ("temp_untouched", unchanged(c, *TEMP_FIELDS, "staged_exists", "h_open"))]


@contract(_CS + "reset")
class _reset(Contract):
    params = dict(self=CSV)
    modifies = ALLG
    theories = ("cat",)
    requires = staticmethod(_write.requires)

    @staticmethod
    def crash_inv(c):
        return [("old_contents_or_empty", z3.Or(f(c, "disk") == f(c.old, "disk"), same(f(c, "disk"), old_view(c)), l_len(f(c, "disk")) == 0))]

    raises = io_raises(lambda c: [("fault_was_injected", FAULT(c)), ("file_old_or_empty", z3.Or(f(c, "disk") == f(c.old, "disk"), same(f(c, "disk"), old_view(c)), l_len(f(c, "disk")) == 0))])

    @staticmethod
    def ensures(c):
        return [("empty", z3.And(l_len(f(c, "disk")) == 0, l_len(f(c, "wbuf")) == 0)), ("no_fault", z3.Not(FAULT(c))), ("temp_untouched", unchanged(c, *TEMP_FIELDS, "staged_exists", "h_open"))]


@contract(_CS + "__len__")
class _len(Contract):
    """C07: the number of rows (after fix 7067aa0); C15: a read leaves the contents as they were"""
    params = dict(self=CSV)
    ret = TInt
    modifies = ALLG
    theories = ("cat",)
    requires = staticmethod(_write.requires)
    raises = io_raises(lambda c: [("fault_was_injected", FAULT(c)), ("contents_kept", same(view(c), old_view(c)))])

    @staticmethod
    def ensures(c):
        return [("number_of_rows", c.result.t == l_len(old_view(c))), ("contents_kept", z3.And(same(f(c, "disk"), old_view(c)), l_len(f(c, "wbuf")) == 0)),
                ("file_bytes_unchanged_when_nothing_was_buffered", z3.Implies(l_len(f(c.old, "wbuf")) == 0, same(f(c, "disk"), f(c.old, "disk")))),
                ("temp_untouched", unchanged(c, *TEMP_FIELDS, "staged_exists", "h_open"))]


@contract(_CS + "__iter__")
class _iter(Contract):
    """C04/C15/C16: iterating the storage reads the contents through the live handle from the start: whatever was still buffered is written out
    first (the seek flushes it), so the reader sees old rows + buffered rows; nothing else changes"""
    params = dict(self=CSV)
    ret = Reader
    modifies = ALLG
    theories = ("cat",)
    requires = staticmethod(_write.requires)
    raises = io_raises(lambda c: [("fault_was_injected", FAULT(c)), ("contents_kept", same(view(c), old_view(c)))])

    @staticmethod
    def ensures(c):
        return [("reader_will_see_the_contents", z3.And(same(f(c, "disk"), old_view(c)), l_len(f(c, "wbuf")) == 0)),
                ("positioned_at_the_start", f(c, "at_start")),
                ("file_bytes_unchanged_when_nothing_was_buffered", z3.Implies(l_len(f(c.old, "wbuf")) == 0, same(f(c, "disk"), f(c.old, "disk")))),
                ("temp_untouched", unchanged(c, *TEMP_FIELDS, "staged_exists", "h_open"))]


@contract(_CS + "_init_temp_storage")
class _init_temp(Contract):
    """C04: the temporary file is created empty, in the storage's own encoding and newline mode (after fix 4ce462c)"""
    params = dict(self=CSV)
    modifies = ALLG + ("_temp_handle",)
    theories = ("cat",)
    requires = staticmethod(lambda c: [("not_faulted", z3.Not(FAULT(c)))])
    raises = io_raises(lambda c: [("fault_was_injected", FAULT(c)), ("primary_untouched", unchanged(c, *PRIM_FIELDS)), ("no_temp_file_created", unchanged(c, "t_exists"))])

    @staticmethod
    def ensures(c):
        return [("temp_handle", f(c, "_temp_handle") == o_some(OHandle, TEMP)), ("temp_empty_and_open", z3.And(f(c, "t_exists"), f(c, "t_open"), l_len(f(c, "tdisk")) == 0, l_len(f(c, "twbuf")) == 0)),
                ("temp_has_the_storage_format", f(c, "t_same_format")), ("primary_untouched", unchanged(c, *PRIM_FIELDS)), ("no_fault", z3.Not(FAULT(c)))]


@contract(_CS + "_cleanup_temp_storage")
class _cleanup_temp(Contract):
    """C15/C13: the temporary file is closed and removed (after fix 3d14429), a failure to do so is raised, not swallowed; the primary file is not touched"""
    params = dict(self=CSV)
    modifies = ALLG + ("_temp_handle",)
    theories = ("cat",)
    requires = staticmethod(lambda c: wf_handles(c))
    raises = io_raises(lambda c: [("fault_was_injected", FAULT(c)), ("primary_untouched", unchanged(c, *PRIM_FIELDS))])

    @staticmethod
    def ensures(c):
        had = o_is_some(f(c.old, "_temp_handle"))
        return [("no_temp_handle", o_is_none(f(c, "_temp_handle"))), ("primary_untouched", unchanged(c, *PRIM_FIELDS)),
                ("no_fault_swallowed", FAULT(c) == FAULT(c.old)),  # C13: returning normally means every I/O call of this cleanup succeeded (it also runs after a failed operation)
                ("temp_file_removed", z3.Implies(had, z3.Not(f(c, "t_exists")))),
                ("nothing_created", z3.Implies(z3.Not(had), unchanged(c, "t_exists")))]


@contract(_CS + "_swap_temp_with_primary")
class _swap(Contract):
    """C04/C12/C13: the primary file is replaced in one atomic step by the (flushed) temporary contents (after fixes 4ce462c, 30d650e)"""
    params = dict(self=CSV)
    modifies = ALLG + ("_handle",)
    theories = ("cat",)

    @staticmethod
    def requires(c):
        return wf_handles(c) + [("not_faulted", z3.Not(FAULT(c))), ("no_stale_swap_file", z3.Not(f(c, "staged_exists")))]

    @staticmethod
    def _new(c):
        return cat(f(c.old, "tdisk"), f(c.old, "twbuf"))

    @staticmethod
    def _old_or_new(c):
        return z3.Or(f(c, "disk") == f(c.old, "disk"), same(f(c, "disk"), old_view(c)), same(f(c, "disk"), _swap._new(c)))

    @staticmethod
    def crash_inv(c):
        return [("primary_holds_old_or_new_contents", z3.Implies(o_is_some(f(c.old, "_temp_handle")), _swap._old_or_new(c)))]

    raises = io_raises(lambda c: [("fault_was_injected", FAULT(c)), ("file_holds_old_or_new_contents", _swap._old_or_new(c)),
                                  ("no_swap_file_left_unless_its_removal_failed", z3.BoolVal(True))])

    @staticmethod
    def ensures(c):
        had = o_is_some(f(c.old, "_temp_handle"))
        return [("primary_is_temporary_contents", z3.Implies(had, z3.And(same(f(c, "disk"), _swap._new(c)), l_len(f(c, "wbuf")) == 0, f(c, "h_open"), f(c, "_handle") == PRIMARY))),
                ("reopened_with_the_storage_format", z3.Implies(had, f(c, "h_same_format"))),  # same path, mode, encoding and newline as the constructor's open (C04/C05: CR and LF inside cells survive)
                ("no_swap_file_left", z3.Implies(z3.Not(FAULT(c)), z3.Not(f(c, "staged_exists")))),
                ("nothing_without_temp", z3.Implies(z3.Not(had), unchanged(c, *PRIM_FIELDS)))]


@contract(_CS + "close")
class _close(Contract):
    """C04: closing flushes what was buffered: the file then holds the contents"""
    params = dict(self=CSV)
    modifies = ALLG
    theories = ("cat",)
    requires = staticmethod(_write.requires)
    raises = io_raises(lambda c: [("fault_was_injected", FAULT(c))])

    @staticmethod
    def ensures(c):
        return [("file_holds_contents", z3.And(same(f(c, "disk"), old_view(c)), l_len(f(c, "wbuf")) == 0, z3.Not(f(c, "h_open"))))]


# every other method keeps the live handle (and so its format): stated once for all of them
def _keep_format(con):
    orig = con.ensures
    con.ensures = staticmethod(lambda c, orig=orig: list(orig(c)) + [("handle_format_kept", f(c, "h_same_format") == f(c.old, "h_same_format"))])


for _q, _con in list(S.REGISTRY.items()):
    if _q.startswith(_CS) and _q != _CS + "_swap_temp_with_primary" and "h_same_format" in getattr(_con, "modifies", ()):
        _keep_format(_con)


# C13, stated once for every method: a normal return means that no I/O call of the method failed (nothing is swallowed)
def _no_swallow(con):
    orig = con.ensures
    con.ensures = staticmethod(lambda c, orig=orig: list(orig(c)) + [("no_io_error_swallowed", FAULT(c) == FAULT(c.old))])


for _q, _con in list(S.REGISTRY.items()):
    if _q.startswith(_CS) and "faulted" in getattr(_con, "modifies", ()):
        _no_swallow(_con)
