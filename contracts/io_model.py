"""I/O effect model for CSVStorage (DESIGN 4.4): a ghost file system inside the storage object.

  disk / wbuf      rows of the primary file on disk / written through the primary handle but not flushed
  tdisk / twbuf    the same for the temporary file;   staged: the `.swap` file next to the primary
  at_end / t_at_end  the handle's file position is at end-of-file: a write anywhere else overwrites existing rows
  io / reads       number of I/O calls made / of read calls made (C16)
  faulted          an injected OSError has already happened (single-fault model, C13)

Every I/O call (a) may raise OSError before taking effect (and flush/fsync/close also after),
(b) applies its effect to the ghost state, (c) poses the function's crash condition on the
primary file (C12: `crash_inv` of the contract) as an obligation, (d) counts one I/O call.
"""

import ast as _ast
import z3
from pyvc.core import *  # noqa
from pyvc import spec as S
from pyvc.spec import register_class
from pyvc.state import Obligation
from pyvc.verify import Exec
from .model import *  # noqa
from .db_model import Item, LItem

Handle = TU("Handle")
OHandle = TOpt(Handle)
Opaque = TU("Opaque")  # encodings, csv kwargs, paths, file descriptors
PRIMARY, TEMP = z3.Const("handle_primary", sort_of(Handle)), z3.Const("handle_temp", sort_of(Handle))
CSV = TObj("CSVStorage")
GHOST = dict(disk=LItem, wbuf=LItem, h_open=TBool, at_start=TBool, at_end=TBool, t_at_end=TBool, tdisk=LItem, twbuf=LItem, t_open=TBool, t_exists=TBool, t_same_format=TBool, h_same_format=TBool,
             staged=LItem, staged_exists=TBool, io=TInt, reads=TInt, faulted=TBool)
register_class("CSVStorage", "tinyflux.storages", dict(
    _mode=TStr, _flush_on_insert=TBool, _encoding=Opaque, _newline=Opaque, kwargs=Opaque, _path=Opaque, _handle=Handle, _temp_handle=OHandle, _initially_empty=TBool,
    **GHOST))
io_fault = z3.Function("io_fault", z3.IntSort(), z3.BoolSort())  # the k-th I/O call fails before taking effect
io_fault_after = z3.Function("io_fault_after", z3.IntSort(), z3.BoolSort())  # ... after taking effect (flush, fsync, close)
SWAP_PATH = z3.Const("path_swap", sort_of(Opaque))
TEMP_NAME = z3.Const("path_of_temp_file", sort_of(Opaque))


def lcat(ex, st, a, b):
    """a ++ b as a fresh list with definitional facts"""
    return ex.list_concat(Val(LItem, a), Val(LItem, b), st).t


def empty_items(ex):
    return ex.empty_of(LItem).t


def _self(st):
    return st.env["self"]


def _set(st, **kw):
    me = _self(st)
    rec = dict(me.t)
    for k, v in kw.items():
        rec[k] = Val(GHOST[k], v) if not isinstance(v, Val) else v
    st.env["self"] = Val(me.ty, rec)


def io_call(ex, st, node, name, effect, after_fault=False, counts_read=False):
    """one I/O call: fault edge(s), effect, crash condition, counter"""
    me = _self(st).t
    k = me["io"].t
    can_fail = z3.Not(me["faulted"].t)
    pre = st.fork()
    _set(pre, faulted=z3.BoolVal(True), io=k + 1)
    ex.hazard("OSError", z3.Not(z3.And(can_fail, io_fault(k))), node, "%s fails (before its effect)" % name, state=pre)
    effect(st)
    _set(st, io=k + 1)
    if counts_read:
        _set(st, reads=_self(st).t["reads"].t + 1)
    if after_fault:
        post = st.fork()
        _set(post, faulted=z3.BoolVal(True))
        ex.hazard("OSError", z3.Not(z3.And(can_fail, io_fault_after(k))), node, "%s fails (after its effect)" % name, state=post)
    # crash condition on the primary file after this step
    ci = getattr(ex.con, "crash_inv", None)
    if ci is not None:
        ctx = S.Ctx(st.env, old=ex.old_ctx, loops=st.loops)
        for label, f in ci(ctx):
            ex.emit(Obligation("%s/%s/crash-after[%s#%d:%s]" % (ex.con.qualname, st.pathname(), name, ex.io_site(node), label), list(st.pc) + [p for p in ex.prior_safe()], f, kind="crash"))


def _io_site(self, node):
    self._io_sites = getattr(self, "_io_sites", {})
    return self._io_sites.setdefault(id(node), len(self._io_sites))


Exec.io_site = _io_site
Exec.prior_safe = lambda self: [h.safe for h in self.hz]


def flush_of(ex, st, h):
    """effect of flushing handle h: buffered rows reach the disk"""
    me = _self(st).t
    prim = h == PRIMARY
    nd = lcat(ex, st, me["disk"].t, me["wbuf"].t)
    ntd = lcat(ex, st, me["tdisk"].t, me["twbuf"].t)
    e = empty_items(ex)
    _set(st, disk=z3.If(prim, nd, me["disk"].t), wbuf=z3.If(prim, e, me["wbuf"].t), tdisk=z3.If(prim, me["tdisk"].t, ntd), twbuf=z3.If(prim, me["twbuf"].t, e))


def _seek(ex, recv, node, st, rn):
    recv = ex.coerce(recv, Handle, node)
    args = [ex.eval(a, st) for a in node.args]
    to_end = len(args) == 2

    def eff(st_):
        flush_of(ex, st_, recv.t)
        if True:
            me = _self(st_).t
            empty_p = l_len(me["disk"].t) == 0
            empty_t = l_len(me["tdisk"].t) == 0
            _set(st_, at_start=z3.If(recv.t == PRIMARY, z3.BoolVal(not to_end), me["at_start"].t),
                 at_end=z3.If(recv.t == PRIMARY, z3.BoolVal(True) if to_end else empty_p, me["at_end"].t),
                 t_at_end=z3.If(recv.t == PRIMARY, me["t_at_end"].t, z3.BoolVal(True) if to_end else empty_t))
    io_call(ex, st, node, "seek", eff)
    return NONE


def _flush(ex, recv, node, st, rn):
    io_call(ex, st, node, "flush", lambda st_: flush_of(ex, st_, recv.t), after_fault=True)
    return NONE


def _truncate(ex, recv, node, st, rn):
    def eff(st_):
        me = _self(st_).t
        cut = z3.And(recv.t == PRIMARY, me["at_start"].t)
        garbage = z3.Const(fresh_name("cut_somewhere"), sort_of(LItem))
        st_.assume(l_len(garbage) >= 0)
        # truncating at the start empties the file, at the end changes nothing, anywhere else cuts it at an unknown row
        _set(st_, disk=z3.If(recv.t != PRIMARY, me["disk"].t, z3.If(me["at_start"].t, empty_items(ex), z3.If(me["at_end"].t, me["disk"].t, garbage))),
             at_end=z3.If(recv.t == PRIMARY, z3.BoolVal(True), me["at_end"].t))
    io_call(ex, st, node, "truncate", eff)
    return NONE


def _close(ex, recv, node, st, rn):
    def eff(st_):
        flush_of(ex, st_, recv.t)
        me = _self(st_).t
        _set(st_, h_open=z3.If(recv.t == PRIMARY, z3.BoolVal(False), me["h_open"].t), t_open=z3.If(recv.t == PRIMARY, me["t_open"].t, z3.BoolVal(False)))
    io_call(ex, st, node, "close", eff, after_fault=True)
    return NONE


for _n, _h in (("seek", _seek), ("flush", _flush), ("truncate", _truncate), ("close", _close)):
    Exec.method_handlers[("Handle", _n)] = _h
Exec.method_handlers[("Handle", "fileno")] = lambda ex, recv, node, st, rn: Val(Opaque, z3.Const("a_file_descriptor", sort_of(Opaque)))
Exec.method_handlers[("Handle", "tell")] = lambda ex, recv, node, st, rn: Val(TInt, z3.If(_self(st).t["at_start"].t, 0, l_len(_self(st).t["disk"].t)))
Exec.attr_handlers[("Handle", "name")] = lambda ex, v, node, st: Val(Opaque, TEMP_NAME)
Exec.truthy_handlers["Handle"] = lambda ex, v: z3.BoolVal(True)
Exec.truthy_handlers["Opaque"] = lambda ex, v: z3.Function("opaque_truthy", sort_of(Opaque), z3.BoolSort())(v.t)

Writer = TU("CsvWriter")
Reader = TU("CsvReader")
writer_handle = z3.Function("writer_handle", sort_of(Writer), sort_of(Handle))
mk_writer = z3.Function("mk_writer", sort_of(Handle), sort_of(Writer))


def _csv_writer(ex, node, st):
    h = ex.coerce(ex.eval(node.args[0], st), Handle, node, "file handle")
    return Val(Writer, mk_writer(h.t))


def _writerow(ex, recv, node, st, rn, many=False):
    (a,) = [ex.eval(x, st) for x in node.args]
    # the handle is the argument of csv.writer(...): recover it syntactically from the term
    h = recv.t.arg(0) if recv.t.decl().name() == "mk_writer" else writer_handle(recv.t)
    rows = a.t if many else ex.e_List(_ast.List(elts=[], ctx=_ast.Load()), st, hint=LItem).t

    def eff(st_):
        me = _self(st_).t
        new = a.t if many else None
        if many:
            add_p, add_t = lcat(ex, st_, me["wbuf"].t, a.t), lcat(ex, st_, me["twbuf"].t, a.t)
        else:
            item = ex.coerce(a, Item, node).t
            def app(lst):
                n = l_len(lst)
                return l_mk(LItem, n + 1, z3.Store(l_arr(lst), n, item))
            add_p, add_t = app(me["wbuf"].t), app(me["twbuf"].t)
        lost_p, lost_t = z3.Const(fresh_name("overwritten"), sort_of(LItem)), z3.Const(fresh_name("overwritten"), sort_of(LItem))
        st_.assume(z3.And(l_len(lost_p) >= 0, l_len(lost_t) >= 0))
        # a write that is not at end-of-file overwrites existing rows: the buffered content becomes unknown
        _set(st_, wbuf=z3.If(h == PRIMARY, z3.If(me["at_end"].t, add_p, lost_p), me["wbuf"].t), twbuf=z3.If(h == PRIMARY, me["twbuf"].t, z3.If(me["t_at_end"].t, add_t, lost_t)),
             at_start=z3.If(h == PRIMARY, z3.BoolVal(False), me["at_start"].t))
    io_call(ex, st, node, "writerows" if many else "writerow", eff)
    return NONE


Exec.global_calls["csv.writer"] = _csv_writer
Exec.method_handlers[("CsvWriter", "writerow")] = lambda ex, recv, node, st, rn: _writerow(ex, recv, node, st, rn)
Exec.method_handlers[("CsvWriter", "writerows")] = lambda ex, recv, node, st, rn: _writerow(ex, recv, node, st, rn, many=True)


def _fsync(ex, node, st):
    ex.eval(node.args[0], st)
    io_call(ex, st, node, "fsync", lambda st_: None, after_fault=True)
    return NONE


Exec.global_calls["os.fsync"] = _fsync
Exec.global_values["os.SEEK_END"] = lambda ex, st: mk_int(2)


def _csv_reader(ex, node, st):
    ex.eval(node.args[0], st)
    return Val(Reader, z3.Const("a_csv_reader", sort_of(Reader)))


Exec.global_calls["csv.reader"] = _csv_reader


def _iter_reader(ex, v, s, st):
    # reading through the primary handle after seek(0): the rows on disk (the buffer was flushed by the seek)
    me = _self(st).t
    _set(st, reads=me["reads"].t + 1, at_end=z3.Const(fresh_name("position_after_read"), z3.BoolSort()), at_start=z3.BoolVal(False))
    return l_len(me["disk"].t), Val(LItem, me["disk"].t), (lambda j: Val(Item, l_at(me["disk"].t, j))), {}


Exec.iter_handlers["CsvReader"] = _iter_reader
Exec.listof_handlers["CsvReader"] = lambda ex, v, node, st: Val(LItem, _self(st).t["disk"].t)


def _b_sum(self, node, st):
    """sum(1 for _ in <iterable>): the number of items"""
    a = node.args[0]
    if isinstance(a, _ast.GeneratorExp) and isinstance(a.elt, _ast.Constant) and a.elt.value == 1 and not a.generators[0].ifs:
        src = self.eval(a.generators[0].iter, st)
        h = self.listof_handlers.get(src.ty.key)
        if h:
            src = h(self, src, node, st)
        if isinstance(src.ty, TList):
            if src.ty == LItem:
                _set(st, reads=_self(st).t["reads"].t + 1)
            return Val(TInt, l_len(src.t))
    raise Unsupported("sum() of this shape", node)


Exec.b_sum = _b_sum


def _open(ex, node, st):
    # the handle speaks the storage's format only if it is opened on the storage's own path with its own mode, encoding and newline
    me = _self(st).t
    kws = {k.arg: k.value for k in node.keywords}
    same = []
    args = list(node.args)
    pathv = ex.eval(args[0], st) if args else (ex.eval(kws["file"], st) if "file" in kws else None)
    same.append(z3.BoolVal(pathv is not None and pathv.ty == Opaque and pathv.t.eq(me["_path"].t)))
    for kw, fld in (("mode", "_mode"), ("encoding", "_encoding"), ("newline", "_newline")):
        if kw in kws:
            v = ex.eval(kws[kw], st)
            same.append(v.t == me[fld].t if v.ty == me[fld].ty else z3.BoolVal(False))
        else:
            same.append(z3.BoolVal(False))
    fmt = z3.And(*same)

    def eff(st_):
        _set(st_, h_open=z3.BoolVal(True), h_same_format=fmt, wbuf=empty_items(ex), at_start=z3.BoolVal(True), at_end=l_len(_self(st_).t["disk"].t) == 0)
    io_call(ex, st, node, "open", eff)
    return Val(Handle, PRIMARY)


Exec.b_open = lambda self, node, st: _open(self, node, st)


def _ntf(ex, node, st):
    enc_ok = z3.BoolVal(False)
    kws = {k.arg: k.value for k in node.keywords}
    if "encoding" in kws and "newline" in kws:
        me = _self(st).t
        e, n = ex.eval(kws["encoding"], st), ex.eval(kws["newline"], st)
        if e.ty == Opaque and n.ty == Opaque:
            enc_ok = z3.And(e.t == me["_encoding"].t, n.t == me["_newline"].t)

    def eff(st_):
        _set(st_, t_exists=z3.BoolVal(True), t_open=z3.BoolVal(True), tdisk=empty_items(ex), twbuf=empty_items(ex), t_same_format=enc_ok, t_at_end=z3.BoolVal(True))
    io_call(ex, st, node, "mktemp", eff)
    return Val(Handle, TEMP)


Exec.global_calls["tempfile.NamedTemporaryFile"] = _ntf


def _copy(ex, node, st):
    src, dst = [ex.eval(a, st) for a in node.args]
    me0 = _self(st).t
    to_primary = z3.BoolVal(dst.t.eq(me0["_path"].t))
    # three atomic steps on the destination: created empty, half written, complete (what is ON DISK in the source)
    half = z3.Const(fresh_name("copy_prefix"), sort_of(LItem))
    j = z3.Int(fresh_name("j"))
    src_rows = me0["tdisk"].t
    st.assume(z3.And(l_len(half) >= 0, l_len(half) <= l_len(src_rows), forall([j], z3.Implies(z3.And(0 <= j, j < l_len(half)), l_at(half, j) == l_at(src_rows, j)), patterns=[l_at(half, j)])))
    for nm, content in (("copy-open", empty_items(ex)), ("copy-mid", half), ("copy-done", src_rows)):
        def eff(st_, content=content):
            if dst.t.eq(me0["_path"].t):
                _set(st_, disk=content)
            else:
                _set(st_, staged=content, staged_exists=z3.BoolVal(True))
        io_call(ex, st, node, nm, eff)
    return NONE


Exec.global_calls["shutil.copy"] = _copy


def _move(ex, node, st):
    """shutil.move: a rename only within one file system; in general (documented behaviour) a copy onto the destination followed by removing
    the source - modelled as that general case, so a crash or fault in the middle sees a truncated destination"""
    _copy(ex, node, st)

    def eff(st_):
        _set(st_, t_exists=z3.BoolVal(False))
    io_call(ex, st, node, "remove", eff)
    return NONE


Exec.global_calls["shutil.move"] = _move


def _replace(ex, node, st):
    src, dst = [ex.eval(a, st) for a in node.args]

    def eff(st_):
        me = _self(st_).t
        _set(st_, disk=me["staged"].t, staged_exists=z3.BoolVal(False))
    io_call(ex, st, node, "replace", eff)
    return NONE


Exec.global_calls["os.replace"] = _replace
Exec.global_calls["os.path.exists"] = lambda ex, node, st: Val(TBool, _self(st).t["staged_exists"].t if ex.eval(node.args[0], st).t.eq(SWAP_PATH) else z3.Const(fresh_name("exists"), z3.BoolSort()))


def _remove(ex, node, st):
    (p,) = [ex.eval(a, st) for a in node.args]

    def eff(st_):
        if p.t.eq(SWAP_PATH):
            _set(st_, staged_exists=z3.BoolVal(False))
        elif p.t.eq(TEMP_NAME):
            _set(st_, t_exists=z3.BoolVal(False))
    io_call(ex, st, node, "remove", eff)
    return NONE


Exec.global_calls["os.remove"] = _remove
Exec.fstring_handler = staticmethod(lambda ex, node, st: Val(Opaque, SWAP_PATH))  # the only f-string executed in storages.py: f"{self._path}.swap"
Exec.coercions.setdefault("Opaque", {})["None"] = lambda ex, v: Val(Opaque, z3.Const("opaque_none", sort_of(Opaque)))
Exec.coercions.setdefault("Opaque", {})["Str"] = lambda ex, v: Val(Opaque, z3.Function("opaque_of_str", sort_of(TStr), sort_of(Opaque))(v.t))
Exec.isnone_handlers["Handle"] = lambda ex, v: z3.BoolVal(False)
