"""The abstract Storage contract (DESIGN 3.3) that database.py is verified against.

These are interface contracts: MemoryStorage and CSVStorage are to be shown to refine
them (storages cone); here they are marked `assumed`."""

import z3
from pyvc.core import *  # noqa
from pyvc import spec as S
from pyvc.spec import contract, Contract
from .model import *  # noqa
from .db_model import *  # noqa

_SQ = "tinyflux.storages.Storage."


def _gate(flag):
    class _c(Contract):
        params = dict(self=STG)
        ret = TBool
        assumed = True
        raises = {"OSError": staticmethod(lambda c: dict(when=z3.Not(c.self.t[flag].t)))}

        @staticmethod
        def ensures(c):
            return [("true", c.result.t)]

    return _c


contract(_SQ + "can_read")(_gate("readable"))
contract(_SQ + "can_write")(_gate("writable"))
contract(_SQ + "can_append")(_gate("appendable"))


@contract(_SQ + "__len__")
class _len(Contract):
    params = dict(self=STG)
    ret = TInt
    assumed = True

    @staticmethod
    def ensures(c):
        return [("len_items", c.result.t == l_len(c.self.t["items"].t))]


@contract(_SQ + "_deserialize_storage_item")
class _dsi(Contract):
    params = dict(self=STG, item=Item)
    ret = Pt
    assumed = True

    @staticmethod
    def ensures(c):
        return [("decodes", c.result.t == dec(c.item.t))]


@contract(_SQ + "_deserialize_measurement")
class _dm(Contract):
    params = dict(self=STG, item=Item)
    ret = TStr
    assumed = True

    @staticmethod
    def ensures(c):
        return [("measurement", c.result.t == meas(dec(c.item.t)))]


@contract(_SQ + "read")
class _read(Contract):
    params = dict(self=STG)
    ret = LPt
    assumed = True

    @staticmethod
    def ensures(c):
        items = c.self.t["items"].t
        j = z3.Int(fresh_name("j"))
        return [("len", l_len(c.result.t) == l_len(items)),
                ("decoded", forall([j], z3.Implies(z3.And(0 <= j, j < l_len(items)), l_at(c.result.t, j) == dec(l_at(items, j))),
                                   patterns=[l_at(c.result.t, j), l_at(items, j)]))]


def _write_fault_append(c):
    """C13: a write to storage may fail (an I/O error): the list written to then holds its old contents followed by some prefix of the new rows"""
    def ens(cc):
        o, n = cc.old.self.t, cc.self.t
        pts = cc.points.t
        j = z3.Int(fresh_name("j"))
        k = z3.Int(fresh_name("written"))

        def partly(new, old):
            return z3.And(0 <= k, k <= l_len(pts), l_len(new) == l_len(old) + k,
                          forall([j], z3.Implies(z3.And(0 <= j, j < l_len(old)), l_at(new, j) == l_at(old, j)), patterns=[l_at(new, j), l_at(old, j)]),
                          forall([j], z3.Implies(z3.And(0 <= j, j < k), l_at(new, l_len(old) + j) == l_at(pts, j)), patterns=[l_at(pts, j)]))
        return [("old_rows_plus_a_prefix_of_the_new", z3.If(cc.temporary.t, z3.And(partly(n["temp"].t, o["temp"].t), n["items"].t == o["items"].t),
                                                          z3.And(partly(n["items"].t, o["items"].t), n["temp"].t == o["temp"].t)))]
    return dict(when=z3.BoolVal(True), exact=False, ensures=ens)


@contract(_SQ + "append")
class _append(Contract):
    params = dict(self=STG, points=LItem, temporary=TBool)
    defaults = dict(temporary=lambda ex: mk_bool(False))
    modifies = ("items", "temp")
    assumed = True
    raises = {"WriteFault": staticmethod(_write_fault_append)}

    @staticmethod
    def ensures(c):
        o, n = c.old.self.t, c.self.t
        pts = c.points.t
        j = z3.Int(fresh_name("j"))

        def appended(new, old):
            return z3.And(l_len(new) == l_len(old) + l_len(pts),
                          forall([j], z3.Implies(z3.And(0 <= j, j < l_len(old)), l_at(new, j) == l_at(old, j)), patterns=[l_at(new, j), l_at(old, j)]),
                          forall([j], z3.Implies(z3.And(0 <= j, j < l_len(pts)), l_at(new, l_len(old) + j) == l_at(pts, j)), patterns=[l_at(pts, j)]))

        return [("appended", z3.If(c.temporary.t,
                                   z3.And(appended(n["temp"].t, o["temp"].t), n["items"].t == o["items"].t),
                                   z3.And(appended(n["items"].t, o["items"].t), n["temp"].t == o["temp"].t)))]


@contract(_SQ + "_swap_temp_with_primary")
class _swap(Contract):
    params = dict(self=STG)
    modifies = ("items",)
    assumed = True
    # C12/C13: the swap is atomic - when it fails, primary storage holds the old or the new contents (it may fail AFTER the new contents are in place)
    raises = {"WriteFault": staticmethod(lambda c: dict(when=z3.BoolVal(True), exact=False, ensures=lambda cc: [
        ("old_or_new", z3.Or(cc.self.t["items"].t == cc.old.self.t["items"].t, cc.self.t["items"].t == cc.old.self.t["temp"].t))]))}

    @staticmethod
    def ensures(c):
        return [("primary_is_temp", c.self.t["items"].t == c.old.self.t["temp"].t)]


@contract(_SQ + "reset")
class _sreset(Contract):
    params = dict(self=STG)
    modifies = ("items",)
    assumed = True
    raises = {"WriteFault": staticmethod(lambda c: dict(when=z3.BoolVal(True), exact=False, ensures=lambda cc: [
        ("old_or_empty", z3.Or(cc.self.t["items"].t == cc.old.self.t["items"].t, l_len(cc.self.t["items"].t) == 0))]))}

    @staticmethod
    def ensures(c):
        return [("empty", l_len(c.self.t["items"].t) == 0)]


@contract(_SQ + "_init_temp_storage")
class _init_temp(Contract):
    params = dict(self=STG)
    modifies = ("temp",)
    assumed = True

    @staticmethod
    def ensures(c):
        return [("temp_empty", l_len(c.self.t["temp"].t) == 0)]


@contract(_SQ + "_cleanup_temp_storage")
class _cleanup_temp(Contract):
    params = dict(self=STG)
    modifies = ("temp",)
    assumed = True

    @staticmethod
    def ensures(c):
        return [("temp_empty", l_len(c.self.t["temp"].t) == 0)]


@contract(_SQ + "_serialize_point")
class _serialize_point(Contract):
    """the item decodes to the point (C05 for CSVStorage; identity for MemoryStorage)"""
    params = dict(self=STG, point=Pt, compact_key_prefixes=TBool)
    defaults = dict(compact_key_prefixes=lambda ex: mk_bool(False))
    ret = Item
    assumed = True

    @staticmethod
    def ensures(c):
        return [("decodes_to_point", dec(c.result.t) == c.point.t)]


@contract(_SQ + "close")
class _sclose(Contract):
    """closing a storage changes neither its contents nor its temporary contents (CSVStorage.close is proved to leave the file holding the contents
    under C04; MemoryStorage inherits the empty Storage.close); a close that fails reports the error (C13)"""
    params = dict(self=STG)
    modifies = ()
    assumed = True
    raises = {"WriteFault": staticmethod(lambda c: dict(when=z3.BoolVal(True), exact=False))}

    @staticmethod
    def ensures(c):
        return []
